(* Proofs for the pairing method selection (property C36).

   The domain is finite: 36 configurations x manager state (1 bit) x request IO capability byte x
   OOB flag byte x the two AuthReq bits that matter x local OOB data. The cell facts are decided by
   forallb ... = true (vm_compute) and lifted with forallb_forall; the sweep runs over
       all_cfgs x {false,true} x io 0..255 x oob {0,1} x {false,true}^3          (294 912 cells)
   the OOB flag values 2..255 are covered by a second sweep (256 values) showing that the code's
   test  oob & ~0x01  rejects exactly these, and the AuthReq byte needs no bound at all, because
   model and oracle only look at bits 2 and 3 (lemma sc_bit). Traces of any length follow by
   induction with the invariant "a LESC-only manager never learns about local OOB data". *)
From Coq Require Import NArith List Bool Lia.
Import ListNotations.
From BT Require Import Base.ListX Base.Bits2 SMSelect.SMSelectModel SMSelect.SMSelectSpec.
Local Open Scope N_scope.

(* ---------- the AuthReq byte ---------- *)
(* ( auth_req & secure_connections ) != 0  is bit 3, for every N *)
Lemma sc_bit auth : sc_requested auth = bit_sc auth.
Proof.
  unfold sc_requested, bit_sc, flag_secure_connections.
  destruct auth as [|p]; [reflexivity|].
  do 4 (try destruct p as [p|p|]); reflexivity.
Qed.

(* ---------- finite enumerations ---------- *)
Definition bools := [false; true].
Lemma In_bools b : In b bools.
Proof. destruct b; simpl; auto. Qed.

Lemma all_cfgs_complete c : In c all_cfgs.
Proof.
  destruct c as [[] [] [] []]; vm_compute; repeat (first [left; reflexivity | right]).
Qed.

Lemma all_cfgs_length : length all_cfgs = 36%nat.
Proof. reflexivity. Qed.

(* ---------- the OOB data flag byte ---------- *)
Definition oob_sweep_ok : bool :=
  forallb (fun oob => Bool.eqb (negb (N.land oob 254 =? 0)) (1 <? oob)) (Nrange 256).
Lemma oob_sweep_ok_true : oob_sweep_ok = true.
Proof. vm_compute. reflexivity. Qed.

(* the code's  oob_data_flag & ~0x01  is "reserved value" on bytes *)
Lemma oob_flag_test oob : oob < 256 -> negb (N.land oob 254 =? 0) = (1 <? oob).
Proof.
  intros H. pose proof oob_sweep_ok_true as S. unfold oob_sweep_ok in S.
  rewrite forallb_forall in S. specialize (S oob (In_Nrange 256 oob H)).
  apply eqb_prop in S. exact S.
Qed.

Lemma small_oob oob : (1 <? oob) = false -> oob = 0 \/ oob = 1.
Proof. intros H. apply N.ltb_ge in H. lia. Qed.

(* ---------- one cell ---------- *)
Definition verdict_ok (v : verdict) : bool := match v with Ok => true | Bad _ => false end.
Lemma verdict_ok_true v : verdict_ok v = true -> v = Ok.
Proof. destruct v; simpl; congruence. Qed.

(* invariant of the manager state: the LESC-only manager never asks the OOB callback *)
Definition inv_b (c : cfg) (has : bool) : bool := negb (is_variant_lesc (c_variant c)) || negb has.

(* which cells a statement is about: exA excludes class (A) no_mitm, exB excludes class (B) *)
Definition in_scope_b (exA exB : bool) (c : cfg) (oob : N) (init_mitm init_sc loc : bool) : bool :=
  (negb exA || negb (no_mitm_bits c init_mitm)) && (negb exB || negb (lesc_local_oob_bits c oob init_sc loc)).

Definition cell_ok (mr exA exB : bool) (c : cfg) (has : bool) (io oob : N) (init_mitm init_sc loc : bool) : bool :=
  implb (inv_b c has)
    (inv_b c (oob_present (fst (step_sc c (mkst has) io oob init_sc loc))) &&
     implb (in_scope_b exA exB c oob init_mitm init_sc loc)
           (verdict_ok (judge_bits mr c io oob init_mitm init_sc (snd (step_sc c (mkst has) io oob init_sc loc))))).

Definition cells_ok (mr exA exB : bool) : bool :=
  forallb (fun c => forallb (fun has => forallb (fun io => forallb (fun oob =>
  forallb (fun m => forallb (fun sc => forallb (fun loc =>
    cell_ok mr exA exB c has io oob m sc loc) bools) bools) bools) [0; 1]) (Nrange 256)) bools) all_cfgs.

(* the property's oracle, outside the two classes of known deviating cells *)
Lemma cells_partial : cells_ok true true true = true.
Proof. vm_compute. reflexivity. Qed.

(* the oracle without the "neither side sets MITM -> Just Works" rule, outside class (B) only *)
Lemma cells_without_mitm_rule : cells_ok false false true = true.
Proof. vm_compute. reflexivity. Qed.

Lemma invalid_oob_cell mr c s io oob m sc loc :
  oob < 256 -> (1 <? oob) = true ->
  step_sc c s io oob sc loc = (s, OFail err_invalid_parameters) /\
  judge_bits mr c io oob m sc (OFail err_invalid_parameters) = Ok.
Proof.
  intros Hb H. split.
  - unfold step_sc, invalid_parameters. rewrite (oob_flag_test oob Hb), H, orb_true_r. reflexivity.
  - unfold judge_bits. rewrite H. destruct (core_io_of_byte io); reflexivity.
Qed.

Lemma cell_sound mr exA exB :
  cells_ok mr exA exB = true ->
  forall c has io oob m sc loc,
    io < 256 -> oob < 256 -> inv_b c has = true ->
    inv_b c (oob_present (fst (step_sc c (mkst has) io oob sc loc))) = true /\
    (in_scope_b exA exB c oob m sc loc = true ->
     judge_bits mr c io oob m sc (snd (step_sc c (mkst has) io oob sc loc)) = Ok).
Proof.
  intros S c has io oob m sc loc Hio Hoob Hinv.
  destruct (1 <? oob) eqn:Hr.
  - destruct (invalid_oob_cell mr c (mkst has) io oob m sc loc Hoob Hr) as [E J].
    rewrite E. simpl. split; auto.
  - unfold cells_ok in S.
    rewrite forallb_forall in S. specialize (S c (all_cfgs_complete c)).
    rewrite forallb_forall in S. specialize (S has (In_bools has)).
    rewrite forallb_forall in S. specialize (S io (In_Nrange 256 io Hio)).
    rewrite forallb_forall in S. specialize (S oob).
    assert (Ho : In oob [0; 1]) by (destruct (small_oob oob Hr); subst; simpl; auto).
    specialize (S Ho).
    rewrite forallb_forall in S. specialize (S m (In_bools m)).
    rewrite forallb_forall in S. specialize (S sc (In_bools sc)).
    rewrite forallb_forall in S. specialize (S loc (In_bools loc)).
    unfold cell_ok in S. rewrite Hinv in S. simpl in S.
    apply andb_true_iff in S. destruct S as [S1 S2]. split; auto.
    intros Hs. rewrite Hs in S2. simpl in S2. apply verdict_ok_true. exact S2.
Qed.

(* ---------- traces ---------- *)
Definition scope_op (exA exB : bool) (c : cfg) (o : op) : bool :=
  match o with Req _ oob auth loc => in_scope_b exA exB c oob (bit_mitm auth) (bit_sc auth) loc end.

Lemma monitor_from_ok mr exA exB :
  cells_ok mr exA exB = true ->
  forall c ops s pos,
    inv_b c (oob_present s) = true ->
    Forall op_bounded ops ->
    Forall (fun o => scope_op exA exB c o = true) ops ->
    monitor_from mr (minit c) pos (run c s ops) = None.
Proof.
  intros S c ops. induction ops as [|o t IH]; intros s pos Hinv Hb Hs; [reflexivity|].
  inversion Hb as [|? ? Hbo Hbt]; subst. inversion Hs as [|? ? Hso Hst]; subst.
  destruct o as [io oob auth loc]. destruct Hbo as [Hio Hoob].
  destruct s as [has]. simpl in Hinv.
  destruct (cell_sound mr exA exB S c has io oob (bit_mitm auth) (bit_sc auth) loc Hio Hoob Hinv) as [I J].
  simpl in Hso. specialize (J Hso).
  cbn [run step]. rewrite sc_bit.
  destruct (step_sc c (mkst has) io oob (bit_sc auth) loc) as [s' r] eqn:E.
  cbn [fst snd] in I, J.
  cbn [monitor_from mstep_gen judge_gen]. unfold minit in *. rewrite J.
  apply IH; auto.
Qed.

Lemma init_inv c : inv_b c (oob_present (init c)) = true.
Proof. unfold inv_b. simpl. apply orb_true_r. Qed.

Lemma scope_partial c o :
  no_mitm_cell c o = false -> lesc_local_oob_cell c o = false -> scope_op true true c o = true.
Proof.
  destruct o as [io oob auth loc]. unfold no_mitm_cell, lesc_local_oob_cell, scope_op, in_scope_b.
  intros A B. rewrite A, B. reflexivity.
Qed.

Lemma scope_without_mitm_rule c o :
  lesc_local_oob_cell c o = false -> scope_op false true c o = true.
Proof.
  destruct o as [io oob auth loc]. unfold lesc_local_oob_cell, scope_op, in_scope_b.
  intros B. rewrite B. reflexivity.
Qed.

(* C36, the part that holds: on every trace of Pairing Requests in which each request or the
   configuration sets MITM, and which avoids class (B), every clause of the monitor holds *)
Theorem monitor_accepts_model_partial c ops :
  Forall op_bounded ops ->
  Forall (fun o => no_mitm_cell c o = false /\ lesc_local_oob_cell c o = false) ops ->
  monitor c (run c (init c) ops) = None.
Proof.
  intros Hb Hs. unfold monitor, monitor_gen.
  apply (monitor_from_ok true true true cells_partial); auto using init_inv.
  eapply Forall_impl; [|exact Hs]. intros o [A B]. apply scope_partial; auto.
Qed.

(* the implementation is the Core mapping with the MITM check left out: with that check removed
   from the oracle every cell outside class (B) is accepted, whatever the MITM bits are *)
Theorem monitor_without_mitm_rule_accepts_model c ops :
  Forall op_bounded ops ->
  Forall (fun o => lesc_local_oob_cell c o = false) ops ->
  monitor_gen false c (run c (init c) ops) = None.
Proof.
  intros Hb Hs. unfold monitor_gen.
  apply (monitor_from_ok false false true cells_without_mitm_rule); auto using init_inv.
  eapply Forall_impl; [|exact Hs]. intros o B. apply scope_without_mitm_rule; auto.
Qed.

(* ---------- the full statement and its refutation ---------- *)
Definition C36_full_statement : Prop :=
  forall (c : cfg) (ops : list op), Forall op_bounded ops -> monitor c (run c (init c) ops) = None.

(* witness (A): keyboard-only peripheral, legacy manager, no MITM anywhere, DisplayOnly central:
   Table 2.6 says Just Works, the code runs passkey entry *)
Definition witness_cfg : cfg := mkcfg VLegacy InKeyboard OutNone false.
Definition witness_ops : list op := [Req 0 0 0 false].

Lemma witness_bounded : Forall op_bounded witness_ops.
Proof. repeat constructor; reflexivity. Qed.

Lemma witness_fails : monitor witness_cfg (run witness_cfg (init witness_cfg) witness_ops) = Some (0%nat, t_mitm_rule).
Proof. vm_compute. reflexivity. Qed.

Theorem full_statement_refuted : ~ C36_full_statement.
Proof.
  intros H. specialize (H witness_cfg witness_ops witness_bounded). rewrite witness_fails in H. discriminate.
Qed.

(* class (B) is a second, independent deviation: excluding the no-MITM cells alone is not enough *)
Definition C36_mitm_cells_only_statement : Prop :=
  forall (c : cfg) (ops : list op), Forall op_bounded ops ->
    Forall (fun o => no_mitm_cell c o = false) ops -> monitor c (run c (init c) ops) = None.

Definition witness_b_cfg : cfg := mkcfg VCombined InNone OutNone true.
Definition witness_b_ops : list op := [Req 3 0 8 true].

Lemma witness_b_fails :
  monitor witness_b_cfg (run witness_b_cfg (init witness_b_cfg) witness_b_ops) = Some (0%nat, t_oob_rule).
Proof. vm_compute. reflexivity. Qed.

Theorem mitm_cells_only_statement_refuted : ~ C36_mitm_cells_only_statement.
Proof.
  intros H. specialize (H witness_b_cfg witness_b_ops).
  rewrite witness_b_fails in H. discriminate H.
  - repeat constructor; reflexivity.
  - repeat constructor.
Qed.

(* ---------- the tables on their own ---------- *)
(* Table 2.5: the advertised IO capability *)
Theorem local_io_capability_is_table_2_5 i o :
  get_io_capabilities o i = byte_of_core_io (core_io_cap i o).
Proof. destruct i, o; reflexivity. Qed.

Definition io_table_ok : bool :=
  forallb (fun i => forallb (fun o => forallb (fun io =>
    match core_io_of_byte io with
    | Some init_io =>
        rmethod_eqb (rm_of_legacy (select_legacy o i io)) (responder_view (table_2_8 false init_io (core_io_cap i o))) &&
        rmethod_eqb (rm_of_lesc (select_lesc o i io)) (responder_view (table_2_8 true init_io (core_io_cap i o)))
    | None => true
    end) (Nrange 256)) all_outputs) all_inputs.
Lemma io_table_ok_true : io_table_ok = true.
Proof. vm_compute. reflexivity. Qed.

Lemma rmethod_eqb_eq a b : rmethod_eqb a b = true -> a = b.
Proof. destruct a, b; simpl; congruence. Qed.

(* Table 2.8: the io_capabilities_matrix selection functions are the Core table, for both pairing
   kinds, every local option pair and every non-reserved remote IO capability *)
Theorem io_matrix_is_table_2_8 i o io init_io :
  io < 256 -> core_io_of_byte io = Some init_io ->
  rm_of_legacy (select_legacy o i io) = responder_view (table_2_8 false init_io (core_io_cap i o)) /\
  rm_of_lesc (select_lesc o i io) = responder_view (table_2_8 true init_io (core_io_cap i o)).
Proof.
  intros Hio E. pose proof io_table_ok_true as S. unfold io_table_ok in S.
  rewrite forallb_forall in S. specialize (S i). assert (Hi : In i all_inputs) by (destruct i; simpl; auto).
  specialize (S Hi).
  rewrite forallb_forall in S. specialize (S o). assert (Ho : In o all_outputs) by (destruct o; simpl; auto).
  specialize (S Ho).
  rewrite forallb_forall in S. specialize (S io (In_Nrange 256 io Hio)).
  rewrite E in S. apply andb_true_iff in S. destruct S as [A B].
  split; apply rmethod_eqb_eq; assumption.
Qed.

(* reserved values are refused before anything is selected or the OOB callback is asked *)
Theorem reserved_values_rejected c s io oob auth loc :
  io < 256 -> oob < 256 -> core_io_of_byte io = None \/ 1 < oob ->
  step c s (Req io oob auth loc) = (s, OFail err_invalid_parameters).
Proof.
  intros Hio Hoob H. unfold step, step_sc, invalid_parameters.
  rewrite (oob_flag_test oob Hoob).
  destruct H as [H|H].
  - assert (E : (io_last <? io) = true).
    { apply N.ltb_lt. unfold io_last, io_keyboard_display.
      destruct io as [|[[[]|[]|]|[[]|[]|]|]]; simpl in H; try discriminate; lia. }
    rewrite E. reflexivity.
  - apply N.ltb_lt in H. rewrite H, orb_true_r. reflexivity.
Qed.
