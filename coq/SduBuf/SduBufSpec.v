(* Abstract specification and executable monitor for the L2CAP SDU buffer (property C19).

   The monitor looks only at operations and their observed outputs. Beside the trace it keeps the
   abstract objects of the property:

   Receive: the list of PDUs the radio has accepted and the SDU buffer has not consumed yet, and the
   L2CAP recombination automaton [rstate] (Core specification Vol 3 Part A 7.2.2) over lists of bytes:
     Idle            no SDU in progress
     Coll L acc      a start fragment announced L payload bytes (L <= MTU); acc = the bytes received
                     so far (L2CAP header included), fewer than L + 4
     Done sdu        a complete SDU is waiting to be freed
   A start fragment always ends the SDU in progress. A start fragment whose body has exactly the
   announced length is an unfragmented SDU and is handed out as it is; one that is shorter than the
   L2CAP header, longer than announced, or announces more than the MTU is dropped. A continuation
   fragment extends the SDU in progress; if it would make the SDU longer than announced, or if there is
   no SDU in progress, it is dropped together with the SDU (the length field is the consistency
   check of the recombination). LL control PDUs (LLID 3) may arrive between fragments; they are handed
   out in order and do not touch the SDU in progress. There are no buffers, indices or sizes here.

   Transmit: the bytes of the outgoing SDU that are not yet committed to the radio and whether its start
   fragment was committed; and the FIFO of PDUs committed to the radio.

   Clauses (violation tags):
     oob_write        an operation ended in a sanitizer / bounds check abort (FAULT)
     delivered_exact  a delivered SDU differs from start fragment ++ continuations, or an SDU is
                      delivered though none is complete
     delivered_len    a delivered SDU has not the length its header announces
     order            PDUs / SDUs are handed out, or PDUs are transmitted, in an other order than
                      received / committed (lost, duplicated, reordered; a new SDU accepted while the
                      previous is not completely committed)
     frag_shape       an outgoing SDU does not start with a start fragment, or a later fragment is not a
                      continuation fragment, or a fragment is empty, or there is no SDU to send
     frag_concat      the fragment is not the next part of the SDU
     frag_size        the fragment is larger than the current max_tx_size()
     shape            output of the wrong kind for the operation *)
From BT Require Import Base.ListX SduBuf.SduBufModel.
Local Open Scope N_scope.

(* ------------------------------------------------------------------ receive specification *)
Inductive rstate := Idle | Coll (L : N) (acc : list N) | Done (sdu : list N).

Inductive sclass := Whole | Begin (L : N) | Junk.
Definition classify_start (m : N) (b : list N) : sclass :=
  if 4 <=? lenN b then
    let L := read16 b in
    if L + 4 =? lenN b then Whole
    else if (L <=? m) && (lenN b <? L + 4) then Begin L else Junk
  else Junk.

Inductive expect := ENone | EPdu (p : pdu) | ESdu (b : list N).

(* consume pending PDUs until there is something to hand out *)
Fixpoint spec_loop (m : N) (rs : rstate) (pend : list pdu) : rstate * list pdu * expect :=
  match pend with
  | [] => (rs, [], ENone)
  | p :: t =>
      if fst p =? 3 then (rs, pend, EPdu p)
      else if fst p =? 2 then
        match classify_start m (snd p) with
        | Whole => (Idle, pend, EPdu p)
        | Begin L => spec_loop m (Coll L (snd p)) t
        | Junk => spec_loop m Idle t
        end
      else
        match rs with
        | Coll L acc =>
            let acc' := acc ++ snd p in
            if lenN acc' <? L + 4 then spec_loop m (Coll L acc') t
            else if lenN acc' =? L + 4 then (Done acc', t, ESdu acc')
            else spec_loop m Idle t
        | _ => spec_loop m Idle t
        end
  end.

Definition spec_next (c : cfg) (rs : rstate) (pend : list pdu) : rstate * list pdu * expect :=
  if passthrough c then
    match pend with [] => (rs, pend, ENone) | p :: _ => (rs, pend, EPdu p) end
  else
    match rs with
    | Done sdu => (rs, pend, ESdu sdu)
    | _ => spec_loop (mtu c) rs pend
    end.

(* ------------------------------------------------------------------ monitor *)
Record mon := mkm {
  m_pend : list pdu;                  (* accepted by the radio, not yet consumed *)
  m_rs : rstate;
  m_handed : bool;
  m_maxrx : N; m_maxtx : N;
  m_sdu : option (list N * bool);     (* outgoing SDU: bytes not yet committed, start fragment committed? *)
  m_air : list pdu }.                 (* committed to the radio, not yet sent *)

Definition minit : mon := mkm [] Idle false min_buffer_size min_buffer_size None [].

Inductive verdict := Ok | Bad (tag : nat).
Definition t_oob_write := 1%nat.
Definition t_delivered_exact := 2%nat.
Definition t_delivered_len := 3%nat.
Definition t_order := 4%nat.
Definition t_frag_shape := 5%nat.
Definition t_frag_concat := 6%nat.
Definition t_frag_size := 7%nat.
Definition t_shape := 8%nat.

Fixpoint bytes_eqb (a b : list N) : bool :=
  match a, b with
  | [], [] => true
  | x :: a', y :: b' => (x =? y) && bytes_eqb a' b'
  | _, _ => false
  end.
Definition pdu_eqb (p q : pdu) : bool := (fst p =? fst q) && bytes_eqb (snd p) (snd q).
Fixpoint prefixb (a b : list N) : bool :=      (* a is a prefix of b *)
  match a, b with
  | [], _ => true
  | x :: a', y :: b' => (x =? y) && prefixb a' b'
  | _, _ => false
  end.

(* the data PDUs committed during one operation against the outgoing SDU *)
Fixpoint judge_tx (maxtx : N) (cur : option (list N * bool)) (txs : list pdu) : verdict * option (list N * bool) :=
  match txs with
  | [] => (Ok, cur)
  | p :: t =>
      match cur with
      | None => (Bad t_frag_shape, cur)
      | Some (rem, started) =>
          if negb (fst p =? (if started then 1 else 2)) || (lenN (snd p) =? 0) then (Bad t_frag_shape, cur)
          else if negb (prefixb (snd p) rem) then (Bad t_frag_concat, cur)
          else if maxtx <? lenN (snd p) + 2 then (Bad t_frag_size, cur)
          else
            let rem' := skipn (length (snd p)) rem in
            judge_tx maxtx (match rem' with [] => None | _ => Some (rem', true) end) t
      end
  end.

Definition set_tx_m (m : mon) (cur : option (list N * bool)) (txs : list pdu) : mon :=
  mkm (m_pend m) (m_rs m) (m_handed m) (m_maxrx m) (m_maxtx m) cur (m_air m ++ txs).
Definition set_rx_m (m : mon) (pend : list pdu) (rs : rstate) (h : bool) : mon :=
  mkm pend rs h (m_maxrx m) (m_maxtx m) (m_sdu m) (m_air m).

(* the receive part of next_ll_l2cap_received against the specification *)
Definition judge_next (c : cfg) (m : mon) (r : res) : verdict * mon :=
  let '(rs', pend', e) := spec_next c (m_rs m) (m_pend m) in
  let m' := set_rx_m m pend' rs' (match e with ENone => false | _ => true end) in
  match e, r with
  | _, RFault => (Bad t_oob_write, m)
  | ENone, RNone => (Ok, m')
  | EPdu p, RPdu q => (if pdu_eqb p q then Ok else Bad t_order, m')
  | ESdu x, RSdu y =>
      (if bytes_eqb x y then Ok
       else if lenN x =? lenN y then Bad t_delivered_exact else Bad t_delivered_len, m')
  | _, RSdu y => (if read16 y + 4 =? lenN y then Bad t_delivered_exact else Bad t_delivered_len, m)
  | _, RNone => (Bad t_order, m)
  | _, RPdu _ => (Bad t_order, m)
  | _, _ => (Bad t_shape, m)
  end.

Definition lastp (l : list pdu) : option pdu := match rev l with [] => None | p :: _ => Some p end.

Definition mstep (c : cfg) (m : mon) (o : op) (ro : out) : verdict * mon :=
  let '(r, txs) := ro in
  match r with
  | RFault => (Bad t_oob_write, m)
  | _ =>
  match o with
  | Rx llid b =>
      let expected :=
        if m_maxrx m <? lenN b + 2 then RTooLong
        else if (N.land llid 3 =? 0) || (lenN b =? 0) then RDrop else ROk in
      match txs, expected, r with
      | [], RTooLong, RTooLong => (Ok, m)
      | [], RDrop, RDrop => (Ok, m)
      | [], ROk, ROk => (Ok, set_rx_m m (m_pend m ++ [(N.land llid 3, b)]) (m_rs m) (m_handed m))
      | _, _, _ => (Bad t_shape, m)
      end
  | Next g =>
      match judge_tx (m_maxtx m) (m_sdu m) txs with
      | (Bad t, _) => (Bad t, m)
      | (Ok, cur) => judge_next c (set_tx_m m cur txs) r
      end
  | Free =>
      match txs, r with
      | [], RNop => (if m_handed m then Bad t_shape else Ok, m)
      | [], ROk =>
          if negb (m_handed m) then (Bad t_shape, m)
          else
            match m_rs m with
            | Done _ => (Ok, set_rx_m m (m_pend m) Idle false)
            | _ => (Ok, set_rx_m m (tl (m_pend m)) (m_rs m) false)
            end
      | _, _ => (Bad t_shape, m)
      end
  | L2Tx g b =>
      if l2tx_pre c b then
        match txs, r with [], RPre => (Ok, m) | _, _ => (Bad t_shape, m) end
      else
        (* the pass-through specialisation hands the SDU to the radio at once, or refuses it *)
        let busy := match m_sdu m with
                    | Some _ => true
                    | None => passthrough c && match g with O => true | _ => false end
                    end in
        match r with
        | RBusy => match txs with [] => (if busy then Ok else Bad t_order, m) | _ => (Bad t_shape, m) end
        | ROk =>
            if busy then (Bad t_order, m)
            else
              match judge_tx (m_maxtx m) (Some (b, false)) txs with
              | (Bad t, _) => (Bad t, m)
              | (Ok, cur) =>
                  (if passthrough c && match cur with None => false | Some _ => true end
                   then Bad t_frag_shape else Ok, set_tx_m m cur txs)
              end
        | _ => (Bad t_shape, m)
        end
  | LlTx g a b =>
      if (lenN b =? 0) || (27 <? lenN b) then
        match txs, r with [], RPre => (Ok, m) | _, _ => (Bad t_shape, m) end
      else
        match r with
        | RFull =>
            match judge_tx (m_maxtx m) (m_sdu m) txs with
            | (Bad t, _) => (Bad t, m)
            | (Ok, cur) => (if a then Bad t_shape else Ok, set_tx_m m cur txs)
            end
        | ROk =>
            match lastp txs with
            | Some p =>
                if negb (pdu_eqb p (3, b)) then (Bad t_order, m)
                else
                  match judge_tx (m_maxtx m) (m_sdu m) (removelast txs) with
                  | (Bad t, _) => (Bad t, m)
                  | (Ok, cur) => (if a then Ok else Bad t_shape, set_tx_m m cur txs)
                  end
            | None => (Bad t_order, m)
            end
        | _ => (Bad t_shape, m)
        end
  | Radio =>
      match txs, r, m_air m with
      | [], RNone, [] => (Ok, m)
      | [], RPdu p, q :: t =>
          (if pdu_eqb p q then Ok else Bad t_order,
           mkm (m_pend m) (m_rs m) (m_handed m) (m_maxrx m) (m_maxtx m) (m_sdu m) t)
      | [], RNone, _ :: _ => (Bad t_order, m)
      | [], RPdu _, [] => (Bad t_order, m)
      | _, _, _ => (Bad t_shape, m)
      end
  | MaxTx n =>
      match txs, r with
      | [], ROk => (if in_size_range n then Ok else Bad t_shape,
                    mkm (m_pend m) (m_rs m) (m_handed m) (m_maxrx m) n (m_sdu m) (m_air m))
      | [], RPre => (if in_size_range n then Bad t_shape else Ok, m)
      | _, _ => (Bad t_shape, m)
      end
  | MaxRx n =>
      match txs, r with
      | [], ROk => (if in_size_range n then Ok else Bad t_shape,
                    mkm (m_pend m) (m_rs m) (m_handed m) n (m_maxtx m) (m_sdu m) (m_air m))
      | [], RPre => (if in_size_range n then Bad t_shape else Ok, m)
      | _, _ => (Bad t_shape, m)
      end
  end
  end.

(* first violation of a trace: Some (position, tag); None = the property holds on the trace *)
Fixpoint monitor_from (c : cfg) (m : mon) (pos : nat) (tr : list (op * out)) : option (nat * nat) :=
  match tr with
  | [] => None
  | (o, r) :: t =>
      match mstep c m o r with
      | (Ok, m') => monitor_from c m' (S pos) t
      | (Bad tag, _) => Some (pos, tag)
      end
  end.

Definition monitor (c : cfg) (tr : list (op * out)) : option (nat * nat) := monitor_from c minit O tr.

(* configurations: the primary template is used for MTUSize > 23 (23 is the specialisation); sizes fit
   the 16 bit members receive_size_ / transmit_size_; the layout gap leaves room for a body in the
   smallest PDU buffer *)
Definition wf_cfg (c : cfg) : Prop := 23 <= mtu c /\ mtu c + overall_overhead c < 65536 /\ oh c <= 16.

(* ------------------------------------------------------------------ the property in words of lists *)
(* PDUs accepted by the radio in a trace *)
Fixpoint injected (tr : list (op * out)) : list pdu :=
  match tr with
  | [] => []
  | (Rx llid b, (ROk, _)) :: t => (N.land llid 3, b) :: injected t
  | _ :: t => injected t
  end.

Definition bodies_of (llid : N) (l : list pdu) : list N :=
  concat (map snd (filter (fun p => fst p =? llid) l)).
Definition no_start (l : list pdu) : Prop := Forall (fun p => fst p <> 2) l.

(* sdu is exactly one start fragment followed by its continuation fragments (the continuation fragments
   received after it, before any other start fragment) and has the announced length *)
Definition reassembled_from (m : N) (stream : list pdu) (sdu : list N) : Prop :=
  exists pre b0 mid rest,
    stream = pre ++ (2, b0) :: mid ++ rest /\ no_start mid /\
    sdu = b0 ++ bodies_of 1 mid /\
    4 <= lenN b0 /\ read16 sdu = read16 b0 /\ lenN sdu = read16 b0 + 4 /\ read16 b0 <= m.

(* outgoing: the SDUs accepted and the PDUs committed in a trace *)
Fixpoint accepted_sdus (tr : list (op * out)) : list (list N) :=
  match tr with
  | [] => []
  | (L2Tx _ b, (ROk, _)) :: t => b :: accepted_sdus t
  | _ :: t => accepted_sdus t
  end.
Definition committed (tr : list (op * out)) : list pdu := concat (map (fun x => snd (snd x)) tr).
Definition data_pdus (l : list pdu) : list pdu := filter (fun p => negb (fst p =? 3)) l.

(* fs is a fragmentation of sdu: one start fragment, then continuation fragments, payloads concatenate
   to the SDU *)
Definition fragmentation (sdu : list N) (fs : list pdu) : Prop :=
  exists s cs, fs = (2, s) :: map (fun x => (1, x)) cs /\ s ++ concat cs = sdu.
(* fs is the beginning of a fragmentation of sdu, rem are the bytes that are still missing *)
Definition partial_fragmentation (sdu : list N) (fs : list pdu) (rem : list N) : Prop :=
  (fs = [] /\ rem = sdu) \/
  (exists s cs, fs = (2, s) :: map (fun x => (1, x)) cs /\ s ++ concat cs ++ rem = sdu).

(* the data PDUs committed so far are the fragmentations of the accepted SDUs, in order; the last SDU
   may be committed only in part (rem = its bytes that are still waiting) *)
Definition sent_as (sdus : list (list N)) (pdus : list pdu) : Prop :=
  exists fss, pdus = concat fss /\ Forall2 fragmentation sdus fss.
Definition sending_as (sdus : list (list N)) (pdus : list pdu) : Prop :=
  sent_as sdus pdus \/
  exists sdus0 sdu fss fs rem,
    sdus = sdus0 ++ [sdu] /\ pdus = concat fss ++ fs /\ Forall2 fragmentation sdus0 fss /\
    rem <> [] /\ partial_fragmentation sdu fs rem.

(* max_tx_size() in effect after a trace *)
Fixpoint maxtx_from (cur : N) (tr : list (op * out)) : N :=
  match tr with
  | [] => cur
  | (MaxTx n, (ROk, _)) :: t => maxtx_from n t
  | _ :: t => maxtx_from cur t
  end.
Definition maxtx_after (tr : list (op * out)) : N := maxtx_from min_buffer_size tr.

(* PDUs the radio has sent *)
Fixpoint radioed (tr : list (op * out)) : list pdu :=
  match tr with
  | [] => []
  | (Radio, (RPdu p, _)) :: t => p :: radioed t
  | _ :: t => radioed t
  end.
