(* What a trace accepted by the monitor means, in words of lists (C19, part 5 of the proofs).
   All statements are about arbitrary traces (operations with observed outputs) that the monitor of
   SduBufSpec.v accepts - the traces of the model are such traces (SduBufProofs.monitor_accepts_model),
   and so is every implementation trace that passes the check.
     accepted_sdu_is_reassembled   a delivered SDU is one start fragment followed by its continuations
     accepted_trace_fragments      outgoing SDUs are committed as start :: continuations, payloads
                                   concatenate to the SDU, in the order of the SDUs
     accepted_trace_sizes          every fragment fits max_tx_size() at the time it was committed
     accepted_trace_order          the radio sends PDUs in the order of their commitment
     spec_delivers_wellformed      the recombination automaton does deliver well formed trains
     model_delivers_wellformed     ... and so does the model, from every reachable state *)
From BT Require Import Base.ListX SduBuf.SduBufModel SduBuf.SduBufSpec SduBuf.SduBufProofs.
From Coq Require Import Lia ZifyBool.
Local Open Scope N_scope.

(* ------------------------------------------------------------------ receive *)
Definition llid_ok (p : pdu) : Prop := fst p = 1 \/ fst p = 2 \/ fst p = 3.

Definition justified (m : N) (consumed : list pdu) (rs : rstate) : Prop :=
  match rs with
  | Idle => True
  | Coll L acc =>
      exists pre b0 mid, consumed = pre ++ (2, b0) :: mid /\ no_start mid /\ acc = b0 ++ bodies_of 1 mid /\
                         4 <= lenN b0 /\ read16 b0 = L /\ L <= m
  | Done sdu =>
      exists pre b0 mid, consumed = pre ++ (2, b0) :: mid /\ no_start mid /\ sdu = b0 ++ bodies_of 1 mid /\
                         4 <= lenN b0 /\ lenN sdu = read16 b0 + 4 /\ read16 b0 <= m
  end.

Lemma bodies_of_app llid a b : bodies_of llid (a ++ b) = bodies_of llid a ++ bodies_of llid b.
Proof. unfold bodies_of. now rewrite filter_app, map_app, concat_app. Qed.

Lemma no_start_app a b : no_start a -> no_start b -> no_start (a ++ b).
Proof. unfold no_start. intros. apply Forall_app. auto. Qed.

Lemma justified_ctrl m consumed rs p :
  fst p = 3 -> justified m consumed rs -> justified m (consumed ++ [p]) rs.
Proof.
  intros E. destruct rs as [|L acc|x]; simpl; auto.
  - intros (pre & b0 & mid & H1 & H2 & H3 & H4).
    exists pre, b0, (mid ++ [p]). split; [|split; [|split]]; auto.
    + rewrite H1, <- app_assoc. reflexivity.
    + apply no_start_app; auto. constructor; auto. rewrite E. discriminate.
    + rewrite bodies_of_app. unfold bodies_of at 2. simpl. rewrite E. simpl. now rewrite app_nil_r.
  - intros (pre & b0 & mid & H1 & H2 & H3 & H4).
    exists pre, b0, (mid ++ [p]). split; [|split; [|split]]; auto.
    + rewrite H1, <- app_assoc. reflexivity.
    + apply no_start_app; auto. constructor; auto. rewrite E. discriminate.
    + rewrite bodies_of_app. unfold bodies_of at 2. simpl. rewrite E. simpl. now rewrite app_nil_r.
Qed.

Definition head_is (e : expect) (rs' : rstate) (pend' : list pdu) : Prop :=
  match e with
  | ESdu x => rs' = Done x
  | EPdu p => exists t, pend' = p :: t /\ (fst p = 3 \/ rs' = Idle)
  | ENone => pend' = []
  end.

Lemma spec_loop_justified m : forall pend consumed rs rs' pend' e,
  Forall llid_ok pend -> justified m consumed rs -> (forall x, rs <> Done x) ->
  spec_loop m rs pend = (rs', pend', e) ->
  exists consumed', consumed ++ pend = consumed' ++ pend' /\ justified m consumed' rs' /\ head_is e rs' pend' /\
                    (forall x, rs' = Done x -> e = ESdu x).
Proof.
  induction pend as [|p pend IH]; intros consumed rs rs' pend' e OK HJ ND E.
  - simpl in E. inversion E; subst. exists consumed. repeat split; auto. intros x ->. destruct (ND x eq_refl).
  - inversion OK as [|? ? OKp OKt]; subst. cbn [spec_loop] in E.
    assert (AppE : forall l, (consumed ++ [p]) ++ l = consumed ++ p :: l) by (intros; now rewrite <- app_assoc).
    destruct (N.eqb_spec (fst p) 3) as [E3|N3].
    + inversion E; subst. exists consumed. repeat split; auto.
      * simpl. eauto.
      * intros x ->. destruct (ND x eq_refl).
    + destruct (N.eqb_spec (fst p) 2) as [E2|N2].
      * assert (Ep : p = (2, snd p)) by (destruct p; simpl in *; congruence).
        destruct (classify_start m (snd p)) eqn:CL.
        -- inversion E; subst. exists consumed. repeat split; auto.
           ++ simpl. eauto.
           ++ intros ? ?; discriminate.
        -- unfold classify_start in CL.
           destruct (N.leb_spec 4 (lenN (snd p))); [|discriminate].
           destruct (N.eqb_spec (read16 (snd p) + 4) (lenN (snd p))); [discriminate|].
           destruct ((read16 (snd p) <=? m) && (lenN (snd p) <? read16 (snd p) + 4))%bool eqn:C; [|discriminate].
           inversion CL; subst L.
           destruct (IH (consumed ++ [p]) (Coll (read16 (snd p)) (snd p)) rs' pend' e) as (c' & A1 & A2 & A3 & A4);
             [exact OKt | | intros ? ?; discriminate | exact E |].
           { simpl. exists consumed, (snd p), []. rewrite <- Ep.
             repeat split; auto; try lia. constructor. unfold bodies_of; simpl. now rewrite app_nil_r. }
           exists c'. rewrite <- A1, AppE. auto.
        -- destruct (IH (consumed ++ [p]) Idle rs' pend' e) as (c' & A1 & A2 & A3 & A4);
             [exact OKt | exact I | intros ? ?; discriminate | exact E |].
           exists c'. rewrite <- A1, AppE. auto.
      * assert (E1 : fst p = 1) by (destruct OKp as [?|[?|?]]; congruence).
        destruct rs as [|L acc|x]; [| |destruct (ND x eq_refl)].
        -- destruct (IH (consumed ++ [p]) Idle rs' pend' e) as (c' & A1 & A2 & A3 & A4);
             [exact OKt | exact I | intros ? ?; discriminate | exact E |].
           exists c'. rewrite <- A1, AppE. auto.
        -- simpl in HJ. destruct HJ as (pre & b0 & mid & H1 & H2 & H3 & H4 & H5 & H6).
           assert (HJ' : forall P : Prop, P ->
                     exists pre' b0' mid', consumed ++ [p] = pre' ++ (2, b0') :: mid' /\ no_start mid' /\
                       acc ++ snd p = b0' ++ bodies_of 1 mid' /\ 4 <= lenN b0' /\ read16 b0' = L /\ L <= m).
           { intros _ _. exists pre, b0, (mid ++ [p]). repeat split; auto.
             - rewrite H1, <- app_assoc. reflexivity.
             - apply no_start_app; auto. constructor; auto; rewrite E1; discriminate.
             - rewrite bodies_of_app, H3, <- app_assoc. f_equal. f_equal.
               unfold bodies_of. simpl. rewrite E1. simpl. now rewrite app_nil_r. }
           destruct (N.ltb_spec (lenN (acc ++ snd p)) (L + 4)).
           ++ destruct (IH (consumed ++ [p]) (Coll L (acc ++ snd p)) rs' pend' e) as (c' & A1 & A2 & A3 & A4);
                [exact OKt | simpl; apply (HJ' True I) | intros ? ?; discriminate | exact E |].
              exists c'. rewrite <- A1, AppE. auto.
           ++ destruct (N.eqb_spec (lenN (acc ++ snd p)) (L + 4)).
              ** inversion E as [[Hr Hp He]]. subst rs' pend' e. exists (consumed ++ [p]). rewrite AppE. repeat split; auto.
                 --- simpl. destruct (HJ' True I) as (pre' & b0' & mid' & G1 & G2 & G3 & G4 & G5 & G6).
                     exists pre', b0', mid'. repeat split; auto; try lia.
                 --- intros x Hx. inversion Hx; auto.
              ** destruct (IH (consumed ++ [p]) Idle rs' pend' e) as (c' & A1 & A2 & A3 & A4);
                   [exact OKt | exact I | intros ? ?; discriminate | exact E |].
                 exists c'. rewrite <- A1, AppE. auto.
Qed.

(* invariant of the monitor's receive side; inj = the PDUs accepted by the radio so far *)
Definition J (c : cfg) (inj : list pdu) (mo : mon) : Prop :=
  Forall llid_ok inj /\
  (passthrough c = true -> m_rs mo = Idle) /\
  exists consumed,
    inj = consumed ++ m_pend mo /\ justified (mtu c) consumed (m_rs mo) /\
    (forall L acc, m_rs mo = Coll L acc -> m_handed mo = true -> exists p t, m_pend mo = p :: t /\ fst p = 3).

Lemma injected_app a b : injected (a ++ b) = injected a ++ injected b.
Proof.
  induction a as [|[o [r txs]] a IH]; simpl; auto.
  destruct o; auto. destruct r; auto. simpl. now rewrite IH.
Qed.

Lemma land3_ok llid : N.land llid 3 <> 0 -> llid_ok (N.land llid 3, @nil N) .
Proof.
  intros H. unfold llid_ok. simpl.
  assert (B : N.land llid 3 < 4).
  { change 3 with (N.ones 2). rewrite N.land_ones. apply N.mod_lt. discriminate. }
  lia.
Qed.

Lemma judge_tx_bad_or_ok maxtx cur txs : exists v cur', judge_tx maxtx cur txs = (v, cur').
Proof. destruct (judge_tx maxtx cur txs); eauto. Qed.

Ltac break M :=
  repeat match type of M with
         | context [match ?x with _ => _ end] => destruct x eqn:?; try discriminate M
         | context [if ?b then _ else _] => destruct b eqn:?; try discriminate M
         end.

(* operations that do not touch the receive side of the monitor *)
Lemma mstep_rx_frame c mo o ro mo' :
  mstep c mo o ro = (Ok, mo') ->
  match o with Rx _ _ | Next _ | Free => True
  | _ => m_pend mo' = m_pend mo /\ m_rs mo' = m_rs mo /\ m_handed mo' = m_handed mo end.
Proof.
  intros M. destruct ro as [r txs]. destruct o; auto; unfold mstep in M; break M; inversion M; subst; simpl; auto.
Qed.

Lemma land3_lt llid : N.land llid 3 < 4.
Proof. change 3 with (N.ones 2). rewrite N.land_ones. apply N.mod_lt. discriminate. Qed.

(* one accepted step keeps J; a delivered SDU is the monitor's Done SDU *)
Lemma mstep_J c mo o ro mo' inj :
  J c inj mo -> mstep c mo o ro = (Ok, mo') ->
  J c (inj ++ injected [(o, ro)]) mo'.
Proof.
  intros (OK & PTI & consumed & EI & JU & HD) M.
  pose proof (mstep_rx_frame _ _ _ _ _ M) as FR.
  assert (Other : (match o with Rx _ _ | Next _ | Free => False | _ => True end) ->
                  m_pend mo' = m_pend mo /\ m_rs mo' = m_rs mo /\ m_handed mo' = m_handed mo ->
                  J c (inj ++ injected [(o, ro)]) mo').
  { intros NO (F1 & F2 & F3).
    assert (E0 : injected [(o, ro)] = []) by (destruct o, ro as [[] ?]; try reflexivity; contradiction).
    rewrite E0, app_nil_r. split; [|split]; auto; [intros PT; rewrite F2; auto|].
    exists consumed. rewrite F1, F2, F3. auto. }
  destruct o as [llid b|g| |g b|g a b| |n|n]; try (apply Other; [exact I|exact FR]); clear Other.
  - (* Rx *)
    destruct ro as [r txs]. unfold mstep in M.
    destruct r; try discriminate M; try (break M; discriminate M).
    + (* ROk *)
      break M. inversion M; subst; clear M. simpl injected.
      assert (NZ : N.land llid 3 <> 0).
      { destruct (m_maxrx mo <? lenN b + 2); [discriminate|].
        destruct (N.eqb_spec (N.land llid 3) 0); [simpl in *; discriminate|auto]. }
      pose proof (land3_lt llid).
      split; [|split]; simpl; auto.
      * apply Forall_app. split; auto. constructor; auto. unfold llid_ok; simpl. lia.
      * exists consumed. rewrite <- app_assoc. repeat split; auto.
        intros L acc HC HH. destruct (HD L acc HC HH) as (p & t & P1 & P2). rewrite P1. simpl. eauto.
    + break M. inversion M; subst. simpl injected. rewrite app_nil_r. split; [|split]; auto. exists consumed; auto.
    + break M. inversion M; subst. simpl injected. rewrite app_nil_r. split; [|split]; auto. exists consumed; auto.
  - (* Next *)
    destruct ro as [r txs]. simpl injected. rewrite app_nil_r.
    assert (exists m1, m_pend m1 = m_pend mo /\ m_rs m1 = m_rs mo /\ judge_next c m1 r = (Ok, mo')) as (m1 & P1 & P2 & JN).
    { unfold mstep in M. destruct r; try discriminate M;
        destruct (judge_tx (m_maxtx mo) (m_sdu mo) txs) as [[|t] cur]; try discriminate M;
        eexists; (split; [|split; [|exact M]]); reflexivity. }
    clear M. unfold judge_next in JN. rewrite P1, P2 in JN.
    destruct (spec_next c (m_rs mo) (m_pend mo)) as [[rs' pend'] e] eqn:SN.
    assert (OKp : Forall llid_ok (m_pend mo)).
    { rewrite EI in OK. apply Forall_app in OK. tauto. }
    assert (G : m_pend mo' = pend' /\ m_rs mo' = rs' /\ m_handed mo' = match e with ENone => false | _ => true end).
    { destruct e, r; try discriminate JN; break JN; inversion JN; subst; simpl; auto. }
    destruct G as (G1 & G2 & G3).
    unfold spec_next in SN. destruct (passthrough c) eqn:PT.
    + assert (rs' = m_rs mo /\ pend' = m_pend mo) as (-> & ->) by (destruct (m_pend mo); inversion SN; auto).
      split; [|split]; auto.
      * intros _. rewrite G2. auto.
      * exists consumed. rewrite G1, G2. repeat split; auto. intros L acc HC. rewrite PTI in HC; auto. discriminate.
    + destruct (m_rs mo) as [|L acc|x] eqn:RS.
      * destruct (spec_loop_justified (mtu c) (m_pend mo) consumed Idle rs' pend' e) as (c' & A1 & A2 & A3 & A4); auto.
        { intros ? ?; discriminate. }
        split; [|split]; auto. { intros; congruence. }
        exists c'. rewrite G1, G2, G3. repeat split; auto; try congruence.
        intros L0 acc0 HC HH. destruct e; simpl in A3.
        -- discriminate HH.
        -- destruct A3 as (t & T1 & [T2|T2]); eauto. congruence.
        -- congruence.
      * destruct (spec_loop_justified (mtu c) (m_pend mo) consumed (Coll L acc) rs' pend' e) as (c' & A1 & A2 & A3 & A4); auto.
        { intros ? ?; discriminate. }
        split; [|split]; auto. { intros; congruence. }
        exists c'. rewrite G1, G2, G3. repeat split; auto; try congruence.
        intros L0 acc0 HC HH. destruct e; simpl in A3.
        -- discriminate HH.
        -- destruct A3 as (t & T1 & [T2|T2]); eauto. congruence.
        -- congruence.
      * inversion SN; subst. split; [|split]; auto. { intros; congruence. }
        exists consumed. rewrite <- H0, <- H1. repeat split; auto. intros; discriminate.
  - (* Free *)
    destruct ro as [r txs]. simpl injected. rewrite app_nil_r. unfold mstep in M.
    destruct txs; [|destruct r; discriminate M]. destruct r; try discriminate M.
    + (* ROk *)
      destruct (m_handed mo) eqn:HH; [|discriminate M]. cbn [negb] in M.
      destruct (m_rs mo) as [|L acc|x] eqn:RS; inversion M; subst; clear M.
      * split; [|split]; auto. destruct (m_pend mo) as [|p t] eqn:PE.
        -- exists consumed. simpl. repeat split; auto. intros; discriminate.
        -- exists (consumed ++ [p]). simpl. rewrite <- app_assoc. repeat split; auto. intros; discriminate.
      * split; [|split]; auto.
        destruct (HD L acc eq_refl eq_refl) as (p & t & P1 & P2).
        exists (consumed ++ [p]). rewrite P1. simpl. rewrite <- app_assoc. repeat split; auto.
        -- apply (justified_ctrl (mtu c) consumed (Coll L acc) p P2 JU).
        -- intros; discriminate.
      * split; [|split]; auto. exists consumed. simpl. repeat split; auto. intros; discriminate.
    + (* RNop *)
      destruct (m_handed mo) eqn:HH; [discriminate M|]. inversion M; subst.
      split; [|split]; auto. exists consumed. repeat split; auto.
      intros ? ? ? HT. rewrite HH in HT. discriminate.
Qed.

Lemma spec_loop_sdu m : forall pend rs rs' pend' x,
  spec_loop m rs pend = (rs', pend', ESdu x) -> rs' = Done x.
Proof.
  induction pend as [|p t IH]; intros rs rs' pend' x E; simpl in E; [inversion E|].
  repeat match type of E with
         | context [match ?z with _ => _ end] => destruct z eqn:?; try discriminate E
         | context [if ?b then _ else _] => destruct b eqn:?; try discriminate E
         end; try (inversion E; subst; reflexivity); eauto.
Qed.

Lemma mstep_delivers c mo g y txs mo' :
  mstep c mo (Next g) (RSdu y, txs) = (Ok, mo') -> m_rs mo' = Done y.
Proof.
  intros M. unfold mstep in M.
  destruct (judge_tx (m_maxtx mo) (m_sdu mo) txs) as [[|t] cur]; try discriminate M.
  unfold judge_next in M. cbn [set_tx_m m_rs m_pend] in M.
  destruct (spec_next c (m_rs mo) (m_pend mo)) as [[rs' pend'] e] eqn:SN.
  destruct e as [|p|x]; try (break M; discriminate M).
  destruct (bytes_eqb x y) eqn:EQ; [|destruct (lenN x =? lenN y); discriminate M].
  apply bytes_eqb_eq in EQ. subst y. inversion M; subst; clear M. simpl.
  unfold spec_next in SN. destruct (passthrough c).
  - destruct (m_pend mo); inversion SN.
  - destruct (m_rs mo) eqn:RS.
    + eapply spec_loop_sdu; eauto.
    + eapply spec_loop_sdu; eauto.
    + inversion SN; subst; auto.
Qed.

Lemma injected_cons x t : injected (x :: t) = injected [x] ++ injected t.
Proof. change (x :: t) with ([x] ++ t). apply injected_app. Qed.

Lemma accepted_delivery c : forall tr mo pos inj,
  J c inj mo -> monitor_from c mo pos tr = None ->
  forall i g y txs, nth_error tr i = Some (Next g, (RSdu y, txs)) ->
    reassembled_from (mtu c) (inj ++ injected (firstn (S i) tr)) y.
Proof.
  induction tr as [|[o ro] tr IH]; intros mo pos inj HJ MF i g y txs NE.
  - destruct i; discriminate.
  - simpl in MF. destruct (mstep c mo o ro) as [[|t] mo'] eqn:M; [|discriminate].
    pose proof (mstep_J _ _ _ _ _ _ HJ M) as HJ'.
    destruct i as [|i].
    + simpl in NE. inversion NE; subst. apply mstep_delivers in M.
      destruct HJ' as (_ & _ & consumed & EI & JU & _). rewrite M in JU. simpl in JU.
      destruct JU as (pre & b0 & mid & H1 & H2 & H3 & H4 & H5 & H6).
      simpl firstn. exists pre, b0, mid, (m_pend mo').
      rewrite EI, H1, <- app_assoc. simpl. repeat split; auto; try lia.
      rewrite H3. apply read16_app. lia.
    + simpl in NE. change (firstn (S (S i)) ((o, ro) :: tr)) with ((o, ro) :: firstn (S i) tr).
      rewrite injected_cons, app_assoc. eapply IH; eauto.
Qed.

Lemma J_init c : J c [] minit.
Proof.
  split; [constructor|]. split; [reflexivity|]. exists []. simpl. repeat split; auto. intros; discriminate.
Qed.

(* every SDU the monitor lets pass is one start fragment followed by its continuation fragments *)
Theorem accepted_sdu_is_reassembled c tr :
  monitor c tr = None ->
  forall i g y txs, nth_error tr i = Some (Next g, (RSdu y, txs)) ->
    reassembled_from (mtu c) (injected (firstn (S i) tr)) y.
Proof.
  intros MF i g y txs NE.
  exact (accepted_delivery c tr minit O [] (J_init c) MF i g y txs NE).
Qed.

(* ------------------------------------------------------------------ transmit *)
(* state of the outgoing side: accepted SDUs, committed data PDUs, the monitor's SDU in flight *)
Definition K (sdus : list (list N)) (pds : list pdu) (cur : option (list N * bool)) : Prop :=
  match cur with
  | None => sent_as sdus pds
  | Some (rem, st) =>
      rem <> [] /\
      exists sdus0 sdu fss fs,
        sdus = sdus0 ++ [sdu] /\ pds = concat fss ++ fs /\ Forall2 fragmentation sdus0 fss /\
        partial_fragmentation sdu fs rem /\ (st = false <-> fs = [])
  end.

Lemma K_sending sdus pds cur : K sdus pds cur -> sending_as sdus pds.
Proof.
  destruct cur as [[rem st]|]; simpl.
  - intros (NE & sdus0 & sdu & fss & fs & H1 & H2 & H3 & H4 & _). right. exists sdus0, sdu, fss, fs, rem. auto.
  - left; auto.
Qed.

Lemma Forall2_snoc (A B : Type) (P : A -> B -> Prop) l1 l2 a b :
  Forall2 P l1 l2 -> P a b -> Forall2 P (l1 ++ [a]) (l2 ++ [b]).
Proof. intros H1 H2. apply Forall2_app; auto. Qed.

Lemma concat_snoc (A : Type) (l : list (list A)) x : concat (l ++ [x]) = concat l ++ x.
Proof. rewrite concat_app. simpl. now rewrite app_nil_r. Qed.

Lemma judge_tx_K maxtx : forall txs cur cur' sdus pds,
  judge_tx maxtx cur txs = (Ok, cur') -> K sdus pds cur ->
  K sdus (pds ++ txs) cur' /\ Forall (fun p => fst p <> 3 /\ lenN (snd p) + 2 <= maxtx) txs.
Proof.
  induction txs as [|p t IH]; intros cur cur' sdus pds E HK.
  - simpl in E. inversion E; subst. rewrite app_nil_r. auto.
  - simpl in E. destruct cur as [[rem st]|]; [|discriminate].
    destruct (negb (fst p =? (if st then 1 else 2)) || (lenN (snd p) =? 0))%bool eqn:C1; [discriminate|].
    destruct (prefixb (snd p) rem) eqn:C2; [|discriminate]. cbn [negb] in E.
    destruct (N.ltb_spec maxtx (lenN (snd p) + 2)); [discriminate|].
    apply prefixb_split in C2.
    set (rem' := skipn (length (snd p)) rem) in *.
    assert (Fp : fst p = (if st then 1 else 2)) by lia.
    assert (Ep : p = (fst p, snd p)) by (destruct p; reflexivity).
    destruct HK as (NE & sdus0 & sdu & fss & fs & H1 & H2 & H3 & H4 & H5).
    (* the fragments of the SDU in flight, extended by p *)
    assert (PF : partial_fragmentation sdu (fs ++ [p]) rem').
    { right. destruct st.
      - destruct H4 as [(F0 & _)|(s & cs & F1 & F2)].
        + destruct H5 as (_ & H5). specialize (H5 F0). discriminate.
        + exists s, (cs ++ [snd p]). split.
          * rewrite F1, map_app. simpl. rewrite Ep at 1. rewrite Fp. reflexivity.
          * rewrite concat_snoc, <- F2, C2. now rewrite <- !app_assoc.
      - destruct H5 as (H5 & _). specialize (H5 eq_refl). subst fs.
        destruct H4 as [(_ & F0)|(s & cs & F1 & _)]; [|discriminate].
        exists (snd p), []. simpl. split.
        + rewrite Ep at 1. now rewrite Fp.
        + now rewrite <- F0, C2. }
    assert (HK1 : K sdus (pds ++ [p]) (match rem' with [] => None | _ => Some (rem', true) end)).
    { destruct rem' as [|x r'] eqn:ER.
      - simpl. exists (fss ++ [fs ++ [p]]). split.
        + rewrite concat_snoc, H2, app_assoc. reflexivity.
        + rewrite H1. apply Forall2_snoc; auto.
          destruct PF as [(F0 & _)|(s & cs & F1 & F2)]; [destruct fs; discriminate|].
          exists s, cs. rewrite app_nil_r in F2. auto.
      - simpl. split; [discriminate|]. exists sdus0, sdu, fss, (fs ++ [p]).
        rewrite H2, app_assoc. repeat split; auto; try discriminate.
        intros F0; destruct fs; discriminate. }
    destruct (IH _ _ _ _ E HK1) as (I1 & I2). rewrite <- app_assoc in I1. split; auto.
    constructor; auto. split; [|lia]. rewrite Fp. destruct st; discriminate.
Qed.

Lemma data_pdus_app a b : data_pdus (a ++ b) = data_pdus a ++ data_pdus b.
Proof. apply filter_app. Qed.

Lemma data_pdus_all txs maxtx :
  Forall (fun p => fst p <> 3 /\ lenN (snd p) + 2 <= maxtx) txs -> data_pdus txs = txs.
Proof.
  induction 1 as [|p t (H1 & _) _ IH]; simpl; auto.
  destruct (N.eqb_spec (fst p) 3); [contradiction|]. simpl. now rewrite IH.
Qed.

Lemma judge_next_tx c m r m' :
  judge_next c m r = (Ok, m') -> m_sdu m' = m_sdu m /\ m_maxtx m' = m_maxtx m /\ m_air m' = m_air m.
Proof.
  unfold judge_next. destruct (spec_next c (m_rs m) (m_pend m)) as [[rs' pend'] e].
  intros M. destruct e, r; try discriminate M; break M; inversion M; subst; simpl; auto.
Qed.

Definition KI (c : cfg) (sdus : list (list N)) (pds : list pdu) (mo : mon) : Prop :=
  K sdus pds (m_sdu mo) /\ (passthrough c = true -> m_sdu mo = None).

Definition size_ok (maxtx : N) (p : pdu) : Prop := fst p = 3 \/ lenN (snd p) + 2 <= maxtx.

Lemma Forall_size_ok maxtx txs :
  Forall (fun p => fst p <> 3 /\ lenN (snd p) + 2 <= maxtx) txs -> Forall (size_ok maxtx) txs.
Proof. apply Forall_impl. intros p (_ & H). right; auto. Qed.

Lemma judge_tx_none maxtx txs cur' : judge_tx maxtx None txs = (Ok, cur') -> txs = [] /\ cur' = None.
Proof. destruct txs; simpl; intros E; inversion E; auto. Qed.

Lemma lastp_split txs p : lastp txs = Some p -> txs = removelast txs ++ [p].
Proof.
  unfold lastp. intros H. destruct txs as [|x t] using rev_ind; [discriminate|].
  rewrite rev_app_distr in H. simpl in H. inversion H; subst. now rewrite removelast_last.
Qed.

Lemma mstep_K c mo o ro mo' sdus pds :
  KI c sdus pds mo -> mstep c mo o ro = (Ok, mo') ->
  KI c (sdus ++ accepted_sdus [(o, ro)]) (pds ++ data_pdus (snd ro)) mo' /\
  Forall (size_ok (m_maxtx mo)) (snd ro).
Proof.
  intros (HK & HP) M. destruct ro as [r txs]. cbn [snd].
  assert (Same : m_sdu mo' = m_sdu mo -> txs = [] -> accepted_sdus [(o, (r, txs))] = [] ->
                 KI c (sdus ++ accepted_sdus [(o, (r, txs))]) (pds ++ data_pdus txs) mo' /\ Forall (size_ok (m_maxtx mo)) txs).
  { intros E1 E2 E3. rewrite E3, E2. simpl. rewrite !app_nil_r. unfold KI. rewrite E1. auto. }
  destruct o as [llid b|g| |g b|g a b| |n|n].
  - (* Rx *) unfold mstep in M. apply Same; break M; inversion M; subst; simpl; auto.
  - (* Next *)
    cbn [accepted_sdus]. rewrite app_nil_r.
    assert (exists cur, judge_tx (m_maxtx mo) (m_sdu mo) txs = (Ok, cur) /\ judge_next c (set_tx_m mo cur txs) r = (Ok, mo'))
      as (cur & JT & JN).
    { unfold mstep in M. destruct r; try discriminate M;
        destruct (judge_tx (m_maxtx mo) (m_sdu mo) txs) as [[|t] cur]; try discriminate M; eauto. }
    destruct (judge_next_tx _ _ _ _ JN) as (S1 & _). simpl in S1.
    destruct (judge_tx_K _ _ _ _ sdus pds JT HK) as (K1 & F1).
    rewrite (data_pdus_all _ _ F1). split; [|apply Forall_size_ok; auto].
    split; rewrite S1; auto.
    intros PT. rewrite (HP PT) in JT. apply judge_tx_none in JT. tauto.
  - (* Free *) unfold mstep in M. apply Same; break M; inversion M; subst; simpl; auto.
  - (* L2Tx *)
    unfold mstep in M. destruct (l2tx_pre c b) eqn:PRE.
    + apply Same; break M; inversion M; subst; simpl; auto.
    + destruct r; try discriminate M.
      * (* ROk *)
        destruct (m_sdu mo) as [x|] eqn:SD; [discriminate M|].
        destruct (passthrough c && match g with O => true | S _ => false end)%bool eqn:BZ; [discriminate M|].
        destruct (judge_tx (m_maxtx mo) (Some (b, false)) txs) as [[|t] cur] eqn:JT; [|discriminate M].
        destruct (passthrough c && match cur with None => false | Some _ => true end)%bool eqn:PC; [discriminate M|].
        inversion M; subst; clear M.
        cbn [accepted_sdus].
        assert (K0 : K (sdus ++ [b]) pds (Some (b, false))).
        { simpl in HK. destruct HK as (fss & P1 & P2). simpl. split.
          - unfold l2tx_pre in PRE. destruct b; [simpl in PRE; discriminate|discriminate].
          - exists sdus, b, fss, []. rewrite app_nil_r. repeat split; auto. left; auto. }
        destruct (judge_tx_K _ _ _ _ _ _ JT K0) as (K1 & F1).
        rewrite (data_pdus_all _ _ F1). split; [|apply Forall_size_ok; auto].
        split; simpl; auto. intros PT. rewrite PT in PC. destruct cur; [discriminate|auto].
      * (* RBusy *)
        apply Same; break M; inversion M; subst; simpl; auto.
  - (* LlTx *)
    unfold mstep in M. destruct ((lenN b =? 0) || (27 <? lenN b))%bool eqn:PRE.
    + apply Same; auto; break M; inversion M; subst; simpl; auto.
    + cbn [accepted_sdus]. rewrite app_nil_r. destruct r; try discriminate M.
      * (* ROk *)
        destruct (lastp txs) as [p|] eqn:LP; [|discriminate M].
        destruct (pdu_eqb p (3, b)) eqn:PE; [|discriminate M]. cbn [negb] in M.
        apply pdu_eqb_eq in PE. subst p.
        destruct (judge_tx (m_maxtx mo) (m_sdu mo) (removelast txs)) as [[|t] cur] eqn:JT; [|discriminate M].
        destruct a; [|discriminate M]. inversion M; subst; clear M.
        destruct (judge_tx_K _ _ _ _ sdus pds JT HK) as (K1 & F1).
        rewrite (lastp_split _ _ LP) at 1 3. rewrite data_pdus_app, (data_pdus_all _ _ F1).
        simpl. rewrite app_nil_r. split.
        -- split; simpl; auto.
           intros PT. rewrite (HP PT) in JT. apply judge_tx_none in JT. tauto.
        -- apply Forall_app. split; [apply Forall_size_ok; auto|]. constructor; auto. left; reflexivity.
      * (* RFull *)
        destruct (judge_tx (m_maxtx mo) (m_sdu mo) txs) as [[|t] cur] eqn:JT; [|discriminate M].
        destruct a; [discriminate M|]. inversion M; subst; clear M.
        destruct (judge_tx_K _ _ _ _ sdus pds JT HK) as (K1 & F1).
        rewrite (data_pdus_all _ _ F1). split; [|apply Forall_size_ok; auto].
        split; simpl; auto.
        intros PT. rewrite (HP PT) in JT. apply judge_tx_none in JT. tauto.
  - (* Radio *) unfold mstep in M. apply Same; break M; inversion M; subst; simpl; auto.
  - (* MaxTx *) unfold mstep in M. apply Same; break M; inversion M; subst; simpl; auto.
  - (* MaxRx *) unfold mstep in M. apply Same; break M; inversion M; subst; simpl; auto.
Qed.

Lemma accepted_sdus_cons x t : accepted_sdus (x :: t) = accepted_sdus [x] ++ accepted_sdus t.
Proof. destruct x as [o [r txs]]. destruct o; auto. destruct r; auto. Qed.

Lemma committed_cons x t : committed (x :: t) = snd (snd x) ++ committed t.
Proof. reflexivity. Qed.

Lemma accepted_fragmentation c : forall tr mo pos sdus pds,
  KI c sdus pds mo -> monitor_from c mo pos tr = None ->
  sending_as (sdus ++ accepted_sdus tr) (pds ++ data_pdus (committed tr)).
Proof.
  induction tr as [|[o ro] tr IH]; intros mo pos sdus pds HK MF.
  - simpl. rewrite !app_nil_r. eapply K_sending. apply HK.
  - simpl in MF. destruct (mstep c mo o ro) as [[|t] mo'] eqn:M; [|discriminate].
    destruct (mstep_K _ _ _ _ _ _ _ HK M) as (HK' & _).
    rewrite accepted_sdus_cons, committed_cons, data_pdus_app, !app_assoc. cbn [snd].
    eapply IH; eauto.
Qed.

Lemma KI_init c : KI c [] [] minit.
Proof. split; simpl; auto. exists []. split; auto. Qed.

(* every outgoing SDU is committed as one start fragment followed by continuation fragments whose
   payloads concatenate to the SDU, SDU after SDU *)
Theorem accepted_trace_fragments c tr :
  monitor c tr = None -> sending_as (accepted_sdus tr) (data_pdus (committed tr)).
Proof. intros MF. exact (accepted_fragmentation c tr minit O [] [] (KI_init c) MF). Qed.

(* ... each within max_tx_size() *)
Lemma mstep_maxtx c mo o ro mo' :
  mstep c mo o ro = (Ok, mo') -> m_maxtx mo' = maxtx_from (m_maxtx mo) [(o, ro)].
Proof.
  intros M. destruct ro as [r txs]. destruct o; unfold mstep in M.
  - break M; inversion M; subst; simpl; auto.
  - assert (exists cur, judge_next c (set_tx_m mo cur txs) r = (Ok, mo')) as (cur & JN).
    { destruct r; try discriminate M;
        destruct (judge_tx (m_maxtx mo) (m_sdu mo) txs) as [[|t] cur]; try discriminate M; eauto. }
    destruct (judge_next_tx _ _ _ _ JN) as (_ & S2 & _). simpl in *. destruct r; auto.
  - break M; inversion M; subst; simpl; auto.
  - break M; inversion M; subst; simpl; auto.
  - break M; inversion M; subst; simpl; auto.
  - break M; inversion M; subst; simpl; auto.
  - break M; inversion M; subst; simpl; auto.
  - break M; inversion M; subst; simpl; auto.
Qed.

Lemma maxtx_from_cons cur x t : maxtx_from cur (x :: t) = maxtx_from (maxtx_from cur [x]) t.
Proof. destruct x as [o [r txs]]. destruct o; auto. destruct r; auto. Qed.

Lemma accepted_sizes c : forall tr mo pos sdus pds,
  KI c sdus pds mo -> monitor_from c mo pos tr = None ->
  forall i o r txs p, nth_error tr i = Some (o, (r, txs)) -> In p txs -> fst p <> 3 ->
    lenN (snd p) + 2 <= maxtx_from (m_maxtx mo) (firstn i tr).
Proof.
  induction tr as [|[o ro] tr IH]; intros mo pos sdus pds HK MF i o1 r txs p NE IN N3.
  - destruct i; discriminate.
  - simpl in MF. destruct (mstep c mo o ro) as [[|t] mo'] eqn:M; [|discriminate].
    destruct (mstep_K _ _ _ _ _ _ _ HK M) as (HK' & SZ).
    destruct i as [|i].
    + simpl in NE. inversion NE; subst. simpl in SZ. simpl.
      rewrite Forall_forall in SZ. destruct (SZ p IN); [contradiction|auto].
    + simpl in NE. change (firstn (S i) ((o, ro) :: tr)) with ((o, ro) :: firstn i tr).
      rewrite maxtx_from_cons, <- (mstep_maxtx _ _ _ _ _ M). eapply IH; eauto.
Qed.

Theorem accepted_trace_sizes c tr :
  monitor c tr = None ->
  forall i o r txs p, nth_error tr i = Some (o, (r, txs)) -> In p txs -> fst p <> 3 ->
    lenN (snd p) + 2 <= maxtx_after (firstn i tr).
Proof. intros MF. exact (accepted_sizes c tr minit O [] [] (KI_init c) MF). Qed.

(* ... and the radio sends the committed PDUs in the order of their commitment *)
Lemma mstep_air c mo o ro mo' :
  mstep c mo o ro = (Ok, mo') -> m_air mo ++ snd ro = radioed [(o, ro)] ++ m_air mo'.
Proof.
  intros M. destruct ro as [r txs]. cbn [snd]. destruct o; unfold mstep in M.
  - break M; inversion M; subst; simpl; auto using app_nil_r.
  - assert (exists cur, judge_next c (set_tx_m mo cur txs) r = (Ok, mo')) as (cur & JN).
    { destruct r; try discriminate M;
        destruct (judge_tx (m_maxtx mo) (m_sdu mo) txs) as [[|t] cur]; try discriminate M; eauto. }
    destruct (judge_next_tx _ _ _ _ JN) as (_ & _ & S3). simpl in *. auto.
  - break M; inversion M; subst; simpl; auto using app_nil_r.
  - break M; inversion M; subst; simpl; auto using app_nil_r.
  - break M; inversion M; subst; simpl; auto using app_nil_r.
  - destruct txs; [|destruct r; discriminate M]. rewrite app_nil_r.
    destruct r; try discriminate M.
    + destruct (m_air mo) as [|q t] eqn:A; [|discriminate M]. inversion M; subst. simpl. auto.
    + destruct (m_air mo) as [|q t] eqn:A; [discriminate M|].
      destruct (pdu_eqb p q) eqn:PE; [|discriminate M]. apply pdu_eqb_eq in PE. subst q.
      inversion M; subst. reflexivity.
  - break M; inversion M; subst; simpl; auto using app_nil_r.
  - break M; inversion M; subst; simpl; auto using app_nil_r.
Qed.

Lemma radioed_cons x t : radioed (x :: t) = radioed [x] ++ radioed t.
Proof. destruct x as [o [r txs]]. destruct o; auto. destruct r; auto. Qed.

Lemma accepted_order c : forall tr mo pos,
  monitor_from c mo pos tr = None -> exists rest, m_air mo ++ committed tr = radioed tr ++ rest.
Proof.
  induction tr as [|[o ro] tr IH]; intros mo pos MF.
  - exists (m_air mo). simpl. now rewrite app_nil_r.
  - simpl in MF. destruct (mstep c mo o ro) as [[|t] mo'] eqn:M; [|discriminate].
    destruct (IH mo' (S pos) MF) as (rest & E).
    exists rest. rewrite committed_cons, radioed_cons. cbn [snd]. rewrite app_assoc, (mstep_air _ _ _ _ _ M).
    rewrite <- !app_assoc. now rewrite E.
Qed.

Theorem accepted_trace_order c tr :
  monitor c tr = None -> exists rest, committed tr = radioed tr ++ rest.
Proof. intros MF. exact (accepted_order c tr minit O MF). Qed.


(* ------------------------------------------------------------------ the automaton is not trivial *)
(* a well formed train - start fragment announcing L bytes, non empty continuation fragments, L + 4
   bytes in total - is delivered, exactly and at its last fragment, whatever was in progress before *)
Lemma spec_collects m L : forall cs acc rest,
  Forall (fun x => x <> []) cs -> lenN acc + lenN (concat cs) = L + 4 -> cs <> [] ->
  spec_loop m (Coll L acc) (map (fun x => (1, x)) cs ++ rest) = (Done (acc ++ concat cs), rest, ESdu (acc ++ concat cs)).
Proof.
  induction cs as [|x cs IH]; intros acc rest NE LEN NN; [congruence|].
  inversion NE as [|? ? Hx Hcs]; subst. cbn [map app spec_loop fst snd]. simpl N.eqb.
  cbn [concat] in *. rewrite lenN_app in LEN.
  assert (X0 : 0 < lenN x) by (destruct x; [congruence|rewrite lenN_cons; lia]).
  destruct cs as [|y cs].
  - simpl in *. rewrite lenN_nil in LEN. rewrite app_nil_r, lenN_app.
    destruct (N.ltb_spec (lenN acc + lenN x) (L + 4)); [lia|].
    destruct (N.eqb_spec (lenN acc + lenN x) (L + 4)); [|lia]. reflexivity.
  - assert (Y0 : 0 < lenN (concat (y :: cs))).
    { inversion Hcs; subst. simpl. rewrite lenN_app. destruct y; [congruence|rewrite lenN_cons; lia]. }
    rewrite lenN_app. destruct (N.ltb_spec (lenN acc + lenN x) (L + 4)); [|lia].
    rewrite IH; auto; [now rewrite <- app_assoc | rewrite lenN_app; lia | discriminate].
Qed.

Theorem spec_delivers_wellformed m rs b0 cs rest :
  (forall x, rs <> Done x) ->
  4 <= lenN b0 -> read16 b0 <= m -> Forall (fun x => x <> []) cs -> cs <> [] ->
  lenN (b0 ++ concat cs) = read16 b0 + 4 ->
  spec_loop m rs ((2, b0) :: map (fun x => (1, x)) cs ++ rest)
  = (Done (b0 ++ concat cs), rest, ESdu (b0 ++ concat cs)).
Proof.
  intros ND H4 HM NE NN LEN. cbn [spec_loop fst snd]. simpl N.eqb. unfold classify_start.
  rewrite lenN_app in LEN.
  assert (C0 : 0 < lenN (concat cs)).
  { destruct cs as [|x cs]; [congruence|]. inversion NE; subst. simpl. rewrite lenN_app.
    destruct x; [congruence|rewrite lenN_cons; lia]. }
  destruct (N.leb_spec 4 (lenN b0)); [|lia].
  destruct (N.eqb_spec (read16 b0 + 4) (lenN b0)); [lia|].
  destruct (N.leb_spec (read16 b0) m); [|lia].
  destruct (N.ltb_spec (lenN b0) (read16 b0 + 4)); [|lia]. cbn [andb].
  apply spec_collects; auto.
Qed.

Lemma reachable_R c : wf_cfg c -> forall ops s m, R c s m -> exists m', R c (final c s ops) m'.
Proof.
  intros WF. induction ops as [|o ops IH]; intros s m HR; simpl; eauto.
  destruct (step c s o) as [s' ro] eqn:E. simpl.
  destruct (step_ok c s m o s' ro WF HR E) as (m' & _ & HR'). eauto.
Qed.

(* the receive side delivers every well formed train: if no complete SDU is waiting and the radio's FIFO
   starts with a start fragment announcing L <= MTU bytes followed by non empty continuation fragments
   with L + 4 bytes in total, the next call returns exactly that SDU *)
Theorem model_delivers_wellformed c : wf_cfg c -> passthrough c = false ->
  forall ops0 g b0 cs rest,
    let s := final c (init c) ops0 in
    complete s = false ->
    rxq s = (2, b0) :: map (fun x => (1, x)) cs ++ rest ->
    4 <= lenN b0 -> read16 b0 <= mtu c -> Forall (fun x => x <> []) cs -> cs <> [] ->
    lenN (b0 ++ concat cs) = read16 b0 + 4 ->
    exists txs, snd (step c s (Next g)) = (RSdu (b0 ++ concat cs), txs).
Proof.
  intros WF PT ops0 g b0 cs rest s NC Q H4 HM NE NN LEN.
  destruct (reachable_R c WF ops0 (init c) minit (init_R c)) as (m & HR). fold s in HR.
  destruct (step c s (Next g)) as [s' [r txs]] eqn:E.
  destruct (step_ok c s m (Next g) s' (r, txs) WF HR E) as (m' & M & _).
  exists txs. simpl. f_equal.
  pose proof (R_rx _ _ _ HR) as RX. rewrite PT in RX.
  assert (ND : forall x, m_rs m <> Done x).
  { intros x Hx. rewrite (complete_iff _ _ _ RX), Hx in NC. discriminate. }
  unfold mstep in M.
  destruct (judge_tx (m_maxtx m) (m_sdu m) txs) as [[|t] cur]; [|destruct r; discriminate M].
  assert (JN : judge_next c (set_tx_m m cur txs) r = (Ok, m')) by (destruct r; try discriminate M; exact M).
  clear M. unfold judge_next, spec_next in JN. rewrite PT in JN. cbn [set_tx_m m_rs m_pend] in JN.
  rewrite <- (R_rxq _ _ _ HR), Q in JN.
  destruct (m_rs m) eqn:RS; [ | |destruct (ND sdu eq_refl)].
  all: match type of JN with context [spec_loop ?a ?b ?l] => set (e := spec_loop a b l) in JN end.
  all: assert (SL : e = (Done (b0 ++ concat cs), rest, ESdu (b0 ++ concat cs)))
         by (apply spec_delivers_wellformed; auto; intros; discriminate).
  all: rewrite SL in JN; clear SL e.
  all: destruct r; try discriminate JN.
  all: destruct (bytes_eqb (b0 ++ concat cs) b) eqn:BE;
         [apply bytes_eqb_eq in BE; congruence | destruct (lenN (b0 ++ concat cs) =? lenN b); discriminate JN].
Qed.

(* ------------------------------------------------------------------ the same for the model *)
Section ModelCorollaries.
  Variable c : cfg.
  Hypothesis WF : wf_cfg c.
  Variable ops : list op.
  Let tr := run c (init c) ops.

  Theorem model_delivers_only_reassembled :
    forall i g y txs, nth_error tr i = Some (Next g, (RSdu y, txs)) ->
      reassembled_from (mtu c) (injected (firstn (S i) tr)) y.
  Proof. apply accepted_sdu_is_reassembled. apply monitor_accepts_model; auto. Qed.

  Theorem model_fragments : sending_as (accepted_sdus tr) (data_pdus (committed tr)).
  Proof. apply (accepted_trace_fragments c). apply monitor_accepts_model; auto. Qed.

  Theorem model_fragment_sizes :
    forall i o r txs p, nth_error tr i = Some (o, (r, txs)) -> In p txs -> fst p <> 3 ->
      lenN (snd p) + 2 <= maxtx_after (firstn i tr).
  Proof. apply (accepted_trace_sizes c). apply monitor_accepts_model; auto. Qed.

  Theorem model_transmit_order : exists rest, committed tr = radioed tr ++ rest.
  Proof. apply (accepted_trace_order c). apply monitor_accepts_model; auto. Qed.
End ModelCorollaries.
