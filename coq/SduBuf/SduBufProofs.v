(* Proofs for the L2CAP SDU buffer (C19).

   Part 1  list / bounds lemmas
   Part 2  try_send_pdus against the fragmentation clauses of the monitor (induction on the grants)
   Part 3  the receive loop against the recombination automaton (induction on the receive FIFO)
   Part 4  simulation: every step of the model is accepted by the monitor (relation R), hence the
           monitor accepts every model trace and the model never reaches RFault
   Part 5  what an accepted trace means in words of lists: delivered SDUs, fragmentation, sizes, order *)
From BT Require Import Base.ListX SduBuf.SduBufModel SduBuf.SduBufSpec.
From Coq Require Import Lia ZifyBool.
Local Open Scope N_scope.

(* ---------------------------------------------------------------------- part 1 *)
(* ---------- lists and lengths *)
Lemma lenN_app (a b : list N) : lenN (a ++ b) = lenN a + lenN b.
Proof. unfold lenN. rewrite app_length. lia. Qed.
Lemma lenN_nil : lenN (@nil N) = 0.
Proof. reflexivity. Qed.
Lemma lenN_cons x (l : list N) : lenN (x :: l) = 1 + lenN l.
Proof. unfold lenN. simpl length. lia. Qed.
Lemma lenN_repeat (x : N) n : lenN (repeat x n) = N.of_nat n.
Proof. unfold lenN. now rewrite repeat_length. Qed.
Lemma lenN_firstn (l : list N) n : n <= lenN l -> lenN (firstn (N.to_nat n) l) = n.
Proof. unfold lenN. intros. rewrite firstn_length. lia. Qed.
Lemma lenN_skipn (l : list N) n : lenN (skipn (N.to_nat n) l) = lenN l - n.
Proof. unfold lenN. rewrite skipn_length. lia. Qed.
Lemma lenN_zero (l : list N) : lenN l = 0 -> l = [].
Proof. destruct l; auto. unfold lenN; simpl; lia. Qed.

Lemma mem_length c p : lenN (mem c p) = ll_overhead c + lenN (snd p).
Proof.
  unfold mem, ll_overhead, header_size. rewrite !lenN_app, lenN_repeat. unfold lenN. simpl length. lia.
Qed.

Lemma skipn_mem c p : skipn (N.to_nat (ll_overhead c)) (mem c p) = snd p.
Proof.
  unfold mem, ll_overhead, header_size.
  replace (N.to_nat (2 + oh c)) with (2 + N.to_nat (oh c))%nat by lia.
  simpl. rewrite skipn_app, repeat_length, Nat.sub_diag. simpl.
  rewrite skipn_all2; auto. rewrite repeat_length; lia.
Qed.

Lemma write_at_some buf pos data :
  pos + lenN data <= lenN buf ->
  write_at buf pos data = Some (firstn (N.to_nat pos) buf ++ data ++ skipn (N.to_nat pos + length data) buf).
Proof. intros. unfold write_at. destruct (N.leb_spec (pos + lenN data) (lenN buf)); auto; lia. Qed.

Lemma write_at_length buf pos data b : write_at buf pos data = Some b -> lenN b = lenN buf.
Proof.
  unfold write_at. destruct (N.leb_spec (pos + lenN data) (lenN buf)); intros E; inversion E.
  unfold lenN in *. rewrite !app_length, firstn_length, skipn_length. lia.
Qed.

Lemma read_at_some buf pos n :
  pos + n <= lenN buf -> read_at buf pos n = Some (firstn (N.to_nat n) (skipn (N.to_nat pos) buf)).
Proof. intros. unfold read_at. destruct (N.leb_spec (pos + n) (lenN buf)); auto; lia. Qed.

(* firstn of what was written *)
Lemma firstn_written (buf data : list N) pos :
  pos <= lenN buf ->
  firstn (N.to_nat (pos + lenN data)) (firstn (N.to_nat pos) buf ++ data ++ skipn (N.to_nat pos + length data) buf)
  = firstn (N.to_nat pos) buf ++ data.
Proof.
  intros H. rewrite app_assoc. rewrite firstn_app.
  assert (L : length (firstn (N.to_nat pos) buf ++ data) = N.to_nat (pos + lenN data)).
  { rewrite app_length, firstn_length. unfold lenN in *. lia. }
  rewrite <- L at 1. rewrite firstn_all. rewrite L, Nat.sub_diag. simpl. now rewrite app_nil_r.
Qed.

Lemma skipn_app_le (A : Type) (a b : list A) n : (n <= length a)%nat -> skipn n (a ++ b) = skipn n a ++ b.
Proof. intros. rewrite skipn_app. replace (n - length a)%nat with 0%nat by lia. reflexivity. Qed.

Lemma firstn_app_le (A : Type) (a b : list A) n : (n <= length a)%nat -> firstn n (a ++ b) = firstn n a.
Proof. intros. rewrite firstn_app. replace (n - length a)%nat with 0%nat by lia. simpl. now rewrite app_nil_r. Qed.

(* ---------- boolean equalities *)
Lemma bytes_eqb_refl a : bytes_eqb a a = true.
Proof. induction a; simpl; auto. rewrite N.eqb_refl; auto. Qed.
Lemma bytes_eqb_eq a b : bytes_eqb a b = true -> a = b.
Proof.
  revert b; induction a as [|x a IH]; intros [|y b]; simpl; intros H; try discriminate; auto.
  apply andb_prop in H as [H1 H2]. apply N.eqb_eq in H1. f_equal; auto.
Qed.
Lemma pdu_eqb_refl p : pdu_eqb p p = true.
Proof. unfold pdu_eqb. now rewrite N.eqb_refl, bytes_eqb_refl. Qed.
Lemma pdu_eqb_eq p q : pdu_eqb p q = true -> p = q.
Proof.
  unfold pdu_eqb. intros H. apply andb_prop in H as [H1 H2]. apply N.eqb_eq in H1. apply bytes_eqb_eq in H2.
  destruct p, q; simpl in *; congruence.
Qed.
Lemma prefixb_app a r : prefixb a (a ++ r) = true.
Proof. induction a; simpl; auto. now rewrite N.eqb_refl. Qed.
Lemma prefixb_split a b : prefixb a b = true -> b = a ++ skipn (length a) b.
Proof.
  revert b; induction a as [|x a IH]; intros b H; simpl in *; auto.
  destruct b as [|y b]; try discriminate. apply andb_prop in H as [H1 H2]. apply N.eqb_eq in H1. subst.
  simpl. f_equal. auto.
Qed.
Lemma prefixb_firstn n (l : list N) : prefixb (firstn n l) l = true.
Proof. rewrite <- (firstn_skipn n l) at 2. apply prefixb_app. Qed.

Lemma skipn_skipn' (A : Type) (a b : nat) (l : list A) : skipn a (skipn b l) = skipn (b + a) l.
Proof. revert l; induction b as [|b IH]; intros l; simpl; auto. destruct l; simpl; auto. now rewrite skipn_nil. Qed.

(* ---------------------------------------------------------------------- part 2 *)
Definition nn := N.to_nat.

(* transmit side: model state vs. the monitor's outgoing SDU. [weak]: inside try_send_pdus the
   used counter is not yet reset when the last fragment was committed *)
Definition tx_rel (weak : bool) (c : cfg) (s : state) (cur : option (list N * bool)) : Prop :=
  match cur with
  | None => tsize s = 0 /\ (weak = false -> tused s = 0)
  | Some (rem, false) =>
      tused s = 0 /\ tsize s = ll_overhead c + lenN rem /\ tsize s <= lenN (tbuf s) /\ 4 <= lenN rem /\
      skipn (nn (ll_overhead c)) (firstn (nn (tsize s)) (tbuf s)) = rem
  | Some (rem, true) =>
      tused s <> 0 /\ tsize s = lenN rem /\ rem <> [] /\ tused s + tsize s <= lenN (tbuf s) /\
      firstn (nn (tsize s)) (skipn (nn (tused s)) (tbuf s)) = rem
  end.

(* everything try_send_pdus does not touch *)
Definition tx_frame (s s' : state) (sent : list pdu) : Prop :=
  rbuf s' = rbuf s /\ rsize s' = rsize s /\ rused s' = rused s /\ tbuf s' = tbuf s /\ rxq s' = rxq s /\
  txq s' = txq s ++ sent /\ max_rx s' = max_rx s /\ max_tx s' = max_tx s /\ handed s' = handed s /\
  faulted s' = faulted s.

Lemma tx_frame_refl s : tx_frame s s [].
Proof. unfold tx_frame. rewrite app_nil_r. tauto. Qed.

Lemma skipn_firstn_sub (l : list N) (a b : nat) :
  (a <= b)%nat -> skipn a (firstn b l) = firstn (b - a) (skipn a l).
Proof. intros. rewrite skipn_firstn_comm. reflexivity. Qed.

Lemma try_send_eq c g s :
  try_send c g s =
  if tsize s =? 0 then Some (set_tx s (tbuf s) (tsize s) 0, [])
  else
    match g with
    | O => Some (s, [])
    | S g' =>
        let llo := ll_overhead c in
        let first := tused s =? 0 in
        let bsz := N.min (tsize s + (if first then 0 else llo)) (max_tx s) in
        if first then
          let cs := N.min bsz (tsize s) in
          if (bsz <? cs) || (cs <? llo) || (256 <=? cs - llo) then None
          else
            match read_at (tbuf s) 0 cs with
            | None => None
            | Some bytes =>
                let p : pdu := (2, skipn (N.to_nat llo) bytes) in
                match try_send c g' (set_txq (set_tx s (tbuf s) (tsize s - cs) (tused s + cs)) (txq s ++ [p])) with
                | None => None
                | Some (s', sent) => Some (s', p :: sent)
                end
            end
        else
          if bsz <? llo then None
          else
            let cs := N.min (bsz - llo) (tsize s) in
            if 256 <=? cs then None
            else
              match read_at (tbuf s) (tused s) cs with
              | None => None
              | Some bytes =>
                  let p : pdu := (1, bytes) in
                  match try_send c g' (set_txq (set_tx s (tbuf s) (tsize s - cs) (tused s + cs)) (txq s ++ [p])) with
                  | None => None
                  | Some (s', sent) => Some (s', p :: sent)
                  end
              end
    end.
Proof. destruct g; reflexivity. Qed.

Lemma try_send_ok c : wf_cfg c ->
  forall g s cur,
    tx_rel true c s cur -> min_buffer_size <= max_tx s <= max_buffer_size ->
    exists s' sent cur',
      try_send c g s = Some (s', sent) /\ judge_tx (max_tx s) cur sent = (Ok, cur') /\
      tx_rel false c s' cur' /\ tx_frame s s' sent.
Proof.
  intros (Hm & H16 & Hoh). unfold min_buffer_size, max_buffer_size.
  assert (Hllo : ll_overhead c <= 18) by (unfold ll_overhead, header_size; lia).
  induction g as [|g IH]; intros s cur HR Hmax.
  - (* no grant *)
    rewrite try_send_eq. destruct cur as [[rem [|]]|]; simpl in HR.
    + destruct HR as (U & S & NE & B & E).
      assert (tsize s <> 0) by (destruct rem; [congruence| rewrite S, lenN_cons; lia]).
      destruct (N.eqb_spec (tsize s) 0); [lia|].
      exists s, [], (Some (rem, true)). simpl.
      refine (conj eq_refl (conj eq_refl (conj _ (tx_frame_refl s)))). repeat split; auto.
    + destruct HR as (U & S & B & L4 & E).
      destruct (N.eqb_spec (tsize s) 0); [lia|].
      exists s, [], (Some (rem, false)). simpl.
      refine (conj eq_refl (conj eq_refl (conj _ (tx_frame_refl s)))). repeat split; auto.
    + destruct HR as (S & _). destruct (N.eqb_spec (tsize s) 0); [|lia].
      exists (set_tx s (tbuf s) (tsize s) 0), [], None. simpl.
      refine (conj eq_refl (conj eq_refl (conj _ _))); [split; auto|].
      unfold tx_frame; simpl. rewrite app_nil_r. tauto.
  - rewrite try_send_eq. cbv zeta. destruct cur as [[rem [|]]|]; simpl in HR.
    + (* continuation fragment *)
      destruct HR as (U & S & NE & B & E).
      assert (T0 : tsize s <> 0) by (destruct rem; [congruence| rewrite S, lenN_cons; lia]).
      destruct (N.eqb_spec (tsize s) 0); [lia|].
      destruct (N.eqb_spec (tused s) 0); [lia|].
      set (llo := ll_overhead c) in *.
      set (bsz := N.min (tsize s + llo) (max_tx s)).
      destruct (N.ltb_spec bsz llo); [unfold bsz in *; lia|].
      set (cs := N.min (bsz - llo) (tsize s)).
      assert (Hcs : 0 < cs <= tsize s /\ cs + llo <= max_tx s) by (unfold cs, bsz; lia).
      destruct (N.leb_spec 256 cs); [lia|].
      rewrite read_at_some by lia.
      set (bytes := firstn (N.to_nat cs) (skipn (N.to_nat (tused s)) (tbuf s))).
      set (s1 := set_txq (set_tx s (tbuf s) (tsize s - cs) (tused s + cs)) (txq s ++ [(1, bytes)])).
      assert (Hb : bytes = firstn (N.to_nat cs) rem).
      { unfold bytes. rewrite <- E. unfold nn. rewrite firstn_firstn. f_equal. lia. }
      assert (Lb : lenN bytes = cs).
      { unfold bytes. apply lenN_firstn. rewrite lenN_skipn. lia. }
      set (rem' := skipn (length bytes) rem).
      assert (Lr : length bytes = N.to_nat cs) by (unfold lenN in Lb; lia).
      assert (HR1 : tx_rel true c s1 (match rem' with [] => None | _ => Some (rem', true) end)).
      { assert (Lrem' : lenN rem' = tsize s - cs).
        { unfold rem'. rewrite Lr, lenN_skipn. lia. }
        assert (Erem' : firstn (nn (tsize s - cs)) (skipn (nn (tused s + cs)) (tbuf s)) = rem').
        { unfold rem'. rewrite Lr, <- E. unfold nn.
          rewrite skipn_firstn_comm, skipn_skipn'. f_equal; [lia|]. f_equal. lia. }
        destruct rem' as [|x r'] eqn:Er.
        - simpl. split; [rewrite lenN_nil in Lrem'; simpl; lia| discriminate].
        - simpl. repeat split; try lia; try discriminate. exact Erem'. }
      destruct (IH s1 _ HR1) as (s' & sent & cur' & T & J & HR' & F); [simpl; lia|].
      match goal with |- context [try_send c g ?x] => change x with s1 end. rewrite T. exists s', ((1, bytes) :: sent), cur'. split; [reflexivity|]. split; [|split]; auto.
      * simpl.
        destruct (N.eqb_spec (lenN bytes) 0); [lia|]. simpl.
        rewrite Hb, prefixb_firstn. simpl. rewrite <- Hb.
        destruct (N.ltb_spec (max_tx s) (lenN bytes + 2)); [unfold llo, ll_overhead, header_size in *; lia|].
        exact J.
      * unfold tx_frame in *. simpl in F. destruct F as (F1&F2&F3&F4&F5&F6&F7&F8&F9&F10).
        repeat split; auto. rewrite F6, <- app_assoc. reflexivity.
    + (* start fragment *)
      destruct HR as (U & S & B & L4 & E).
      destruct (N.eqb_spec (tsize s) 0); [lia|].
      rewrite U. rewrite N.eqb_refl.
      set (llo := ll_overhead c) in *.
      rewrite N.add_0_r.
      set (bsz := N.min (tsize s) (max_tx s)).
      set (cs := N.min bsz (tsize s)).
      assert (Hcs : cs = bsz /\ llo < cs <= tsize s /\ cs <= max_tx s) by (unfold cs, bsz; lia).
      destruct Hcs as (Hcs0 & Hcs).
      destruct (N.ltb_spec bsz cs); [lia|].
      destruct (N.ltb_spec cs llo); [lia|].
      destruct (N.leb_spec 256 (cs - llo)); [lia|]. cbn [orb].
      rewrite read_at_some by lia. change (N.to_nat 0) with 0%nat. cbn [skipn].
      set (bytes := firstn (N.to_nat cs) (tbuf s)).
      set (body := skipn (N.to_nat llo) bytes).
      set (s1 := set_txq (set_tx s (tbuf s) (tsize s - cs) (0 + cs)) (txq s ++ [(2, body)])).
      assert (Hb : body = firstn (N.to_nat (cs - llo)) rem).
      { unfold body, bytes. rewrite <- E. unfold nn. rewrite firstn_skipn_comm, firstn_firstn.
        f_equal. f_equal. lia. }
      assert (Lb : lenN body = cs - llo).
      { rewrite Hb. apply lenN_firstn. lia. }
      assert (Lr : length body = N.to_nat (cs - llo)) by (unfold lenN in Lb; lia).
      set (rem' := skipn (length body) rem).
      assert (HR1 : tx_rel true c s1 (match rem' with [] => None | _ => Some (rem', true) end)).
      { assert (Lrem' : lenN rem' = tsize s - cs).
        { unfold rem'. rewrite Lr, lenN_skipn. lia. }
        assert (Erem' : firstn (nn (tsize s - cs)) (skipn (nn (0 + cs)) (tbuf s)) = rem').
        { unfold rem'. rewrite Lr, <- E. unfold nn.
          rewrite skipn_skipn', skipn_firstn_comm. f_equal; [lia|]. f_equal. lia. }
        destruct rem' as [|x r'] eqn:Er.
        - simpl. split; [rewrite lenN_nil in Lrem'; simpl; lia| discriminate].
        - simpl. repeat split; try lia; try discriminate. exact Erem'. }
      destruct (IH s1 _ HR1) as (s' & sent & cur' & T & J & HR' & F); [simpl; lia|].
      match goal with |- context [try_send c g ?x] => change x with s1 end. rewrite T. exists s', ((2, body) :: sent), cur'. split; [reflexivity|]. split; [|split]; auto.
      * simpl.
        destruct (N.eqb_spec (lenN body) 0); [lia|]. simpl.
        rewrite Hb, prefixb_firstn. simpl. rewrite <- Hb.
        destruct (N.ltb_spec (max_tx s) (lenN body + 2)); [unfold llo, ll_overhead, header_size in *; lia|].
        exact J.
      * unfold tx_frame in *. simpl in F. destruct F as (F1&F2&F3&F4&F5&F6&F7&F8&F9&F10).
        repeat split; auto. rewrite F6, <- app_assoc. reflexivity.
    + destruct HR as (S & _). destruct (N.eqb_spec (tsize s) 0); [|lia].
      exists (set_tx s (tbuf s) (tsize s) 0), [], None. simpl.
      refine (conj eq_refl (conj eq_refl (conj _ _))); [split; auto|].
      unfold tx_frame; simpl. rewrite app_nil_r. tauto.
Qed.

(* ---------------------------------------------------------------------- part 3 *)
(* receive side: model state vs. the recombination automaton *)
Definition rx_rel (c : cfg) (s : state) (rs : rstate) : Prop :=
  match rs with
  | Idle => rused s = 0 /\ rsize s = 0
  | Coll L acc =>
      L <= mtu c /\ 4 <= lenN acc /\ lenN acc < L + 4 /\
      rsize s = L + 4 - lenN acc /\ rused s = ll_overhead c + lenN acc /\ sdu_body c s = acc
  | Done sdu =>
      rsize s = 0 /\ rused s = ll_overhead c + lenN sdu /\ sdu_body c s = sdu
  end.

Definition rx_frame (s s' : state) : Prop :=
  tbuf s' = tbuf s /\ tsize s' = tsize s /\ tused s' = tused s /\ txq s' = txq s /\
  max_rx s' = max_rx s /\ max_tx s' = max_tx s /\ handed s' = handed s /\ faulted s' = faulted s /\
  lenN (rbuf s') = lenN (rbuf s).

Lemma rx_frame_refl s : rx_frame s s.
Proof. unfold rx_frame; tauto. Qed.
Lemma rx_frame_trans s1 s2 s3 : rx_frame s1 s2 -> rx_frame s2 s3 -> rx_frame s1 s3.
Proof. unfold rx_frame; intuition congruence. Qed.
Lemma rx_frame_rxq s q : rx_frame s (set_rxq s q).
Proof. unfold rx_frame; simpl; tauto. Qed.
Lemma rx_frame_set_rx s b x y : lenN b = lenN (rbuf s) -> rx_frame s (set_rx s b x y).
Proof. unfold rx_frame; simpl; tauto. Qed.

Definition matches (r : res) (e : expect) : Prop :=
  match e, r with
  | ENone, RNone => True
  | EPdu p, RPdu q => p = q
  | ESdu x, RSdu y => x = y
  | _, _ => False
  end.

Lemma complete_iff c s rs : rx_rel c s rs -> complete s = match rs with Done _ => true | _ => false end.
Proof.
  unfold complete, rx_rel. destruct rs.
  - intros (U & S). rewrite U. reflexivity.
  - intros (_ & _ & ? & S & _). destruct (N.eqb_spec (rsize s) 0); [lia|]. now rewrite andb_false_r.
  - intros (S & U & _). rewrite S. unfold ll_overhead, header_size in U.
    destruct (N.eqb_spec (rused s) 0); [lia|]. reflexivity.
Qed.

(* add_to_receive_buffer *)
Lemma add_rx_over s data : rsize s < lenN data -> add_rx s data = Some (reset_rx s).
Proof. intros. unfold add_rx. destruct (N.ltb_spec (rsize s) (lenN data)); auto; lia. Qed.

Lemma add_rx_fit c s data :
  lenN data <= rsize s -> rused s + rsize s <= lenN (rbuf s) -> (rused s = 0 \/ ll_overhead c <= rused s) ->
  exists b, add_rx s data = Some (set_rx s b (rsize s - lenN data) (rused s + lenN data)) /\
            lenN b = lenN (rbuf s) /\
            firstn (N.to_nat (rused s + lenN data)) b = firstn (N.to_nat (rused s)) (rbuf s) ++ data.
Proof.
  intros H1 H2 H3. unfold add_rx. destruct (N.ltb_spec (rsize s) (lenN data)); [lia|].
  rewrite write_at_some by lia. eexists. split; [reflexivity|]. split.
  - eapply write_at_length. apply write_at_some. lia.
  - apply firstn_written. lia.
Qed.

Lemma skipn_0 (A : Type) (l : list A) : skipn (N.to_nat 0) l = l.
Proof. reflexivity. Qed.

Ltac split4 := split; [|split; [|split]].

Lemma rx_loop_ok c : wf_cfg c ->
  forall q s rs,
    lenN (rbuf s) = bufsize c -> rx_rel c s rs -> (forall x, rs <> Done x) ->
    exists s' r,
      rx_loop c s q = Some (s', r) /\
      let '(rs', pend', e) := spec_loop (mtu c) rs q in
      rxq s' = pend' /\ rx_rel c s' rs' /\ matches r e /\ rx_frame s s'.
Proof.
  intros (Hm & H16 & Hoh).
  assert (Hllo : 2 <= ll_overhead c <= 18) by (unfold ll_overhead, header_size; lia).
  assert (HB : bufsize c = mtu c + ll_overhead c + 4)
    by (unfold bufsize, overall_overhead, l2cap_header_size; lia).
  assert (HO : overall_overhead c = ll_overhead c + 4) by reflexivity.
  induction q as [|p q IH]; intros s rs HL HR HD.
  - simpl. exists (set_rxq s []), RNone. split; auto. simpl. split4; auto using rx_frame_rxq.
  - (* what happens after the PDU was consumed *)
    assert (After : forall s1 rs1, lenN (rbuf s1) = bufsize c -> rx_rel c s1 rs1 -> rx_frame s s1 ->
               exists s' r,
                 (if complete s1 then Some (set_rxq s1 q, RSdu (sdu_body c s1)) else rx_loop c s1 q) = Some (s', r) /\
                 let '(rs', pend', e) :=
                   match rs1 with Done x => (rs1, q, ESdu x) | _ => spec_loop (mtu c) rs1 q end in
                 rxq s' = pend' /\ rx_rel c s' rs' /\ matches r e /\ rx_frame s s').
    { intros s1 rs1 HL1 HR1 F1. rewrite (complete_iff _ _ _ HR1).
      destruct rs1 as [|L acc|x].
      - destruct (IH s1 Idle HL1 HR1) as (s' & r & E & X); [discriminate|].
        exists s', r. split; auto. destruct (spec_loop (mtu c) Idle q) as [[rs' pend'] e].
        destruct X as (X1 & X2 & X3 & X4). split4; eauto using rx_frame_trans.
      - destruct (IH s1 (Coll L acc) HL1 HR1) as (s' & r & E & X); [discriminate|].
        exists s', r. split; auto. destruct (spec_loop (mtu c) (Coll L acc) q) as [[rs' pend'] e].
        destruct X as (X1 & X2 & X3 & X4). split4; eauto using rx_frame_trans.
      - exists (set_rxq s1 q), (RSdu (sdu_body c s1)). split; auto.
        simpl. split4; eauto using rx_frame_trans, rx_frame_rxq. symmetry; apply HR1. }
    assert (HRi : rx_rel c (reset_rx s) Idle) by (simpl; auto).
    assert (Fi : rx_frame s (reset_rx s)) by (apply rx_frame_set_rx; auto).
    assert (HLi : lenN (rbuf (reset_rx s)) = bufsize c) by auto.
    cbn [rx_loop spec_loop].
    destruct (N.eqb_spec (fst p) 3) as [E3|N3].
    + (* LL control PDU *)
      exists (set_rxq s (p :: q)), (RPdu p). split; auto. simpl. split4; auto using rx_frame_rxq.
    + destruct (N.eqb_spec (fst p) 2) as [E2|N2].
      * (* start fragment *)
        unfold classify_start.
        destruct (N.leb_spec 4 (lenN (snd p))) as [G4|L4].
        -- destruct (N.eqb_spec (read16 (snd p) + 4) (lenN (snd p))) as [EW|NW].
           ++ exists (set_rxq (reset_rx s) (p :: q)), (RPdu p). split; auto. simpl.
              split4; eauto using rx_frame_trans, rx_frame_rxq.
           ++ destruct (N.leb_spec (read16 (snd p)) (mtu c)) as [LM|GM].
              ** (* add_to_receive_buffer( whole PDU ) *)
                 set (L := read16 (snd p)) in *.
                 assert (Emod : (L + overall_overhead c) mod 65536 = L + overall_overhead c)
                   by (apply N.mod_small; lia).
                 rewrite Emod.
                 set (s1 := set_rx (reset_rx s) (rbuf (reset_rx s)) (L + overall_overhead c) (rused (reset_rx s))).
                 assert (F1 : rx_frame s s1) by (eapply rx_frame_trans; [exact Fi|]; apply rx_frame_set_rx; auto).
                 destruct (N.ltb_spec (lenN (snd p)) (L + 4)) as [LT|GE]; cbn [andb].
                 --- (* fits: SDU in progress *)
                     destruct (add_rx_fit c s1 (mem c p)) as (b & A & Lb & Fb);
                       [rewrite mem_length; simpl; lia | simpl; lia | simpl; auto |].
                     rewrite A. rewrite mem_length in *. cbn [rsize rused s1 set_rx reset_rx] in *.
                     match goal with |- context [if complete ?st then _ else _] => set (s2 := st) end.
                     assert (HR2 : rx_rel c s2 (Coll L (snd p))).
                     { unfold s2. simpl. repeat split; try lia.
                       rewrite N.add_0_l in Fb. change (N.to_nat 0) with 0%nat in Fb. cbn [firstn app] in Fb.
                       unfold sdu_body. cbn [rused rbuf set_rx]. rewrite Fb. apply skipn_mem. }
                     destruct (After s2 (Coll L (snd p))) as (s' & r & E & X); auto.
                     { unfold s2; simpl. rewrite Lb. exact HL. }
                     { eapply rx_frame_trans; [exact F1|]. apply rx_frame_set_rx. exact Lb. }
                     exists s', r. split; auto.
                 --- (* start fragment longer than announced: dropped *)
                     rewrite add_rx_over by (rewrite mem_length; simpl; lia).
                     destruct (After (reset_rx s1) Idle) as (s' & r & E & X);
                       [exact HL | simpl; auto | eapply rx_frame_trans; [exact F1|]; apply rx_frame_set_rx; reflexivity |].
                     exists s', r. split; auto.
              ** destruct (N.leb_spec (read16 (snd p)) (mtu c)); [lia|]. cbn [andb].
                 destruct (After (reset_rx s) Idle) as (s' & r & E & X); auto.
                 exists s', r. split; auto.
        -- destruct (After (reset_rx s) Idle) as (s' & r & E & X); auto.
           exists s', r. split; auto.
      * (* continuation fragment *)
        destruct rs as [|L acc|x]; [| |exfalso; eapply HD; eauto].
        -- (* nothing in progress *)
           destruct HR as (U & S).
           destruct (N.eq_dec (lenN (snd p)) 0) as [Z|NZ].
           ++ destruct (add_rx_fit c s (snd p)) as (b & A & Lb & Fb); try lia.
              rewrite A.
              destruct (After (set_rx s b (rsize s - lenN (snd p)) (rused s + lenN (snd p))) Idle) as (s' & r & E & X);
                [simpl; lia | simpl; lia | apply rx_frame_set_rx; auto |].
              exists s', r. split; auto.
           ++ rewrite add_rx_over by lia.
              destruct (After (reset_rx s) Idle) as (s' & r & E & X); auto.
              exists s', r. split; auto.
        -- destruct HR as (LM & A4 & AL & S & U & Bd).
           rewrite lenN_app.
           destruct (N.ltb_spec (lenN acc + lenN (snd p)) (L + 4)) as [LT|GE].
           ++ destruct (add_rx_fit c s (snd p)) as (b & A & Lb & Fb); try lia.
              rewrite A.
              match goal with |- context [if complete ?st then _ else _] => set (s2 := st) end.
              assert (HR2 : rx_rel c s2 (Coll L (acc ++ snd p))).
              { unfold s2. simpl. rewrite lenN_app. repeat split; try lia.
                unfold sdu_body in *. simpl. rewrite Fb. rewrite skipn_app_le; [now rewrite Bd|].
                rewrite firstn_length. unfold lenN in *. lia. }
              destruct (After s2 (Coll L (acc ++ snd p))) as (s' & r & E & X);
                [unfold s2; simpl; lia | exact HR2 | apply rx_frame_set_rx; auto |].
              exists s', r. split; auto.
           ++ destruct (N.eqb_spec (lenN acc + lenN (snd p)) (L + 4)) as [EQ|NE].
              ** destruct (add_rx_fit c s (snd p)) as (b & A & Lb & Fb); try lia.
                 rewrite A.
                 match goal with |- context [if complete ?st then _ else _] => set (s2 := st) end.
                 assert (HR2 : rx_rel c s2 (Done (acc ++ snd p))).
                 { unfold s2. simpl. rewrite lenN_app. repeat split; try lia.
                   unfold sdu_body in *. simpl. rewrite Fb. rewrite skipn_app_le; [now rewrite Bd|].
                   rewrite firstn_length. unfold lenN in *. lia. }
                 destruct (After s2 (Done (acc ++ snd p))) as (s' & r & E & X);
                   [unfold s2; simpl; lia | exact HR2 | apply rx_frame_set_rx; auto |].
                 exists s', r. split; auto.
              ** rewrite add_rx_over by lia.
                 destruct (After (reset_rx s) Idle) as (s' & r & E & X); auto.
                 exists s', r. split; auto.
Qed.

(* ---------------------------------------------------------------------- part 4 *)
Record R (c : cfg) (s : state) (m : mon) : Prop := mkR {
  R_rbuf : lenN (rbuf s) = bufsize c;
  R_tbuf : lenN (tbuf s) = bufsize c;
  R_rxq : rxq s = m_pend m;
  R_txq : txq s = m_air m;
  R_handed : handed s = m_handed m;
  R_maxrx : max_rx s = m_maxrx m;
  R_maxtx : max_tx s = m_maxtx m;
  R_range : min_buffer_size <= max_tx s <= max_buffer_size;
  R_ok : faulted s = false;
  R_rx : if passthrough c then m_rs m = Idle else rx_rel c s (m_rs m);
  R_tx : if passthrough c then m_sdu m = None else tx_rel false c s (m_sdu m) }.

Lemma tx_rel_weaken c s cur : tx_rel false c s cur -> tx_rel true c s cur.
Proof. destruct cur as [[rem [|]]|]; simpl; auto. intros (? & ?). split; auto. Qed.

Lemma tx_rel_ext w c s s' cur :
  tbuf s' = tbuf s -> tsize s' = tsize s -> tused s' = tused s -> tx_rel w c s cur -> tx_rel w c s' cur.
Proof. intros E1 E2 E3. unfold tx_rel. rewrite E1, E2, E3. auto. Qed.

Lemma rx_rel_ext c s s' rs :
  rbuf s' = rbuf s -> rsize s' = rsize s -> rused s' = rused s -> rx_rel c s rs -> rx_rel c s' rs.
Proof. intros E1 E2 E3. unfold rx_rel, sdu_body. rewrite E1, E2, E3. auto. Qed.

Lemma init_R c : R c (init c) minit.
Proof.
  constructor; simpl; auto; try (unfold lenN; rewrite repeat_length; lia).
  - unfold min_buffer_size, max_buffer_size; lia.
  - destruct (passthrough c); simpl; auto.
  - destruct (passthrough c); simpl; auto.
Qed.

Lemma prefixb_refl b : prefixb b b = true.
Proof. rewrite <- (app_nil_r b) at 2. apply prefixb_app. Qed.

Lemma read16_app (b r : list N) : 2 <= lenN b -> read16 (b ++ r) = read16 b.
Proof.
  unfold read16, lenN. intros H. destruct b as [|x [|y b]]; simpl in H; try lia. reflexivity.
Qed.

Lemma lastp_snoc l p : lastp (l ++ [p]) = Some p.
Proof. unfold lastp. rewrite rev_app_distr. reflexivity. Qed.

Ltac inv H := inversion H; subst; clear H.
Ltac fin :=
  solve [ auto | congruence | simpl; congruence | rewrite ?app_nil_r; auto
        | destruct (passthrough _); auto; eapply rx_rel_ext; eauto
        | destruct (passthrough _); auto; eapply tx_rel_ext; eauto
        | eapply rx_rel_ext; eauto | eapply tx_rel_ext; eauto
        | unfold in_size_range, min_buffer_size, max_buffer_size in *; simpl; lia ].

Lemma step_ok c s m o s' ro :
  wf_cfg c -> R c s m -> step c s o = (s', ro) ->
  exists m', mstep c m o ro = (Ok, m') /\ R c s' m'.
Proof.
  intros WF HR. pose proof WF as (Hm & H16 & Hoh).
  assert (Hllo : 2 <= ll_overhead c <= 18) by (unfold ll_overhead, header_size; lia).
  assert (HB : bufsize c = mtu c + ll_overhead c + 4)
    by (unfold bufsize, overall_overhead, l2cap_header_size; lia).
  destruct HR as [Hrb Htb Hrxq Htxq Hh Hmr Hmt Hrg Hok Hrx Htx].
  unfold step. rewrite Hok.
  destruct o as [llid b|g| |g b|g a b| |n|n].
  - (* Rx *)
    unfold do_rx.
    destruct (max_rx s <? lenN b + 2) eqn:C1;
      [|destruct ((N.land llid 3 =? 0) || (lenN b =? 0))%bool eqn:C2]; intros E; inv E;
      cbn [mstep]; rewrite <- Hmr, C1, ?C2.
    + eexists; split; [reflexivity|]. constructor; auto.
    + eexists; split; [reflexivity|]. constructor; auto.
    + eexists; split; [reflexivity|]. constructor; simpl; try fin.
  - (* Next *)
    unfold do_next. destruct (passthrough c) eqn:PT.
    + destruct (rxq s) as [|p q] eqn:Q; intros E; inv E; cbn [mstep judge_tx]; unfold judge_next, spec_next;
        rewrite PT; cbn [set_tx_m m_pend m_rs]; rewrite <- Hrxq.
      * eexists; split; [reflexivity|]. constructor; simpl; rewrite ?PT, ?app_nil_r; try fin.
      * rewrite pdu_eqb_refl. eexists; split; [reflexivity|].
        constructor; simpl; rewrite ?PT, ?app_nil_r; try fin.
    + destruct (try_send_ok c WF g s (m_sdu m)) as (s1 & sent & cur' & T & J & HT1 & F); auto using tx_rel_weaken.
      rewrite T. rewrite Hmt in J.
      destruct F as (F1&F2&F3&F4&F5&F6&F7&F8&F9&F10).
      assert (HR1 : rx_rel c s1 (m_rs m)) by (eapply rx_rel_ext; eauto).
      rewrite (complete_iff _ _ _ HR1).
      destruct (m_rs m) as [|L acc|x] eqn:RS.
      * destruct (rx_loop_ok c WF (rxq s1) s1 Idle) as (s2 & r & E2 & X); [congruence| exact HR1 | discriminate|].
        rewrite E2. intros E; inv E. rewrite F5, Hrxq in X.
        cbn [mstep]. rewrite J. unfold judge_next, spec_next. rewrite PT. cbn [set_tx_m m_pend m_rs]. rewrite RS.
        destruct (spec_loop (mtu c) Idle (m_pend m)) as [[rs' pend'] e].
        destruct X as (X1 & X2 & X3 & X4). destruct X4 as (G1&G2&G3&G4&G5&G6&G7&G8&G9).
        assert (RR : forall h, R c (set_handed s2 h)
                   (set_rx_m (mkm (m_pend m) Idle (m_handed m) (m_maxrx m) (m_maxtx m) cur' (m_air m ++ sent)) pend' rs' h)).
        { intros h. constructor; simpl; rewrite ?PT; try fin. }
        destruct e, r; simpl in X3; try contradiction; subst.
        -- eexists; split; [reflexivity|]. apply RR.
        -- rewrite pdu_eqb_refl. eexists; split; [reflexivity|]. apply RR.
        -- rewrite bytes_eqb_refl. eexists; split; [reflexivity|]. apply RR.
      * destruct (rx_loop_ok c WF (rxq s1) s1 (Coll L acc)) as (s2 & r & E2 & X); [congruence| exact HR1 | discriminate|].
        rewrite E2. intros E; inv E. rewrite F5, Hrxq in X.
        cbn [mstep]. rewrite J. unfold judge_next, spec_next. rewrite PT. cbn [set_tx_m m_pend m_rs]. rewrite RS.
        destruct (spec_loop (mtu c) (Coll L acc) (m_pend m)) as [[rs' pend'] e].
        destruct X as (X1 & X2 & X3 & X4). destruct X4 as (G1&G2&G3&G4&G5&G6&G7&G8&G9).
        assert (RR : forall h, R c (set_handed s2 h)
                   (set_rx_m (mkm (m_pend m) (Coll L acc) (m_handed m) (m_maxrx m) (m_maxtx m) cur' (m_air m ++ sent)) pend' rs' h)).
        { intros h. constructor; simpl; rewrite ?PT; try fin. }
        destruct e, r; simpl in X3; try contradiction; subst.
        -- eexists; split; [reflexivity|]. apply RR.
        -- rewrite pdu_eqb_refl. eexists; split; [reflexivity|]. apply RR.
        -- rewrite bytes_eqb_refl. eexists; split; [reflexivity|]. apply RR.
      * intros E; inv E. destruct HR1 as (HA & HB1 & Bd).
        cbn [mstep]. rewrite J. unfold judge_next, spec_next. rewrite PT. cbn [set_tx_m m_pend m_rs]. rewrite RS.
        rewrite Bd, bytes_eqb_refl.
        eexists; split; [reflexivity|]. constructor; simpl; rewrite ?PT; try fin.
  - (* Free *)
    unfold do_free. destruct (handed s) eqn:HH; cbn [negb].
    + destruct (passthrough c) eqn:PT; cbn [negb andb].
      * intros E; inv E. cbn [mstep]. rewrite <- Hh, Hrx. cbn [negb]. eexists; split; [reflexivity|].
        constructor; simpl; rewrite ?PT; try fin.
      * rewrite (complete_iff c (set_handed s false) (m_rs m)) by (eapply rx_rel_ext; eauto).
        destruct (m_rs m) as [|L acc|x] eqn:RS; intros E; inv E; cbn [mstep]; rewrite <- Hh, RS; cbn [negb];
          (eexists; split; [reflexivity|]); constructor; simpl; rewrite ?PT; try fin.
    + intros E; inv E. cbn [mstep]. rewrite <- Hh. eexists; split; [reflexivity|]. constructor; auto; congruence.
  - (* L2Tx *)
    unfold do_l2tx. destruct (l2tx_pre c b) eqn:PRE.
    + intros E; inv E. cbn [mstep]. rewrite PRE. eexists; split; [reflexivity|]. constructor; auto.
    + pose proof PRE as PRE'. unfold l2tx_pre in PRE.
      assert (P4 : 4 <= lenN b /\ lenN b - 4 <= mtu c /\ read16 b + 4 = lenN b) by lia.
      destruct P4 as (P4 & PM & PL).
      destruct (passthrough c) eqn:PT.
      * destruct g as [|g]; intros E; inv E; cbn [mstep]; rewrite PRE', PT, Htx; cbn [andb].
        -- eexists; split; [reflexivity|]. constructor; auto; rewrite ?PT; auto.
        -- cbn [judge_tx fst snd]. rewrite prefixb_refl.
           unfold passthrough in PT. unfold min_buffer_size in Hrg.
           destruct (N.eqb_spec (lenN b) 0); [lia|].
           destruct (N.ltb_spec (m_maxtx m) (lenN b + 2)); [lia|].
           cbn [negb orb N.eqb Pos.eqb]. rewrite skipn_all.
           eexists; split; [reflexivity|]. constructor; simpl; unfold passthrough; rewrite ?PT; try fin.
      * pose proof Htx as Htx'.
        destruct (m_sdu m) as [[rem st]|] eqn:SD.
        -- assert (BUSY : (negb (tused s =? 0) || negb (tsize s =? 0))%bool = true).
           { destruct st; simpl in Htx.
             - destruct Htx as (U & _). lia.
             - destruct Htx as (U & S & _). lia. }
           rewrite BUSY. intros E; inv E. cbn [mstep]. rewrite PRE', SD.
           eexists; split; [reflexivity|]. constructor; auto; rewrite ?PT, ?SD; auto.
        -- simpl in Htx. destruct Htx as (S0 & U0). specialize (U0 eq_refl). rewrite S0, U0. cbn [N.eqb negb orb].
           rewrite write_at_some by (rewrite mem_length; simpl; lia).
           change (N.to_nat 0) with 0%nat. cbn [firstn app Nat.add].
           set (tb := mem c (2, b) ++ skipn (length (mem c (2, b))) (tbuf s)).
           assert (Ltb : lenN tb = bufsize c).
           { unfold tb. rewrite lenN_app. unfold lenN at 2. rewrite skipn_length.
             pose proof (mem_length c (2, b)) as ML. unfold lenN in *. cbn [snd] in ML. lia. }
           assert (Sk : skipn (N.to_nat (ll_overhead c)) tb = b ++ skipn (length (mem c (2, b))) (tbuf s)).
           { unfold tb. rewrite skipn_app_le.
             - now rewrite skipn_mem.
             - pose proof (mem_length c (2, b)) as ML. unfold lenN in ML. cbn [snd] in ML. lia. }
           rewrite Sk, read16_app by lia.
           assert (Esz : (read16 b + overall_overhead c) mod 65536 = ll_overhead c + lenN b).
           { rewrite N.mod_small; unfold overall_overhead, l2cap_header_size in *; lia. }
           rewrite Esz.
           set (s1 := set_tx s tb (ll_overhead c + lenN b) 0).
           assert (HT1 : tx_rel true c s1 (Some (b, false))).
           { simpl. repeat split; try lia.
             pose proof (mem_length c (2, b)) as ML. cbn [snd] in ML. rewrite <- ML.
             unfold tb, nn, lenN. rewrite Nat2N.id, firstn_app_le, firstn_all by lia. apply skipn_mem. }
           destruct (try_send_ok c WF g s1 (Some (b, false)) HT1) as (s2 & sent & cur' & T & J & HT2 & F); [exact Hrg|].
           rewrite T. intros E; inv E. simpl max_tx in J. rewrite Hmt in J.
           cbn [mstep]. rewrite PRE', PT, SD, J. cbn [andb].
           destruct F as (F1&F2&F3&F4&F5&F6&F7&F8&F9&F10). simpl in *.
           eexists; split; [reflexivity|]. constructor; simpl; rewrite ?PT; try fin.
  - (* LlTx *)
    unfold do_lltx. destruct ((lenN b =? 0) || (27 <? lenN b))%bool eqn:PRE.
    + intros E; inv E. cbn [mstep]. rewrite PRE. eexists; split; [reflexivity|]. constructor; auto.
    + destruct (passthrough c) eqn:PT.
      * destruct a; intros E; inv E; cbn [mstep]; rewrite PRE.
        -- cbn [app]. unfold lastp. cbn [rev app removelast]. rewrite pdu_eqb_refl. cbn [negb judge_tx].
           eexists; split; [reflexivity|]. constructor; simpl; rewrite ?PT; try fin.
        -- cbn [judge_tx]. eexists; split; [reflexivity|].
           constructor; simpl; rewrite ?PT, ?app_nil_r; try fin.
      * destruct (try_send_ok c WF g s (m_sdu m)) as (s1 & sent & cur' & T & J & HT1 & F); auto using tx_rel_weaken.
        rewrite T. rewrite Hmt in J.
        destruct F as (F1&F2&F3&F4&F5&F6&F7&F8&F9&F10).
        destruct a; intros E; inv E; cbn [mstep]; rewrite PRE.
        -- rewrite lastp_snoc, pdu_eqb_refl, removelast_last, J. cbn [negb].
           eexists; split; [reflexivity|]. constructor; simpl; rewrite ?PT; try fin.
           rewrite F6, Htxq, app_assoc. reflexivity.
        -- rewrite J. eexists; split; [reflexivity|]. constructor; simpl; rewrite ?PT; try fin.
  - (* Radio *)
    destruct (txq s) as [|p q] eqn:Q; intros E; inv E; cbn [mstep]; rewrite <- Htxq.
    + eexists; split; [reflexivity|]. constructor; auto; congruence.
    + rewrite pdu_eqb_refl. eexists; split; [reflexivity|]. constructor; simpl; try fin.
  - (* MaxTx *)
    destruct (in_size_range n) eqn:IR; intros E; inv E; cbn [mstep]; rewrite IR.
    + eexists; split; [reflexivity|]. constructor; simpl; try fin.
    + eexists; split; [reflexivity|]. constructor; auto.
  - (* MaxRx *)
    destruct (in_size_range n) eqn:IR; intros E; inv E; cbn [mstep]; rewrite IR.
    + eexists; split; [reflexivity|]. constructor; simpl; try fin.
    + eexists; split; [reflexivity|]. constructor; auto.
Qed.

Lemma run_accepted c : wf_cfg c ->
  forall ops s m pos, R c s m -> monitor_from c m pos (run c s ops) = None.
Proof.
  intros WF. induction ops as [|o ops IH]; intros s m pos HR; simpl; auto.
  destruct (step c s o) as [s' ro] eqn:E.
  destruct (step_ok c s m o s' ro WF HR E) as (m' & M & HR').
  simpl. rewrite M. apply IH. exact HR'.
Qed.

(* the monitor accepts every trace of the model *)
Theorem monitor_accepts_model : forall c ops, wf_cfg c -> monitor c (run c (init c) ops) = None.
Proof. intros c ops WF. apply run_accepted; auto. apply init_R. Qed.

(* the model never reaches its Fault outcome: no read or write outside receive_buffer_,
   transmit_buffer_ or an allocated transmit PDU *)
Lemma run_no_fault c : wf_cfg c ->
  forall ops s m, R c s m ->
    Forall (fun x => fst (snd x) <> RFault) (run c s ops) /\ faulted (final c s ops) = false.
Proof.
  intros WF. induction ops as [|o ops IH]; intros s m HR; simpl.
  - split; auto. apply HR.
  - destruct (step c s o) as [s' ro] eqn:E.
    destruct (step_ok c s m o s' ro WF HR E) as (m' & M & HR').
    destruct (IH s' m' HR') as (I1 & I2). simpl. split; auto.
    constructor; auto. simpl.
    destruct ro as [r txs]. simpl. intros ->. unfold mstep in M. discriminate.
Qed.

Theorem model_never_faults : forall c ops, wf_cfg c ->
  Forall (fun x => fst (snd x) <> RFault) (run c (init c) ops) /\ faulted (final c (init c) ops) = false.
Proof. intros c ops WF. exact (run_no_fault c WF ops (init c) minit (init_R c)). Qed.
