(* Executable model of bluetoe/link_layer/include/bluetoe/ll_l2cap_sdu_buffer.hpp
   (definitions only, no proofs).

   ll_l2cap_sdu_buffer< BufferedRadio, ReceiveCallbacks, MTUSize > sits on top of a buffered radio
   (ll_data_pdu_buffer, verified separately: C15-C18). The model sees the radio as
     - a FIFO rxq of received data channel PDUs (next_received / free_received),
     - a FIFO txq of committed PDUs (commit_transmit_buffer appends, the radio removes),
     - an allocation oracle for allocate_transmit_buffer that may fail at any call: every operation
       that can allocate carries the number g of allocations that succeed while fragments are pending
       (the next one fails; try_send_pdus() returns at the first failure) and, for
       allocate_ll_transmit_buffer, the answer a for the final allocation.
   A PDU is (LLID, body); its in memory image is  header (2 bytes) ++ gap (layout_overhead bytes) ++
   body, see [mem]. SN / NESN / MD bits of the first header byte are not modelled: the code only reads
   header & 3.

   Transcribed members (primary template):
     receive_buffer_[ MTUSize + overall_overhead ]   rbuf
     receive_size_ (uint16_t)                        rsize
     receive_buffer_used_                            rused
     transmit_buffer_[ MTUSize + overall_overhead ]  tbuf
     transmit_size_ (uint16_t)                       tsize
     transmit_buffer_used_                           tused
   MTUSize = 23 selects the specialisation that forwards everything to the radio ([passthrough]).

   Every read from / write to rbuf, tbuf and the allocated transmit PDU is bounds checked
   ([read_at], [write_at], the checks in [try_send]); an access outside gives the outcome RFault.

   The receive side is the code after the three repairs on branch fix/C19-reassembly-overflow
   (add_to_receive_buffer drops a fragment that is larger than what is missing together with the SDU;
   every start fragment discards an incomplete SDU; free_ll_l2cap_received uses the same condition
   as next_ll_l2cap_received to tell a reassembled SDU from a radio PDU). *)
From BT Require Import Base.ListX.
Local Open Scope N_scope.

Record cfg := mkcfg { mtu : N; oh : N }.     (* MTUSize, layout_overhead *)

Definition header_size : N := 2.
Definition l2cap_header_size : N := 4.
Definition ll_overhead (c : cfg) : N := header_size + oh c.
Definition overall_overhead (c : cfg) : N := ll_overhead c + l2cap_header_size.
Definition bufsize (c : cfg) : N := mtu c + overall_overhead c.
Definition passthrough (c : cfg) : bool := mtu c =? 23.
Definition min_buffer_size : N := 29.
Definition max_buffer_size : N := 251.

Definition pdu := (N * list N)%type.          (* LLID, body *)
Definition lenN (l : list N) : N := N.of_nat (length l).
(* bluetoe::details::read_16bit *)
Definition read16 (b : list N) : N := nth 0 b 0 + 256 * nth 1 b 0.

(* in memory image of a PDU: 16 bit header (LLID, length), layout gap, body *)
Definition mem (c : cfg) (p : pdu) : list N :=
  [fst p; lenN (snd p) mod 256] ++ repeat 0 (N.to_nat (oh c)) ++ snd p.

(* bounds checked array access *)
Definition write_at (buf : list N) (pos : N) (data : list N) : option (list N) :=
  if pos + lenN data <=? lenN buf
  then Some (firstn (N.to_nat pos) buf ++ data ++ skipn (N.to_nat pos + length data) buf)
  else None.

Definition read_at (buf : list N) (pos n : N) : option (list N) :=
  if pos + n <=? lenN buf then Some (firstn (N.to_nat n) (skipn (N.to_nat pos) buf)) else None.

Record state := mk {
  rbuf : list N; rsize : N; rused : N;
  tbuf : list N; tsize : N; tused : N;
  rxq : list pdu; txq : list pdu;           (* the radio's FIFOs, oldest first *)
  max_rx : N; max_tx : N;                   (* max_rx_size(), max_tx_size() of the radio *)
  handed : bool;                            (* next_ll_l2cap_received returned a buffer that is not freed yet *)
  faulted : bool }.

Definition init (c : cfg) : state :=
  mk (repeat 0 (N.to_nat (bufsize c))) 0 0 (repeat 0 (N.to_nat (bufsize c))) 0 0 [] []
     min_buffer_size min_buffer_size false false.

Definition set_rx (s : state) (b : list N) (sz us : N) : state :=
  mk b sz us (tbuf s) (tsize s) (tused s) (rxq s) (txq s) (max_rx s) (max_tx s) (handed s) (faulted s).
Definition set_tx (s : state) (b : list N) (sz us : N) : state :=
  mk (rbuf s) (rsize s) (rused s) b sz us (rxq s) (txq s) (max_rx s) (max_tx s) (handed s) (faulted s).
Definition set_rxq (s : state) (q : list pdu) : state :=
  mk (rbuf s) (rsize s) (rused s) (tbuf s) (tsize s) (tused s) q (txq s) (max_rx s) (max_tx s) (handed s) (faulted s).
Definition set_txq (s : state) (q : list pdu) : state :=
  mk (rbuf s) (rsize s) (rused s) (tbuf s) (tsize s) (tused s) (rxq s) q (max_rx s) (max_tx s) (handed s) (faulted s).
Definition set_max (s : state) (r t : N) : state :=
  mk (rbuf s) (rsize s) (rused s) (tbuf s) (tsize s) (tused s) (rxq s) (txq s) r t (handed s) (faulted s).
Definition set_handed (s : state) (h : bool) : state :=
  mk (rbuf s) (rsize s) (rused s) (tbuf s) (tsize s) (tused s) (rxq s) (txq s) (max_rx s) (max_tx s) h (faulted s).
Definition set_faulted (s : state) : state :=
  mk (rbuf s) (rsize s) (rused s) (tbuf s) (tsize s) (tused s) (rxq s) (txq s) (max_rx s) (max_tx s) (handed s) true.

Inductive res :=
| ROk | RDrop | RTooLong | RNone | RPdu (p : pdu) | RSdu (b : list N)
| RNop | RBusy | RFull | RPre | RFault | RSkipped.
Definition out := (res * list pdu)%type.     (* result, PDUs committed to the radio during the operation *)

Inductive op :=
| Rx (llid : N) (b : list N)                 (* the central sends a data channel PDU *)
| Next (g : nat)                             (* next_ll_l2cap_received() *)
| Free                                       (* free_ll_l2cap_received() *)
| L2Tx (g : nat) (b : list N)                (* allocate_l2cap_transmit_buffer, fill with the SDU b, commit_l2cap_transmit_buffer *)
| LlTx (g : nat) (a : bool) (b : list N)     (* allocate_ll_transmit_buffer, fill, commit_ll_transmit_buffer *)
| Radio                                      (* the radio sent the oldest PDU and got it acknowledged *)
| MaxTx (n : N) | MaxRx (n : N).             (* max_tx_size( n ), max_rx_size( n ) *)

(* ------------------------------------------------------------------ transmit *)

(* try_send_pdus(): while ( transmit_size_ ) { allocate; if failed return; copy; commit } transmit_buffer_used_ = 0;
   g allocations succeed, the next one fails. None = an access outside a buffer. *)
Fixpoint try_send (c : cfg) (g : nat) (s : state) : option (state * list pdu) :=
  if tsize s =? 0 then Some (set_tx s (tbuf s) (tsize s) 0, [])
  else
    match g with
    | O => Some (s, [])
    | S g' =>
        let llo := ll_overhead c in
        let first := tused s =? 0 in
        let bsz := N.min (tsize s + (if first then 0 else llo)) (max_tx s) in   (* buffer.size *)
        if first then
          (* std::copy( &transmit_buffer_[ 0 ], &transmit_buffer_[ copy_size ], buffer.buffer );
             header = pdu_type_start | ( ( copy_size - ll_overhead ) << 8 ) *)
          let cs := N.min bsz (tsize s) in
          if (bsz <? cs) || (cs <? llo) || (256 <=? cs - llo) then None
          else
            match read_at (tbuf s) 0 cs with
            | None => None
            | Some bytes =>
                let p : pdu := (2, skipn (N.to_nat llo) bytes) in
                match try_send c g' (set_txq (set_tx s (tbuf s) (tsize s - cs) (tused s + cs)) (txq s ++ [p])) with
                | None => None
                | Some (s', sent) => Some (s', p :: sent)
                end
            end
        else
          (* body = layout::body( buffer ); copy_size = min( body size, transmit_size_ );
             std::copy( &transmit_buffer_[ used ], &transmit_buffer_[ used + copy_size ], body.first ) *)
          if bsz <? llo then None
          else
            let cs := N.min (bsz - llo) (tsize s) in
            if 256 <=? cs then None
            else
              match read_at (tbuf s) (tused s) cs with
              | None => None
              | Some bytes =>
                  let p : pdu := (1, bytes) in
                  match try_send c g' (set_txq (set_tx s (tbuf s) (tsize s - cs) (tused s + cs)) (txq s ++ [p])) with
                  | None => None
                  | Some (s', sent) => Some (s', p :: sent)
                  end
              end
    end.

(* preconditions of the transmit interface that the caller (L2CAP layer) has to keep: the SDU b (L2CAP
   header and payload) has a payload of at most MTUSize bytes and a correct length field *)
Definition l2tx_pre (c : cfg) (b : list N) : bool :=
  (lenN b <? 4) || (mtu c <? lenN b - 4) || negb (read16 b + 4 =? lenN b).

Definition fault (s : state) : state * out := (set_faulted s, (RFault, [])).

Definition do_l2tx (c : cfg) (g : nat) (b : list N) (s : state) : state * out :=
  if l2tx_pre c b then (s, (RPre, []))
  else if passthrough c then
    match g with
    | O => (s, (RBusy, []))
    | S _ => (set_txq s (txq s ++ [(2, b)]), (ROk, [(2, b)]))
    end
  else if negb (tused s =? 0) || negb (tsize s =? 0) then (s, (RBusy, []))
  else
    (* the caller fills the buffer: LL header (lld_data_pdu_code, size), L2CAP header and payload *)
    match write_at (tbuf s) 0 (mem c (2, b)) with
    | None => fault s
    | Some tb =>
        (* size = read_16bit( body.first ) + overall_overhead; transmit_buffer_used_ = 0; transmit_size_ = size *)
        let size := read16 (skipn (N.to_nat (ll_overhead c)) tb) + overall_overhead c in
        match try_send c g (set_tx s tb (size mod 65536) 0) with
        | None => fault s
        | Some (s', sent) => (s', (ROk, sent))
        end
    end.

Definition do_lltx (c : cfg) (g : nat) (a : bool) (b : list N) (s : state) : state * out :=
  if (lenN b =? 0) || (27 <? lenN b) then (s, (RPre, []))
  else
    let sent1 := if passthrough c then Some (s, []) else try_send c g s in
    match sent1 with
    | None => fault s
    | Some (s1, sent) =>
        if a then (set_txq s1 (txq s1 ++ [(3, b)]), (ROk, sent ++ [(3, b)]))
        else (s1, (RFull, sent))
    end.

(* ------------------------------------------------------------------ receive *)

Definition complete (s : state) : bool := negb (rused s =? 0) && (rsize s =? 0).
Definition reset_rx (s : state) : state := set_rx s (rbuf s) 0 0.
(* body of the write_buffer { receive_buffer_, receive_buffer_used_ } *)
Definition sdu_body (c : cfg) (s : state) : list N :=
  skipn (N.to_nat (ll_overhead c)) (firstn (N.to_nat (rused s)) (rbuf s)).

(* add_to_receive_buffer( begin, end ) *)
Definition add_rx (s : state) (data : list N) : option state :=
  if rsize s <? lenN data then Some (reset_rx s)
  else
    match write_at (rbuf s) (rused s) data with
    | None => None
    | Some b => Some (set_rx s b (rsize s - lenN data) (rused s + lenN data))
    end.

(* the loop of next_ll_l2cap_received() over the received PDUs *)
Fixpoint rx_loop (c : cfg) (s : state) (q : list pdu) : option (state * res) :=
  match q with
  | [] => Some (set_rxq s [], RNone)
  | p :: q' =>
      if fst p =? 3 then Some (set_rxq s q, RPdu p)
      else
        (* ... this->free_received(); if ( receive_buffer_used_ != 0 && receive_size_ == 0 ) return SDU *)
        let after (s' : state) :=
          if complete s' then Some (set_rxq s' q', RSdu (sdu_body c s')) else rx_loop c s' q' in
        if fst p =? 2 then
          let s1 := reset_rx s in
          if 4 <=? lenN (snd p) then
            let l := read16 (snd p) in
            if l + 4 =? lenN (snd p) then Some (set_rxq s1 q, RPdu p)
            else if l <=? mtu c then
              match add_rx (set_rx s1 (rbuf s1) ((l + overall_overhead c) mod 65536) (rused s1)) (mem c p) with
              | None => None
              | Some s2 => after s2
              end
            else after s1
          else after s1
        else
          match add_rx s (snd p) with
          | None => None
          | Some s2 => after s2
          end
  end.

Definition do_next (c : cfg) (g : nat) (s : state) : state * out :=
  if passthrough c then
    match rxq s with
    | [] => (set_handed s false, (RNone, []))
    | p :: _ => (set_handed s true, (RPdu p, []))
    end
  else
    match try_send c g s with
    | None => fault s
    | Some (s1, sent) =>
        if complete s1 then (set_handed s1 true, (RSdu (sdu_body c s1), sent))
        else
          match rx_loop c s1 (rxq s1) with
          | None => fault s
          | Some (s2, r) => (set_handed s2 (match r with RNone => false | _ => true end), (r, sent))
          end
    end.

Definition do_free (c : cfg) (s : state) : state * out :=
  if negb (handed s) then (s, (RNop, []))
  else
    let s1 := set_handed s false in
    if negb (passthrough c) && complete s1 then (reset_rx s1, (ROk, []))
    else (set_rxq s1 (tl (rxq s1)), (ROk, [])).

(* ll_data_pdu_buffer::received(): a PDU with LLID 0 or an empty PDU is not stored; the radio does not
   receive more than max_rx_size() bytes *)
Definition do_rx (llid : N) (b : list N) (s : state) : state * out :=
  if max_rx s <? lenN b + 2 then (s, (RTooLong, []))
  else if (N.land llid 3 =? 0) || (lenN b =? 0) then (s, (RDrop, []))
  else (set_rxq s (rxq s ++ [(N.land llid 3, b)]), (ROk, [])).

Definition in_size_range (n : N) : bool := (min_buffer_size <=? n) && (n <=? max_buffer_size).

Definition step (c : cfg) (s : state) (o : op) : state * out :=
  if faulted s then (s, (RSkipped, []))
  else
    match o with
    | Rx llid b => do_rx llid b s
    | Next g => do_next c g s
    | Free => do_free c s
    | L2Tx g b => do_l2tx c g b s
    | LlTx g a b => do_lltx c g a b s
    | Radio =>
        match txq s with
        | [] => (s, (RNone, []))
        | p :: t => (set_txq s t, (RPdu p, []))
        end
    | MaxTx n => if in_size_range n then (set_max s (max_rx s) n, (ROk, [])) else (s, (RPre, []))
    | MaxRx n => if in_size_range n then (set_max s n (max_tx s), (ROk, [])) else (s, (RPre, []))
    end.

Fixpoint run (c : cfg) (s : state) (ops : list op) : list (op * out) :=
  match ops with
  | [] => []
  | o :: t => let '(s', r) := step c s o in (o, r) :: run c s' t
  end.

Fixpoint final (c : cfg) (s : state) (ops : list op) : state :=
  match ops with
  | [] => s
  | o :: t => final c (fst (step c s o)) t
  end.
