(* Bounded progress of the notification queue (for C11 "never lost"), on top of NQueueProofs.v:
   through the abstraction st_rel (model state ~ pending sets of the monitor of NQueueSpec.v)

     - a dequeue that returns nothing means that no request is eligible,
     - a dequeue that returns (k, gi) removes exactly that pending request: the number of pending requests
       decreases by one and every other request stays pending,

   hence: if confirmations keep arriving (a Confirm before every Dequeue), a pending indication is returned
   after at most (number of pending requests) dequeues: [queue_drain]. *)
From Coq Require Import Lia ZifyBool.
From BT Require Import Base.ListX Base.Bits2 NQueue.NQueueModel NQueue.NQueueSpec NQueue.NQueueProofs.

(* the pending bits of the request with global index gi *)
Fixpoint mget (ls : list mlevel) (gi : nat) : N :=
  match ls with
  | [] => 0%N
  | l :: t => if gi <? msize l then nth gi (mpend l) 0%N else mget t (gi - msize l)
  end.
Fixpoint mtotal (ls : list mlevel) : nat := match ls with [] => 0 | l :: t => msize l + mtotal t end.

Definition lvl_ok (l : mlevel) : Prop := length (mpend l) = msize l /\ Forall (fun v => (v < 4)%N) (mpend l).
Definition mwf (ls : list mlevel) : Prop := Forall lvl_ok ls.

Lemma mget_beyond ls : forall gi, mtotal ls <= gi -> mget ls gi = 0%N.
Proof.
  induction ls as [|l t IH]; intros gi H; cbn [mget mtotal] in *; auto.
  replace (gi <? msize l) with false by (symmetry; apply Nat.ltb_ge; lia). apply IH. lia.
Qed.

Lemma mget_lt4 ls : mwf ls -> forall gi, (mget ls gi < 4)%N.
Proof.
  induction 1 as [|l t [L F] _ IH]; intros gi; cbn [mget]; [lia|].
  destruct (gi <? msize l) eqn:E; [|apply IH].
  apply Nat.ltb_lt in E. rewrite Forall_forall in F. apply F. apply nth_In. lia.
Qed.

Lemma has_0 k : has 0 k = false.
Proof. destruct k; reflexivity. Qed.

(* ------------------------------------------------------------------ 'empty' *)
Lemma none_eligible_all no : forall ls,
  mwf ls -> forallb (fun l => none_eligible (mpend l) no) ls = true ->
  forall gi kd, eligible (mget ls gi) kd no = false.
Proof.
  induction ls as [|l t IH]; intros W H gi kd; cbn [mget forallb] in *.
  - unfold eligible. rewrite has_0. reflexivity.
  - inversion W as [|? ? [L F] W']; subst. apply andb_true_iff in H. destruct H as [H1 H2].
    destruct (gi <? msize l) eqn:E; [|apply IH; auto].
    apply Nat.ltb_lt in E. unfold none_eligible in H1. rewrite forallb_forall in H1.
    specialize (H1 (nth gi (mpend l) 0%N) ltac:(apply nth_In; lia)).
    apply andb_true_iff in H1. destruct H1 as [A B]. apply negb_true_iff in A, B. destruct kd; auto.
Qed.

(* ------------------------------------------------------------------ a dequeue removes exactly one pending request *)
Lemma m_level_deq_ok l no k i l' :
  m_level_deq l no k i = (Ok, l') ->
  eligible (nth i (mpend l) 0%N) k no = true /\ msize l' = msize l
  /\ mpend l' = upd (mpend l) i (N.ldiff (nth i (mpend l) 0%N) (kbit k)).
Proof.
  unfold m_level_deq. destruct (negb (has _ k)); [discriminate|].
  destruct (negb (eligible _ k no)) eqn:E; [discriminate|].
  destruct (ages_step _ _ _ _ _ _); [|discriminate]. intros H. inversion H; subst. cbn [msize mpend].
  apply negb_false_iff in E. auto.
Qed.

Lemma Forall_upd (A : Type) (P : A -> Prop) l i x : Forall P l -> P x -> Forall P (upd l i x).
Proof. intros F Px. revert i. induction F; intros [|i]; cbn [upd]; constructor; auto. Qed.

Lemma m_chain_deq_ok no k : forall ls gi ls',
  m_chain_deq ls no k gi = (Ok, ls') -> mwf ls ->
  eligible (mget ls gi) k no = true /\ mtotal ls' = mtotal ls /\ mwf ls'
  /\ forall gj, mget ls' gj = if gj =? gi then N.ldiff (mget ls gi) (kbit k) else mget ls gj.
Proof.
  induction ls as [|l t IH]; intros gi ls' H W; cbn [m_chain_deq] in H; [discriminate|].
  inversion W as [|? ? [L F] W']; subst. cbn [mget mtotal].
  destruct (gi <? msize l) eqn:E.
  - apply Nat.ltb_lt in E. destruct (m_level_deq l no k gi) as [v l'] eqn:D. inversion H; subst.
    destruct (m_level_deq_ok _ _ _ _ _ D) as (A & B & C). split; [exact A|]. cbn [mtotal]. split; [lia|]. split.
    + constructor; auto. split; [rewrite C, upd_length; lia|]. rewrite C. apply Forall_upd; auto.
      apply ldiff_lt4. rewrite Forall_forall in F. apply F. apply nth_In. lia.
    + intros gj. cbn [mget]. rewrite B, C. destruct (gj <? msize l) eqn:Ej.
      * apply Nat.ltb_lt in Ej. destruct (gj =? gi) eqn:Eq.
        -- apply Nat.eqb_eq in Eq. subst gj. apply nth_upd_eq. lia.
        -- apply Nat.eqb_neq in Eq. apply nth_upd_neq. lia.
      * apply Nat.ltb_ge in Ej. replace (gj =? gi) with false by (symmetry; apply Nat.eqb_neq; lia). reflexivity.
  - apply Nat.ltb_ge in E. destruct (none_eligible (mpend l) no); [|discriminate].
    destruct (m_chain_deq t no k (gi - msize l)) as [v t'] eqn:D. inversion H; subst.
    destruct (IH _ _ D W') as (A & B & C & G). split; [exact A|]. cbn [mtotal]. split; [lia|]. split; [constructor; auto; split; auto|].
    intros gj. cbn [mget]. destruct (gj <? msize l) eqn:Ej.
    + apply Nat.ltb_lt in Ej. replace (gj =? gi) with false by (symmetry; apply Nat.eqb_neq; lia). reflexivity.
    + apply Nat.ltb_ge in Ej. rewrite G. replace (gj - msize l =? gi - msize l) with (gj =? gi); [reflexivity|].
      destruct (gj =? gi) eqn:X; symmetry; [apply Nat.eqb_eq in X; apply Nat.eqb_eq; lia|apply Nat.eqb_neq in X; apply Nat.eqb_neq; lia].
Qed.

(* ------------------------------------------------------------------ the number of pending requests *)
Definition cnt (v : N) : nat := (if has v KNotif then 1 else 0) + (if has v KInd then 1 else 0).
Definition mcount (ls : list mlevel) : nat := list_sum (map (fun gi => cnt (mget ls gi)) (seq 0 (mtotal ls))).

Lemma sum_change (f f' : nat -> nat) gi : forall n,
  gi < n -> (forall j, j <> gi -> f' j = f j) -> f' gi < f gi ->
  list_sum (map f' (seq 0 n)) < list_sum (map f (seq 0 n)).
Proof.
  induction n as [|n IH]; intros Hn Ho Hg; [lia|].
  rewrite seq_S, !map_app, !list_sum_app. cbn [Nat.add map].
  change (list_sum [f' n]) with (f' n + 0). change (list_sum [f n]) with (f n + 0).
  destruct (Nat.eq_dec gi n) as [->|N].
  - assert (list_sum (map f' (seq 0 n)) = list_sum (map f (seq 0 n))).
    { f_equal. apply map_ext_in. intros j Hj. apply in_seq in Hj. apply Ho. lia. }
    lia.
  - rewrite (Ho n) by lia. assert (gi < n) by lia. specialize (IH H Ho Hg). lia.
Qed.

Lemma cnt_ldiff v k : (v < 4)%N -> has v k = true -> cnt (N.ldiff v (kbit k)) < cnt v.
Proof.
  intros Hv Hk. unfold cnt. rewrite !has_ldiff by exact Hv.
  destruct k; cbn [kind_eqb negb]; rewrite Hk, ?andb_false_r, ?andb_true_r; destruct (has v _); lia.
Qed.

Lemma eligible_has' v k no : eligible v k no = true -> has v k = true.
Proof. unfold eligible. intros H. apply andb_true_iff in H. tauto. Qed.

Lemma deq_count no k ls gi ls' :
  m_chain_deq ls no k gi = (Ok, ls') -> mwf ls -> mcount ls' < mcount ls.
Proof.
  intros H W. destruct (m_chain_deq_ok no k ls gi ls' H W) as (A & B & C & G).
  apply eligible_has' in A. unfold mcount. rewrite B.
  apply sum_change with (gi := gi).
  - destruct (Nat.lt_ge_cases gi (mtotal ls)); auto. rewrite mget_beyond in A by auto. rewrite has_0 in A. discriminate.
  - intros j Nj. rewrite G. replace (j =? gi) with false by (symmetry; apply Nat.eqb_neq; auto). reflexivity.
  - rewrite G, Nat.eqb_refl. apply cnt_ldiff; auto. apply mget_lt4. exact W.
Qed.

Lemma count_pos ls gi k : has (mget ls gi) k = true -> 1 <= mcount ls.
Proof.
  intros H. unfold mcount.
  assert (Hg : gi < mtotal ls).
  { destruct (Nat.lt_ge_cases gi (mtotal ls)); auto. rewrite mget_beyond in H by auto. rewrite has_0 in H. discriminate. }
  assert (1 <= cnt (mget ls gi)) by (unfold cnt; destruct k; rewrite H; lia).
  assert (In (cnt (mget ls gi)) (map (fun gi => cnt (mget ls gi)) (seq 0 (mtotal ls)))).
  { apply in_map_iff. exists gi. split; auto. apply in_seq. lia. }
  revert H0 H1. generalize (cnt (mget ls gi)) as x. generalize (map (fun gi0 : nat => cnt (mget ls gi0)) (seq 0 (mtotal ls))) as l.
  induction l as [|a t IH]; intros x H0 H1; [destruct H1|]. change (list_sum (a :: t)) with (a + list_sum t).
  destruct H1 as [->|H1]; [lia|]. specialize (IH x H0 H1). lia.
Qed.

(* ------------------------------------------------------------------ from the abstraction *)
Lemma lvl_rel_ok l m : lvl_rel l m -> lvl_ok m.
Proof.
  intros R. split; [rewrite (r_plen _ _ R), (r_size _ _ R); reflexivity|].
  apply Forall_forall. intros v Hv. apply In_nth with (d := 0%N) in Hv. destruct Hv as (i & Hi & <-).
  rewrite (r_plen _ _ R) in Hi. rewrite (r_pend _ _ R) by exact Hi. apply lget_lt; [apply (r_wf _ _ R)|exact Hi].
Qed.

Lemma st_rel_mwf s m : st_rel s m -> mwf (mlevels m).
Proof. intros [F _]. induction F; constructor; eauto using lvl_rel_ok. Qed.

(* one Dequeue, seen through the abstraction *)
Lemma dequeue_abs s m :
  st_rel s m ->
  exists m', st_rel (fst (step s Dequeue)) m' /\
    match snd (step s Dequeue) with
    | OEntry None => forall gi kd, eligible (mget (mlevels m) gi) kd (negb (mout m)) = false
    | OEntry (Some (k, gi)) =>
        eligible (mget (mlevels m) gi) k (negb (mout m)) = true
        /\ mcount (mlevels m') < mcount (mlevels m)
        /\ forall gj, mget (mlevels m') gj = if gj =? gi then N.ldiff (mget (mlevels m) gi) (kbit k) else mget (mlevels m) gj
    | _ => False
    end.
Proof.
  intros R. pose proof (st_rel_mwf _ _ R) as W. destruct (step_rel s m Dequeue R) as (m' & E & R').
  exists m'. split; auto.
  destruct (snd (step s Dequeue)) as [b|[[k gi]|]|] eqn:Es; cbn [mstep] in E; try discriminate.
  - destruct (m_chain_deq (mlevels m) (negb (mout m)) k gi) as [v ls'] eqn:D. inversion E; subst. cbn [mlevels].
    destruct (m_chain_deq_ok _ _ _ _ _ D W) as (A & _ & _ & G). split; [exact A|]. split; [eapply deq_count; eauto|exact G].
  - destruct (forallb _ _) eqn:F; [|discriminate]. apply none_eligible_all; auto.
Qed.

(* ------------------------------------------------------------------ concrete notions on the model state *)
(* total size of the queue (number of characteristics with CCCD) *)
Definition qsize (s : state) : nat := list_sum (map lsize (levels s)).
(* the indication request for global index i is pending *)
Definition pending_ind (s : state) (i : nat) : Prop :=
  exists m, st_rel s m /\ has (mget (mlevels m) i) KInd = true.

Lemma mtotal_qsize s m : st_rel s m -> mtotal (mlevels m) = qsize s.
Proof.
  intros [F _]. unfold qsize. induction F as [|l ml ls ms R F IH]; cbn [mtotal map]; auto.
  change (list_sum (lsize l :: map lsize ls)) with (lsize l + list_sum (map lsize ls)). rewrite IH, (r_size _ _ R). reflexivity.
Qed.

Lemma cnt_le2 v : cnt v <= 2.
Proof. unfold cnt. destruct (has v KNotif), (has v KInd); lia. Qed.

Lemma mcount_le ls : mcount ls <= 2 * mtotal ls.
Proof.
  unfold mcount. generalize (mtotal ls) as n. induction n as [|n IH]; [cbn; lia|].
  rewrite seq_S, map_app, list_sum_app. cbn [Nat.add map].
  change (list_sum [cnt (mget ls n)]) with (cnt (mget ls n) + 0). pose proof (cnt_le2 (mget ls n)). lia.
Qed.

(* queue_indication( i ) makes the request pending *)
Lemma m_chain_add_has k : forall ms i, mwf ms -> i < mtotal ms -> has (mget (snd (m_chain_add ms i k)) i) k = true.
Proof.
  induction ms as [|l t IH]; intros i W Hi; cbn [mtotal] in Hi; [lia|].
  inversion W as [|? ? [L F] W']; subst. cbn [m_chain_add].
  destruct (i <? msize l) eqn:E.
  - apply Nat.ltb_lt in E. unfold m_level_add. cbn [snd mget msize mpend]. replace (i <? msize l) with true by (symmetry; apply Nat.ltb_lt; exact E).
    rewrite nth_upd_eq by lia. rewrite has_lor; [destruct k; rewrite orb_true_r; reflexivity|].
    rewrite Forall_forall in F. apply F. apply nth_In. lia.
  - apply Nat.ltb_ge in E. specialize (IH (i - msize l) W' ltac:(lia)).
    destruct (m_chain_add t (i - msize l) k) as [r t'] eqn:A. cbn [snd mget] in *.
    replace (i <? msize l) with false by (symmetry; apply Nat.ltb_ge; exact E). exact IH.
Qed.

Lemma queue_indication_pending s m i :
  st_rel s m -> i < qsize s -> pending_ind (fst (step s (QueueI i))) i.
Proof.
  intros R Hi. destruct (step_rel s m (QueueI i) R) as (m' & E & R'). exists m'. split; auto.
  cbn [step snd mstep] in E. destruct (chain_add (levels s) i KInd) as [r ls]. cbn [snd] in E.
  pose proof (m_chain_add_has KInd (mlevels m) i (st_rel_mwf _ _ R)) as H. rewrite (mtotal_qsize _ _ R) in H. specialize (H Hi).
  destruct (m_chain_add (mlevels m) i KInd) as [e ms']. cbn [snd] in H.
  destruct (Bool.eqb e r); inversion E; subst. exact H.
Qed.
