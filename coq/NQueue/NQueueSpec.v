(* Abstract specification and executable monitor for the outgoing notification queue
   (properties C12, and the queue level of C11).

   The monitor looks only at operations and their observed outputs. Beside the trace it keeps
   the abstract object of the property: per priority level the set of pending
   (characteristic, kind) requests (two bits per characteristic, unpacked), whether an
   indication is outstanding, and for every pending request an age = the number of consecutive
   dequeues from its level that returned another characteristic while the request was eligible.

   Clauses checked (tags are the violation tags the runner reports):
     newly_queued  queue_* returns true exactly when the request was not pending
     deq_pending   a dequeued request was pending (and is removed: exactly once)
     deq_outst     no indication is dequeued while one is outstanding
     deq_priority  all higher priority levels had no eligible request
     deq_empty     'empty' is returned only if no level has an eligible request
     deq_round     within a level an eligible request waits for at most Size-1 dequeues of
                   other characteristics of that level (round robin)
   An eligible request is a pending notification, or a pending indication while none is
   outstanding. *)
From BT Require Import Base.ListX Base.Bits2 NQueue.NQueueModel.
Local Open Scope N_scope.

Record mlevel := mkl { msize : nat; mpend : list N; mages : list (nat * nat) }.
Record mon := mkm { mlevels : list mlevel; mout : bool (* an indication is outstanding *) }.

Definition minit_level (s : nat) : mlevel := mkl s (repeat 0 s) (repeat (O, O) s).
Definition minit (sizes : list nat) : mon := mkm (map minit_level sizes) false.

Definition has (v : N) (k : kind) : bool := negb (N.land v (kbit k) =? 0).
Definition eligible (v : N) (k : kind) (no_out : bool) : bool :=
  has v k && match k with KNotif => true | KInd => no_out end.
Definition none_eligible (p : list N) (no_out : bool) : bool :=
  forallb (fun v => negb (eligible v KNotif no_out) && negb (eligible v KInd no_out)) p.

Definition age_of (a : nat * nat) (k : kind) : nat := match k with KNotif => fst a | KInd => snd a end.
Definition set_age (a : nat * nat) (k : kind) (x : nat) : nat * nat :=
  match k with KNotif => (x, snd a) | KInd => (fst a, x) end.

Inductive verdict := Ok | Bad (tag : nat).
(* tags *)
Definition t_newly_queued := 1%nat.
Definition t_deq_pending := 2%nat.
Definition t_deq_outst := 3%nat.
Definition t_deq_priority := 4%nat.
Definition t_deq_empty := 5%nat.
Definition t_deq_round := 6%nat.
Definition t_shape := 7%nat.    (* output of the wrong kind for the operation *)

(* queue_* on one level *)
Definition m_level_add (l : mlevel) (i : nat) (k : kind) : bool * mlevel :=
  let v := nth i (mpend l) 0 in
  let fresh := negb (has v k) in
  (fresh,
   mkl (msize l) (upd (mpend l) i (N.lor v (kbit k)))
       (if fresh then upd (mages l) i (set_age (nth i (mages l) (O, O)) k 0) else mages l)).

Fixpoint m_chain_add (ls : list mlevel) (i : nat) (k : kind) : bool * list mlevel :=
  match ls with
  | [] => (false, [])
  | l :: t =>
      if Nat.ltb i (msize l) then let '(r, l') := m_level_add l i k in (r, l' :: t)
      else let '(r, t') := m_chain_add t (i - msize l) k in (r, l :: t')
  end.

(* ages after characteristic i0 of this level was dequeued; None = round robin bound broken *)
Definition age_step (sz : nat) (no_out : bool) (i0 j : nat) (v : N) (a : nat * nat) : option (nat * nat) :=
  if Nat.eqb j i0 then Some (O, O)
  else
    let one k :=
      if eligible v k no_out then
        (if Nat.leb (age_of a k + 2) sz then Some (S (age_of a k)) else None)
      else Some O in
    match one KNotif, one KInd with
    | Some x, Some y => Some (x, y)
    | _, _ => None
    end.

Fixpoint ages_step (sz : nat) (no_out : bool) (i0 j : nat) (p : list N) (ages : list (nat * nat))
  : option (list (nat * nat)) :=
  match p, ages with
  | v :: p', a :: ages' =>
      match age_step sz no_out i0 j v a, ages_step sz no_out i0 (S j) p' ages' with
      | Some a', Some r => Some (a' :: r)
      | _, _ => None
      end
  | _, _ => Some []
  end.

(* the observed dequeue result (k, i) with i local to this level *)
Definition m_level_deq (l : mlevel) (no_out : bool) (k : kind) (i : nat) : verdict * mlevel :=
  let v := nth i (mpend l) 0 in
  if negb (has v k) then (Bad t_deq_pending, l)
  else if negb (eligible v k no_out) then (Bad t_deq_outst, l)
  else match ages_step (msize l) no_out i O (mpend l) (mages l) with
       | None => (Bad t_deq_round, l)
       | Some ages' => (Ok, mkl (msize l) (upd (mpend l) i (N.ldiff v (kbit k))) ages')
       end.

Fixpoint m_chain_deq (ls : list mlevel) (no_out : bool) (k : kind) (gi : nat) : verdict * list mlevel :=
  match ls with
  | [] => (Bad t_deq_pending, [])
  | l :: t =>
      if Nat.ltb gi (msize l) then
        let '(v, l') := m_level_deq l no_out k gi in (v, l' :: t)
      else if none_eligible (mpend l) no_out then
        let '(v, t') := m_chain_deq t no_out k (gi - msize l) in (v, l :: t')
      else (Bad t_deq_priority, ls)
  end.

Definition m_clear_level (l : mlevel) : mlevel := minit_level (msize l).

Definition mstep (m : mon) (o : op) (r : out) : verdict * mon :=
  match o, r with
  | QueueN i, OBool b =>
      let '(e, ls) := m_chain_add (mlevels m) i KNotif in
      (if Bool.eqb e b then Ok else Bad t_newly_queued, mkm ls (mout m))
  | QueueI i, OBool b =>
      let '(e, ls) := m_chain_add (mlevels m) i KInd in
      (if Bool.eqb e b then Ok else Bad t_newly_queued, mkm ls (mout m))
  | Dequeue, OEntry None =>
      (if forallb (fun l => none_eligible (mpend l) (negb (mout m))) (mlevels m) then Ok else Bad t_deq_empty, m)
  | Dequeue, OEntry (Some (k, gi)) =>
      let '(v, ls) := m_chain_deq (mlevels m) (negb (mout m)) k gi in
      (v, mkm ls (match k with KInd => true | KNotif => mout m end))
  | Confirm, OUnit => (Ok, mkm (mlevels m) false)
  | Clear, OUnit => (Ok, mkm (map m_clear_level (mlevels m)) false)
  | _, _ => (Bad t_shape, m)
  end.

(* first violation of a trace: Some (position, tag); None = property holds on the trace *)
Fixpoint monitor_from (m : mon) (pos : nat) (tr : list (op * out)) : option (nat * nat) :=
  match tr with
  | [] => None
  | (o, r) :: t =>
      match mstep m o r with
      | (Ok, m') => monitor_from m' (S pos) t
      | (Bad tag, _) => Some (pos, tag)
      end
  end.

Definition monitor (sizes : list nat) (tr : list (op * out)) : option (nat * nat) :=
  monitor_from (minit sizes) O tr.

(* configurations: every level holds at least one characteristic *)
Definition wf_sizes (sizes : list nat) : Prop := Forall (fun s => (1 <= s)%nat) sizes.
