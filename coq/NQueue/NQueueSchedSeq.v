(* The lock discipline of the micro-step semantics (NQueueSched) IS the sequential model of C12:
   executing whole operations one after the other (push the operation, then let its context run
   until it has nothing left to do) produces exactly NQueueModel.run's outputs and ends in
   NQueueModel.final's state - for every partition with levels >= 1 and every operation list
   without clear_indications_and_confirmations (which the micro-step semantics does not have).
   Consequently every theorem about NQueueModel's traces (NQueueProofs.monitor_accepts_model, the
   whole of C12) holds of lock-disciplined runs of the micro-step semantics. *)
From BT Require Import Base.ListX Base.Bits2 NQueue.NQueueModel NQueue.NQueueSpec NQueue.NQueueProofs
  NQueue.NQueueSched NQueue.NQueueSchedProofs.
From Coq Require Import Lia.
Local Open Scope nat_scope.

(* ------------------------------------------------------------------ observable results of a run *)
Definition ret1 (o : sout) : list ret :=
  match o with OStep _ r => if done r then [r] else [] | _ => [] end.
Definition rets (tr : list (sop * sout)) : list ret := flat_map (fun x => ret1 (snd x)) tr.
Definition out_of_ret (r : ret) : out :=
  match r with RBool b => OBool b | REntry e => OEntry e | _ => OUnit end.

(* final state and completed results in one pass *)
Fixpoint exec (s : sys) (l : list sop) : sys * list ret :=
  match l with
  | [] => (s, [])
  | o :: t => (fst (exec (fst (sstep s o)) t), ret1 (snd (sstep s o)) ++ snd (exec (fst (sstep s o)) t))
  end.

Lemma exec_spec : forall l s, exec s l = (sfinal s l, rets (srun s l)).
Proof.
  induction l as [|o t IH]; intros s; simpl; auto.
  rewrite IH. destruct (sstep s o) as [s' r]. reflexivity.
Qed.

Lemma exec_app : forall l1 l2 s,
  exec s (l1 ++ l2) = (fst (exec (fst (exec s l1)) l2), snd (exec s l1) ++ snd (exec (fst (exec s l1)) l2)).
Proof.
  induction l1 as [|o t IH]; intros l2 s; simpl.
  - destruct (exec s l2); reflexivity.
  - rewrite IH. simpl. rewrite app_assoc. reflexivity.
Qed.

Lemma exec_cons o t s :
  exec s (o :: t) = (fst (exec (fst (sstep s o)) t), ret1 (snd (sstep s o)) ++ snd (exec (fst (sstep s o)) t)).
Proof. reflexivity. Qed.

Lemma repeat_app_le (A : Type) (x : A) m F : m <= F -> repeat x F = repeat x m ++ repeat x (F - m).
Proof. intros H. rewrite <- repeat_app. f_equal. lia. Qed.

Lemma exec_idleP ls ou cp cs : forall m,
  exec (mks ls ou [] PIdle cp cs) (repeat StepP m) = (mks ls ou [] PIdle cp cs, []).
Proof. induction m; simpl; auto. rewrite IHm. reflexivity. Qed.

Lemma exec_idleC ls ou pp ps : forall m,
  exec (mks ls ou pp ps [] CIdle) (repeat StepC m) = (mks ls ou pp ps [] CIdle, []).
Proof. induction m; simpl; auto. rewrite IHm. reflexivity. Qed.

(* ------------------------------------------------------------------ queue_notification / queue_indication *)
Lemma level_add_micro l i k :
  i < lsize l ->
  level_add l i k =
  ((N.land (nth (boff i) (lbytes l) 0%N) (N.shiftl (kbit k) (sh (slot i))) =? 0)%N,
   lput l (boff i) (byte_or (nth (boff i) (lbytes l) 0%N) (slot i) (kbit k))).
Proof.
  destruct l as [s n q|st]; simpl; intros Hi.
  - reflexivity.
  - assert (i = 0) by lia. subst i. destruct k; reflexivity.
Qed.

Lemma chain_add_locate : forall ls lv0 gi k,
  chain_add ls gi k =
  match locate (map lsize ls) lv0 gi with
  | None => (false, ls)
  | Some (lv, i) =>
      (fst (level_add (nth (lv - lv0) ls dlevel) i k),
       upd ls (lv - lv0) (snd (level_add (nth (lv - lv0) ls dlevel) i k)))
  end.
Proof.
  induction ls as [|l t IH]; intros lv0 gi k; simpl; auto.
  destruct (gi <? lsize l) eqn:E.
  - rewrite Nat.sub_diag. simpl. destruct (level_add l gi k); reflexivity.
  - rewrite (IH (S lv0)). destruct (locate (map lsize t) (S lv0) (gi - lsize l)) as [[lv i]|] eqn:L; auto.
    apply locate_bound in L. destruct L as (A & _).
    replace (lv - lv0) with (S (lv - S lv0)) by lia. reflexivity.
Qed.

Lemma exec_step s o t s' r :
  sstep s o = (s', r) -> exec s (o :: t) = (fst (exec s' t), ret1 r ++ snd (exec s' t)).
Proof. intros H. rewrite exec_cons, H. reflexivity. Qed.

Ltac norm := cbn [mem outst pprog pst cprog cst app ret1 done tl fst snd].

Lemma stepP_first ls ou k gi pr cp cs :
  sstep (mks ls ou ((k, gi) :: pr) PIdle cp cs) StepP =
  match locate (map lsize ls) 0 gi with
  | None => (mks ls ou pr PIdle cp cs, OStep ANone (RBool false))
  | Some (lv, i) =>
      (mks ls ou ((k, gi) :: pr)
           (PLoad2 (lv, boff i) (slot i) k
              (N.land (mload ls (lv, boff i)) (N.shiftl (kbit k) (sh (slot i))) =? 0)%N) cp cs,
       OStep (ALoad (lv, boff i) (mload ls (lv, boff i))) RNone)
  end.
Proof. unfold sstep. simpl. destruct (locate (map lsize ls) 0 gi) as [[lv i]|]; reflexivity. Qed.

Lemma exec_queue ls ou cp cs k gi F :
  3 <= F ->
  exec (mks ls ou [] PIdle cp cs) (PushP k gi :: repeat StepP F) =
  (mks (snd (chain_add ls gi k)) ou [] PIdle cp cs, [RBool (fst (chain_add ls gi k))]).
Proof.
  intros HF. destruct F as [|[|[|F]]]; try lia.
  rewrite (chain_add_locate ls 0 gi k). cbn [repeat].
  erewrite exec_step by reflexivity. norm.
  destruct (locate (map lsize ls) 0 gi) as [[lv i]|] eqn:L.
  - erewrite exec_step by (rewrite stepP_first, L; reflexivity).
    norm. erewrite exec_step by reflexivity. norm.
    erewrite exec_step by reflexivity. norm.
    rewrite exec_idleP. norm.
    apply locate_bound in L. rewrite Nat.sub_0_r in *. destruct L as (_ & L1 & L2).
    rewrite <- lsize_nth in L2.
    rewrite (level_add_micro _ _ k L2). unfold mstore, mload. cbn [fst snd]. reflexivity.
  - erewrite exec_step by (rewrite stepP_first, L; reflexivity).
    norm. change (StepP :: StepP :: repeat StepP F) with (repeat StepP (S (S F))). rewrite exec_idleP. reflexivity.
Qed.

(* ------------------------------------------------------------------ positions in the chain *)
Lemma nth_mid (A : Type) (pre : list A) l suf d : nth (length pre) (pre ++ l :: suf) d = l.
Proof. induction pre; simpl; auto. Qed.

Lemma upd_mid (A : Type) (pre : list A) l l' suf : upd (pre ++ l :: suf) (length pre) l' = pre ++ l' :: suf.
Proof. induction pre; simpl; auto. f_equal. auto. Qed.

Lemma enter_mid pre suf off :
  enter (pre ++ suf) (length pre) off =
  match suf with
  | [] => None
  | General s n _ :: _ => Some (CScan (length pre) off s n)
  | Single _ :: _ => Some (CSingI (length pre) off)
  end.
Proof.
  unfold enter. replace (nth_error (pre ++ suf) (length pre)) with (nth_error suf 0).
  - destruct suf as [|[s n q|st] t]; reflexivity.
  - induction pre; simpl; auto.
Qed.

Lemma stepC_apply ls ou pp ps cp c :
  c <> CIdle -> sstep (mks ls ou pp ps cp c) StepC = c_apply (mks ls ou pp ps cp c) c.
Proof. destruct c; try congruence; reflexivity. Qed.

Lemma mload_mid pre l suf b : mload (pre ++ l :: suf) (length pre, b) = nth b (lbytes l) 0%N.
Proof. unfold mload. cbn [fst snd]. rewrite nth_mid. reflexivity. Qed.

Lemma mstore_mid pre l suf b v : mstore (pre ++ l :: suf) (length pre, b) v = pre ++ lput l b v :: suf.
Proof. unfold mstore. cbn [fst snd]. rewrite nth_mid, upd_mid. reflexivity. Qed.

Lemma set_next_mid pre l suf n : set_next (pre ++ l :: suf) (length pre) n = pre ++ lset_next l n :: suf.
Proof. unfold set_next. rewrite nth_mid, upd_mid. reflexivity. Qed.

(* the two micro-steps of remove(), for a level in the middle of the chain *)
Lemma exec_remove pre l suf ou pp ps rest p k gi b m :
  exec (mks (pre ++ l :: suf) ou pp ps (CDeq :: rest) (CRem (length pre, b) p k gi)) (StepC :: StepC :: repeat StepC m) =
  (fst (exec (mks (pre ++ lput l b (byte_clr (nth b (lbytes l) 0%N) p (kbit k)) :: suf) ou pp ps rest CIdle) (repeat StepC m)),
   REntry (Some (k, gi)) :: snd (exec (mks (pre ++ lput l b (byte_clr (nth b (lbytes l) 0%N) p (kbit k)) :: suf) ou pp ps rest CIdle) (repeat StepC m))).
Proof.
  erewrite exec_step by (rewrite stepC_apply by discriminate; reflexivity). norm.
  erewrite exec_step by (rewrite stepC_apply by discriminate; reflexivity). norm.
  rewrite mload_mid, mstore_mid. reflexivity.
Qed.

(* ------------------------------------------------------------------ dequeue_indication_or_confirmation *)
Section Consumer.
  Variables (rest : list cop) (pp : list (kind * nat)) (ps : pstate).

  Lemma step_scan pre sz n q suf ou off fuel i :
    sstep (mks (pre ++ General sz n q :: suf) ou pp ps (CDeq :: rest) (CScan (length pre) off fuel i)) StepC =
    let ls := pre ++ General sz n q :: suf in
    let nl := c_next_level ls (S (length pre)) (off + sz) in
    let a := (length pre, boff i) in
    let v := nth (boff i) q 0%N in
    if negb (N.land (get2 q i) 2 =? 0)%N && is_none ou then
      (mks (pre ++ General sz ((i + 1) mod sz) q :: suf) (Some (i + off)) pp ps (CDeq :: rest)
           (CRem a (slot i) KInd (i + off)), OStep (ALoad a v) RNone)
    else if negb (N.land (get2 q i) 1 =? 0)%N then
      (mks (pre ++ General sz ((i + 1) mod sz) q :: suf) ou pp ps (CDeq :: rest)
           (CRem a (slot i) KNotif (i + off)), OStep (ALoad a v) RNone)
    else match fuel with
         | S (S f) => (mks ls ou pp ps (CDeq :: rest) (CScan (length pre) off (S f) ((i + 1) mod sz)),
                       OStep (ALoad a v) RNone)
         | _ => (mks ls ou pp ps (if done (snd nl) then rest else CDeq :: rest) (fst nl),
                 OStep (ALoad a v) (snd nl))
         end.
  Proof.
    rewrite stepC_apply by discriminate. unfold c_apply, c_micro. norm.
    rewrite mload_mid, set_next_mid, nth_mid. cbn [lbytes lsize lset_next]. unfold get2.
    destruct (negb (N.land (bget (nth (boff i) q 0%N) (slot i)) 2 =? 0)%N && is_none ou); [reflexivity|].
    destruct (negb (N.land (bget (nth (boff i) q 0%N) (slot i)) 1 =? 0)%N); [reflexivity|].
    destruct fuel as [|[|f]]; try reflexivity;
      destruct (c_next_level (pre ++ General sz n q :: suf) (S (length pre)) (off + sz)); reflexivity.
  Qed.

  Lemma scan_S f sz q i no :
    scan (S f) sz q i no =
    if negb (N.land (get2 q i) 2 =? 0)%N && no then Some (KInd, i)
    else if negb (N.land (get2 q i) 1 =? 0)%N then Some (KNotif, i)
    else scan f sz q ((i + 1) mod sz) no.
  Proof. reflexivity. Qed.

  Lemma scan_steps pre sz q suf off : forall f n i ou,
    match scan (S f) sz q i (is_none ou) with
    | Some (k, i') =>
        exists m, 1 <= m /\ m <= S f + 2 /\
          exec (mks (pre ++ General sz n q :: suf) ou pp ps (CDeq :: rest) (CScan (length pre) off (S f) i))
               (repeat StepC m) =
          (mks (pre ++ General sz ((i' + 1) mod sz) (remove q i' (kbit k)) :: suf)
               (match k with KInd => Some (i' + off) | KNotif => ou end) pp ps rest CIdle,
           [REntry (Some (k, i' + off))])
    | None =>
        exists m, 1 <= m /\ m <= S f /\
          exec (mks (pre ++ General sz n q :: suf) ou pp ps (CDeq :: rest) (CScan (length pre) off (S f) i))
               (repeat StepC m) =
          (mks (pre ++ General sz n q :: suf) ou pp ps
               (if done (snd (c_next_level (pre ++ General sz n q :: suf) (S (length pre)) (off + sz)))
                then rest else CDeq :: rest)
               (fst (c_next_level (pre ++ General sz n q :: suf) (S (length pre)) (off + sz))),
           ret1 (OStep ANone (snd (c_next_level (pre ++ General sz n q :: suf) (S (length pre)) (off + sz)))))
    end.
  Proof.
    induction f as [|f IH]; intros n i ou.
    - rewrite scan_S.
      destruct (negb (N.land (get2 q i) 2 =? 0)%N && is_none ou) eqn:A;
        [|destruct (negb (N.land (get2 q i) 1 =? 0)%N) eqn:B].
      + exists 3. split; [lia|]. split; [lia|]. cbn [repeat].
        erewrite exec_step by (rewrite step_scan; cbv zeta; rewrite A; reflexivity). norm.
        change [StepC; StepC] with (StepC :: StepC :: repeat StepC 0).
        rewrite exec_remove. reflexivity.
      + exists 3. split; [lia|]. split; [lia|]. cbn [repeat].
        erewrite exec_step by (rewrite step_scan; cbv zeta; rewrite A, B; reflexivity). norm.
        change [StepC; StepC] with (StepC :: StepC :: repeat StepC 0).
        rewrite exec_remove. reflexivity.
      + exists 1. split; [lia|]. split; [lia|]. cbn [repeat].
        erewrite exec_step by (rewrite step_scan; cbv zeta; rewrite A, B; reflexivity). norm.
        cbn [exec]. norm. rewrite app_nil_r. reflexivity.
    - rewrite scan_S.
      destruct (negb (N.land (get2 q i) 2 =? 0)%N && is_none ou) eqn:A;
        [|destruct (negb (N.land (get2 q i) 1 =? 0)%N) eqn:B].
      + exists 3. split; [lia|]. split; [lia|]. cbn [repeat].
        erewrite exec_step by (rewrite step_scan; cbv zeta; rewrite A; reflexivity). norm.
        change [StepC; StepC] with (StepC :: StepC :: repeat StepC 0).
        rewrite exec_remove. reflexivity.
      + exists 3. split; [lia|]. split; [lia|]. cbn [repeat].
        erewrite exec_step by (rewrite step_scan; cbv zeta; rewrite A, B; reflexivity). norm.
        change [StepC; StepC] with (StepC :: StepC :: repeat StepC 0).
        rewrite exec_remove. reflexivity.
      + specialize (IH n ((i + 1) mod sz) ou).
        destruct (scan (S f) sz q ((i + 1) mod sz) (is_none ou)) as [[k i']|].
        * destruct IH as (m & M1 & M2 & E). exists (S m). split; [lia|]. split; [lia|]. cbn [repeat].
          erewrite exec_step by (rewrite step_scan; cbv zeta; rewrite A, B; reflexivity). norm.
          rewrite E. reflexivity.
        * destruct IH as (m & M1 & M2 & E). exists (S m). split; [lia|]. split; [lia|]. cbn [repeat].
          erewrite exec_step by (rewrite step_scan; cbv zeta; rewrite A, B; reflexivity). norm.
          rewrite E. reflexivity.
  Qed.

  Lemma next_level_mid pre l suf o :
    c_next_level (pre ++ l :: suf) (S (length pre)) o =
    match suf with
    | [] => (CIdle, REntry None)
    | General s n _ :: _ => (CScan (S (length pre)) o s n, RNone)
    | Single _ :: _ => (CSingI (S (length pre)) o, RNone)
    end.
  Proof.
    unfold c_next_level.
    replace (pre ++ l :: suf) with ((pre ++ [l]) ++ suf) by (rewrite <- app_assoc; reflexivity).
    replace (S (length pre)) with (length (pre ++ [l])) by (rewrite app_length; simpl; lia).
    rewrite enter_mid. destruct suf as [|[s n q|st] t]; reflexivity.
  Qed.

  Lemma step_singI pre st suf ou off :
    sstep (mks (pre ++ Single st :: suf) ou pp ps (CDeq :: rest) (CSingI (length pre) off)) StepC =
    if negb (N.land st 2 =? 0)%N && is_none ou then
      (mks (pre ++ Single st :: suf) (Some off) pp ps (CDeq :: rest) (CRem (length pre, 0) 0 KInd off),
       OStep (ALoad (length pre, 0) st) RNone)
    else
      (mks (pre ++ Single st :: suf) ou pp ps (CDeq :: rest) (CSingN (length pre) off),
       OStep (ALoad (length pre, 0) st) RNone).
  Proof.
    rewrite stepC_apply by discriminate. unfold c_apply, c_micro. norm. rewrite mload_mid. cbn [lbytes nth].
    destruct (negb (N.land st 2 =? 0)%N && is_none ou); reflexivity.
  Qed.

  Lemma step_singN pre st suf ou off :
    sstep (mks (pre ++ Single st :: suf) ou pp ps (CDeq :: rest) (CSingN (length pre) off)) StepC =
    let nl := c_next_level (pre ++ Single st :: suf) (S (length pre)) (off + 1) in
    if negb (N.land st 1 =? 0)%N then
      (mks (pre ++ Single st :: suf) ou pp ps (CDeq :: rest) (CRem (length pre, 0) 0 KNotif off),
       OStep (ALoad (length pre, 0) st) RNone)
    else
      (mks (pre ++ Single st :: suf) ou pp ps (if done (snd nl) then rest else CDeq :: rest) (fst nl),
       OStep (ALoad (length pre, 0) st) (snd nl)).
  Proof.
    rewrite stepC_apply by discriminate. unfold c_apply, c_micro. norm. rewrite mload_mid. cbn [lbytes nth].
    destruct (negb (N.land st 1 =? 0)%N); [reflexivity|].
    destruct (c_next_level (pre ++ Single st :: suf) (S (length pre)) (off + 1)); reflexivity.
  Qed.

  Definition cost (ls : list level) : nat := list_sum (map lsize ls) + length ls + 2.

  Lemma chain_steps : forall suf pre ou off c,
    Forall (fun l => 1 <= lsize l) suf ->
    enter (pre ++ suf) (length pre) off = Some c ->
    exists m, 1 <= m /\ m <= cost suf /\
      exec (mks (pre ++ suf) ou pp ps (CDeq :: rest) c) (repeat StepC m) =
      (mks (pre ++ snd (chain_deq suf off (is_none ou)))
           (match fst (chain_deq suf off (is_none ou)) with Some (KInd, gi) => Some gi | _ => ou end)
           pp ps rest CIdle,
       [REntry (fst (chain_deq suf off (is_none ou)))]).
  Proof.
    induction suf as [|l suf IH]; intros pre ou off c W E; rewrite enter_mid in E; [discriminate|].
    inversion W as [|? ? W1 W2]; subst.
    assert (NEXT : forall m, 1 <= m -> m <= lsize l + 1 ->
              level_deq l (is_none ou) = (None, l) ->
              exec (mks (pre ++ l :: suf) ou pp ps (CDeq :: rest) c) (repeat StepC m) =
              (mks (pre ++ l :: suf) ou pp ps
                   (if done (snd (c_next_level (pre ++ l :: suf) (S (length pre)) (off + lsize l))) then rest else CDeq :: rest)
                   (fst (c_next_level (pre ++ l :: suf) (S (length pre)) (off + lsize l))),
               ret1 (OStep ANone (snd (c_next_level (pre ++ l :: suf) (S (length pre)) (off + lsize l))))) ->
              exists m', 1 <= m' /\ m' <= cost (l :: suf) /\
                exec (mks (pre ++ l :: suf) ou pp ps (CDeq :: rest) c) (repeat StepC m') =
                (mks (pre ++ snd (chain_deq (l :: suf) off (is_none ou)))
                     (match fst (chain_deq (l :: suf) off (is_none ou)) with Some (KInd, gi) => Some gi | _ => ou end)
                     pp ps rest CIdle,
                 [REntry (fst (chain_deq (l :: suf) off (is_none ou)))])).
    { intros m M1 M2 LD EX. cbn [chain_deq]. rewrite LD. rewrite next_level_mid in EX.
      destruct suf as [|l2 suf2].
      - exists m. split; [lia|]. split; [unfold cost; simpl; lia|]. rewrite EX. reflexivity.
      - assert (exists c2, (match l2 with General s n _ => (CScan (S (length pre)) (off + lsize l) s n, RNone)
                                        | Single _ => (CSingI (S (length pre)) (off + lsize l), RNone) end) = (c2, RNone)
                            /\ enter ((pre ++ [l]) ++ l2 :: suf2) (length (pre ++ [l])) (off + lsize l) = Some c2) as (c2 & Ec & En).
        { rewrite enter_mid. rewrite app_length. simpl. rewrite Nat.add_1_r.
          destruct l2; eexists; split; reflexivity. }
        rewrite Ec in EX. cbn [fst snd done ret1] in EX.
        destruct (IH (pre ++ [l]) ou (off + lsize l) c2 W2 En) as (m2 & N1 & N2 & E2).
        rewrite <- app_assoc in E2. cbn [app] in E2.
        exists (m + m2). split; [lia|]. split; [unfold cost in *; simpl in *; lia|].
        rewrite repeat_app, exec_app, EX. cbn [fst snd app]. rewrite E2.
        destruct (chain_deq (l2 :: suf2) (off + lsize l) (is_none ou)) as [r t'].
        cbn [fst snd]. rewrite <- app_assoc. reflexivity. }
    destruct l as [sz n q|st].
    - (* packed level *)
      inversion E; subst c. simpl in W1. destruct sz as [|f]; [lia|].
      pose proof (scan_steps pre (S f) q suf off f n n ou) as SS.
      destruct (scan (S f) (S f) q n (is_none ou)) as [[k i']|] eqn:Es.
      + destruct SS as (m & M1 & M2 & EX). exists m. split; [lia|]. split; [unfold cost; simpl; lia|].
        rewrite EX. cbn [chain_deq level_deq]. rewrite Es. cbn [fst snd]. destruct k; reflexivity.
      + destruct SS as (m & M1 & M2 & EX). apply (NEXT m); auto.
        * simpl. lia.
        * cbn [level_deq]. rewrite Es. reflexivity.
    - (* level of size 1 *)
      inversion E; subst c.
      destruct (negb (N.land st 2 =? 0)%N && is_none ou) eqn:A;
        [|destruct (negb (N.land st 1 =? 0)%N) eqn:B].
      + exists 3. split; [lia|]. split; [unfold cost; simpl; lia|]. cbn [repeat].
        erewrite exec_step by (rewrite step_singI, A; reflexivity). norm.
        change [StepC; StepC] with (StepC :: StepC :: repeat StepC 0). rewrite exec_remove.
        cbn [chain_deq level_deq]. rewrite A. reflexivity.
      + exists 4. split; [lia|]. split; [unfold cost; simpl; lia|]. cbn [repeat].
        erewrite exec_step by (rewrite step_singI, A; reflexivity). norm.
        erewrite exec_step by (rewrite step_singN; cbv zeta; rewrite B; reflexivity). norm.
        change [StepC; StepC] with (StepC :: StepC :: repeat StepC 0). rewrite exec_remove.
        cbn [chain_deq level_deq]. rewrite A, B. reflexivity.
      + apply (NEXT 2); auto.
        * cbn [level_deq]. rewrite A, B. reflexivity.
        * cbn [repeat].
          erewrite exec_step by (rewrite step_singI, A; reflexivity). norm.
          erewrite exec_step by (rewrite step_singN; cbv zeta; rewrite B; reflexivity). norm.
          cbn [exec lsize]. norm. rewrite app_nil_r. reflexivity.
  Qed.
End Consumer.

(* ------------------------------------------------------------------ whole operations *)
Lemma step_enter ls ou pp ps t c :
  enter ls 0 0 = Some c ->
  sstep (mks ls ou pp ps (CDeq :: t) CIdle) StepC = sstep (mks ls ou pp ps (CDeq :: t) c) StepC.
Proof.
  intros E. assert (c <> CIdle).
  { unfold enter in E. destruct (nth_error ls 0) as [[? ? ?|?]|]; inversion E; discriminate. }
  rewrite (stepC_apply _ _ _ _ _ c) by auto. unfold sstep. norm. rewrite E. reflexivity.
Qed.

Lemma exec_dequeue ls ou F :
  Forall (fun l => 1 <= lsize l) ls -> cost ls <= F ->
  exec (mks ls ou [] PIdle [] CIdle) (PushC CDeq :: repeat StepC F) =
  (mks (snd (chain_deq ls 0 (is_none ou)))
       (match fst (chain_deq ls 0 (is_none ou)) with Some (KInd, gi) => Some gi | _ => ou end) [] PIdle [] CIdle,
   [REntry (fst (chain_deq ls 0 (is_none ou)))]).
Proof.
  intros W HF. erewrite exec_step by reflexivity. norm.
  destruct (enter ls 0 0) as [c|] eqn:En.
  - destruct (chain_steps [] [] PIdle ls [] ou 0 c W En) as (m & M1 & M2 & E). simpl app in E.
    rewrite (repeat_app_le _ StepC m F) by lia. rewrite exec_app.
    assert (E' : exec (mks ls ou [] PIdle [CDeq] CIdle) (repeat StepC m) =
                 exec (mks ls ou [] PIdle [CDeq] c) (repeat StepC m)).
    { destruct m as [|m]; [lia|]. cbn [repeat]. rewrite !exec_cons. rewrite (step_enter _ _ _ _ _ c En). reflexivity. }
    rewrite E', E. cbn [fst snd]. rewrite exec_idleC. cbn [fst snd app]. reflexivity.
  - assert (ls = []).
    { pose proof (enter_mid [] ls 0) as H. simpl in H. rewrite En in H. destruct ls as [|[? ? ?|?] ?]; auto; discriminate. }
    subst ls. unfold cost in HF. simpl in HF. destruct F as [|F]; [lia|]. cbn [repeat].
    erewrite exec_step by reflexivity. norm. rewrite exec_idleC. reflexivity.
Qed.

Lemma exec_confirm ls ou F :
  1 <= F ->
  exec (mks ls ou [] PIdle [] CIdle) (PushC CConf :: repeat StepC F) = (mks ls None [] PIdle [] CIdle, [RUnit]).
Proof.
  intros HF. destruct F as [|F]; [lia|]. cbn [repeat].
  erewrite exec_step by reflexivity. norm. erewrite exec_step by reflexivity. norm.
  rewrite exec_idleC. reflexivity.
Qed.

(* the lock-disciplined program of a sequence of queue operations: every operation is pushed
   and its context then gets F micro-steps (steps beyond the end of the operation are idle) *)
Definition seq_ops (F : nat) (o : op) : list sop :=
  match o with
  | QueueN i => PushP KNotif i :: repeat StepP F
  | QueueI i => PushP KInd i :: repeat StepP F
  | Dequeue => PushC CDeq :: repeat StepC F
  | Confirm => PushC CConf :: repeat StepC F
  | Clear => []
  end.
Definition seq_prog (F : nat) (ops : list op) : list sop := flat_map (seq_ops F) ops.
Definition no_clear (ops : list op) : bool :=
  forallb (fun o => match o with Clear => false | _ => true end) ops.
Definition fuel_for (sizes : list nat) : nat := list_sum sizes + length sizes + 3.
Definition qs (st : state) : sys := mks (levels st) (outstanding st) [] PIdle [] CIdle.

Lemma level_add_size l i k : lsize (snd (level_add l i k)) = lsize l.
Proof. destruct l; reflexivity. Qed.
Lemma chain_add_sizes : forall ls i k, map lsize (snd (chain_add ls i k)) = map lsize ls.
Proof.
  induction ls as [|l t IH]; intros i k; simpl; auto.
  destruct (i <? lsize l).
  - pose proof (level_add_size l i k). destruct (level_add l i k). simpl in *. congruence.
  - specialize (IH (i - lsize l) k). destruct (chain_add t (i - lsize l) k). simpl in *. congruence.
Qed.
Lemma level_deq_size l no : lsize (snd (level_deq l no)) = lsize l.
Proof.
  destruct l as [s n q|st]; simpl.
  - destruct (scan s s q n no) as [[k i]|]; reflexivity.
  - destruct (_ && _); [reflexivity|]. destruct (negb _); reflexivity.
Qed.
Lemma chain_deq_sizes : forall ls off no, map lsize (snd (chain_deq ls off no)) = map lsize ls.
Proof.
  induction ls as [|l t IH]; intros off no; simpl; auto.
  pose proof (level_deq_size l no) as H. destruct (level_deq l no) as [[[k i]|] l']; simpl in *.
  - congruence.
  - specialize (IH (off + lsize l) no). destruct (chain_deq t (off + lsize l) no). simpl in *. congruence.
Qed.

Lemma step_sizes st o : map lsize (levels (fst (step st o))) = map lsize (levels st).
Proof.
  destruct o; simpl.
  - pose proof (chain_add_sizes (levels st) i KNotif). destruct (chain_add (levels st) i KNotif); auto.
  - pose proof (chain_add_sizes (levels st) i KInd). destruct (chain_add (levels st) i KInd); auto.
  - pose proof (chain_deq_sizes (levels st) 0 (is_none (outstanding st))).
    destruct (chain_deq (levels st) 0 (is_none (outstanding st))); auto.
  - reflexivity.
  - rewrite map_map. apply map_ext. intros [? ? ?|?]; reflexivity.
Qed.

Lemma op_exec sizes st o F :
  wf_sizes sizes -> map lsize (levels st) = sizes -> o <> Clear -> fuel_for sizes <= F ->
  exists r, exec (qs st) (seq_ops F o) = (qs (fst (step st o)), [r]) /\ out_of_ret r = snd (step st o).
Proof.
  intros W Hs Hc HF. unfold fuel_for in HF. destruct st as [ls ou]. unfold qs. simpl in *.
  destruct o as [i|i| | |]; try congruence; cbn [seq_ops].
  - rewrite exec_queue by lia. simpl. destruct (chain_add ls i KNotif). eexists; split; reflexivity.
  - rewrite exec_queue by lia. simpl. destruct (chain_add ls i KInd). eexists; split; reflexivity.
  - rewrite exec_dequeue.
    + simpl. destruct (chain_deq ls 0 (is_none ou)) as [[[[|] gi]|] t]; eexists; split; reflexivity.
    + subst sizes. clear -W. unfold wf_sizes in W. induction ls; simpl in *; constructor; inversion W; auto.
    + subst sizes. unfold cost. rewrite map_length in HF. lia.
  - rewrite exec_confirm by lia. simpl. eexists; split; reflexivity.
Qed.

(* ---- the lock discipline holds of these programs *)
Lemma cst_stepP s : cst (fst (sstep s StepP)) = cst s.
Proof.
  unfold sstep. destruct (pst s); destruct (pprog s); try reflexivity;
    destruct (p_micro _ _ _) as [[[? ?] ?] ?]; reflexivity.
Qed.
Lemma pst_stepC s : pst (fst (sstep s StepC)) = pst s.
Proof.
  unfold sstep. destruct (cst s); [destruct (cprog s) as [|[|] t]; try reflexivity; destruct (enter _ 0 0); try reflexivity|..];
    unfold c_apply; destruct (c_micro _ _ _) as [[[[? ?] ?] ?] ?]; reflexivity.
Qed.
Lemma guarded_P : forall m s, c_idle s = true -> guarded g_lock s (repeat StepP m) = true.
Proof.
  induction m; intros s H; cbn [repeat guarded g_lock]; auto. rewrite H. cbn [andb]. apply IHm. unfold c_idle in *. rewrite cst_stepP. auto.
Qed.
Lemma guarded_C : forall m s, p_idle s = true -> guarded g_lock s (repeat StepC m) = true.
Proof.
  induction m; intros s H; cbn [repeat guarded g_lock]; auto. rewrite H. cbn [andb]. apply IHm. unfold p_idle in *. rewrite pst_stepC. auto.
Qed.
Lemma guarded_seq_ops st o F : guarded g_lock (qs st) (seq_ops F o) = true.
Proof. destruct o; simpl; auto; first [apply guarded_P | apply guarded_C]; reflexivity. Qed.

Lemma guarded_app g : forall l1 l2 s,
  guarded g s (l1 ++ l2) = guarded g s l1 && guarded g (fst (exec s l1)) l2.
Proof.
  induction l1 as [|o t IH]; intros l2 s; simpl; auto. rewrite IH, andb_assoc. reflexivity.
Qed.

Theorem lock_run_sequential sizes F :
  wf_sizes sizes -> fuel_for sizes <= F ->
  forall ops st, map lsize (levels st) = sizes -> no_clear ops = true ->
    guarded g_lock (qs st) (seq_prog F ops) = true /\
    fst (exec (qs st) (seq_prog F ops)) = qs (final st ops) /\
    map out_of_ret (snd (exec (qs st) (seq_prog F ops))) = map snd (run st ops).
Proof.
  intros W HF. induction ops as [|o ops IH]; intros st Hs Hc; [simpl; auto|].
  simpl in Hc. apply andb_true_iff in Hc. destruct Hc as [Hc1 Hc2].
  assert (Ho : o <> Clear) by (destruct o; congruence).
  destruct (op_exec sizes st o F W Hs Ho HF) as (r & E & Er).
  specialize (IH (fst (step st o)) ltac:(rewrite step_sizes; auto) Hc2). destruct IH as (G & E1 & E2).
  change (seq_prog F (o :: ops)) with (seq_ops F o ++ seq_prog F ops).
  rewrite guarded_app, exec_app, E. cbn [fst snd]. rewrite guarded_seq_ops, G, E1.
  repeat split.
  cbn [run final app map]. destruct (step st o) as [st' out]. cbn [fst snd map] in *. rewrite E2, Er. reflexivity.
Qed.

Lemma run_combine : forall ops st, run st ops = combine ops (map snd (run st ops)).
Proof.
  induction ops as [|o t IH]; intros st; simpl; auto.
  destruct (step st o) as [st' r]. simpl. f_equal. apply IH.
Qed.

(* the statements in terms of srun / sfinal *)
Theorem lock_discipline_is_sequential_model sizes ops F :
  wf_sizes sizes -> no_clear ops = true -> fuel_for sizes <= F ->
  guarded g_lock (sinit sizes) (seq_prog F ops) = true /\
  sfinal (sinit sizes) (seq_prog F ops) = qs (final (init sizes) ops) /\
  map out_of_ret (rets (srun (sinit sizes) (seq_prog F ops))) = map snd (run (init sizes) ops).
Proof.
  intros W Hc HF.
  destruct (lock_run_sequential sizes F W HF ops (init sizes)) as (G & E1 & E2); auto.
  { simpl. rewrite map_map. rewrite <- (map_id sizes) at 2. apply map_ext_in. intros s Hin.
    unfold init_level. destruct (s =? 1) eqn:E; simpl; auto. apply Nat.eqb_eq in E. auto. }
  change (qs (init sizes)) with (sinit sizes) in *. rewrite exec_spec in E1, E2. simpl in E1, E2. auto.
Qed.

(* C12's theorem transferred: the observable behaviour of a lock-disciplined run satisfies every
   clause of the C12 monitor (queue_* returns true iff the request was not pending, every dequeued
   request was pending and is removed - dequeued exactly once -, priorities, round robin) *)
Theorem lock_discipline_accepted_by_C12_monitor sizes ops F :
  wf_sizes sizes -> no_clear ops = true -> fuel_for sizes <= F ->
  monitor sizes (combine ops (map out_of_ret (rets (srun (sinit sizes) (seq_prog F ops))))) = None.
Proof.
  intros W Hc HF. destruct (lock_discipline_is_sequential_model sizes ops F W Hc HF) as (_ & _ & E).
  rewrite E, <- run_combine. apply monitor_accepts_model. auto.
Qed.
