(* Proofs about the micro-step semantics of the notification queue (property C13).

   Main results, for every priority partition with levels of size >= 1 and every sequence of
   pushes / producer micro-steps / consumer micro-steps (so: every pair of programs and every
   schedule), unbounded:
     monitor_only_overlap     the first violation the monitor can find on a model run, if any,
                              is tagged as lying in an overlapping load..store window
     overlap_free_accepts     a run whose load..store windows never overlap is accepted
     safe_discipline_accepts  'the producer is an ISR that runs to completion' + 'the consumer
                              executes remove()'s load/store with interrupts disabled' => accepted
     lock_accepts             whole operations mutually exclusive => accepted
   by a simulation invariant (srel) between the micro-state and the monitor's abstract pending
   sets that holds as long as no store happens in a disturbed window. *)
From BT Require Import Base.ListX Base.Bits2 NQueue.NQueueModel NQueue.NQueueSpec NQueue.NQueueProofs NQueue.NQueueSched.
From Coq Require Import Lia ZifyBool.
Local Open Scope nat_scope.


(* ------------------------------------------------------------------ a byte = four 2-bit fields *)
Definition pk (a b c d : N) : N := (a + 4 * b + 16 * c + 64 * d)%N.

Definition unpack_ok : bool :=
  forallb (fun v => (v =? pk (bget v 0) (bget v 1) (bget v 2) (bget v 3))%N) (Nrange 256).
Lemma unpack_ok_true : unpack_ok = true.
Proof. vm_compute. reflexivity. Qed.
Lemma unpack v : (v < 256)%N -> v = pk (bget v 0) (bget v 1) (bget v 2) (bget v 3).
Proof.
  intros H. pose proof unpack_ok_true as S. unfold unpack_ok in S.
  rewrite forallb_forall in S. specialize (S v (In_Nrange 256 v H)). apply N.eqb_eq in S. exact S.
Qed.

Definition pack_ok : bool :=
  forallb (fun a => forallb (fun b => forallb (fun c => forallb (fun d =>
    (pk a b c d <? 256)%N && (bget (pk a b c d) 0 =? a)%N && (bget (pk a b c d) 1 =? b)%N &&
    (bget (pk a b c d) 2 =? c)%N && (bget (pk a b c d) 3 =? d)%N)
    (Nrange 4)) (Nrange 4)) (Nrange 4)) (Nrange 4).
Lemma pack_ok_true : pack_ok = true.
Proof. vm_compute. reflexivity. Qed.
Lemma bget_pk a b c d : (a < 4)%N -> (b < 4)%N -> (c < 4)%N -> (d < 4)%N ->
  (pk a b c d < 256)%N /\ bget (pk a b c d) 0 = a /\ bget (pk a b c d) 1 = b /\
  bget (pk a b c d) 2 = c /\ bget (pk a b c d) 3 = d.
Proof.
  intros Ha Hb Hc Hd. pose proof pack_ok_true as S. unfold pack_ok in S.
  rewrite forallb_forall in S. specialize (S a (In_Nrange 4 a Ha)).
  rewrite forallb_forall in S. specialize (S b (In_Nrange 4 b Hb)).
  rewrite forallb_forall in S. specialize (S c (In_Nrange 4 c Hc)).
  rewrite forallb_forall in S. specialize (S d (In_Nrange 4 d Hd)).
  repeat rewrite andb_true_iff in S. destruct S as [[[[S0 S1] S2] S3] S4].
  apply N.ltb_lt in S0. apply N.eqb_eq in S1, S2, S3, S4. auto.
Qed.

Lemma byte_ext v w : (v < 256)%N -> (w < 256)%N ->
  (forall t, t < 4 -> bget v t = bget w t) -> v = w.
Proof.
  intros Hv Hw H. rewrite (unpack v Hv), (unpack w Hw).
  rewrite (H 0), (H 1), (H 2), (H 3) by lia. reflexivity.
Qed.

(* ------------------------------------------------------------------ the abstract bytes of a level *)
Definition pwf (p : list N) : Prop := forall j, (nth j p 0 < 4)%N.

Lemma pack4_pk p b :
  pack4 p b = pk (nth (4 * b) p 0%N) (nth (4 * b + 1) p 0%N) (nth (4 * b + 2) p 0%N) (nth (4 * b + 3) p 0%N).
Proof. reflexivity. Qed.

Lemma pack4_lt p b : pwf p -> (pack4 p b < 256)%N.
Proof. intros W. rewrite pack4_pk. apply bget_pk; apply W. Qed.

Lemma bget_pack4 p b t : pwf p -> t < 4 -> bget (pack4 p b) t = nth (4 * b + t) p 0%N.
Proof.
  intros W Ht. rewrite pack4_pk.
  destruct (bget_pk _ _ _ _ (W (4 * b)) (W (4 * b + 1)) (W (4 * b + 2)) (W (4 * b + 3))) as (_ & A0 & A1 & A2 & A3).
  destruct t as [|[|[|[|t]]]]; try lia; auto.
  rewrite Nat.add_0_r. exact A0.
Qed.

Lemma idx_split i : i = 4 * boff i + slot i.
Proof. unfold boff, slot. apply Nat.div_mod. lia. Qed.

Lemma pwf_upd p i x : pwf p -> (x < 4)%N -> pwf (upd p i x).
Proof.
  intros W Hx j. destruct (Nat.eq_dec i j) as [->|Hne].
  - destruct (Nat.lt_ge_cases j (length p)).
    + rewrite nth_upd_eq by auto. auto.
    + rewrite upd_out by auto. apply W.
  - rewrite nth_upd_neq by auto. apply W.
Qed.

Lemma pack4_upd_other p i x b : b <> boff i -> pack4 (upd p i x) b = pack4 p b.
Proof.
  intros Hb. unfold pack4. pose proof (idx_split i). pose proof (slot_lt i).
  rewrite !nth_upd_neq by lia. reflexivity.
Qed.

Lemma nth_upd_slot p i x t : i < length p -> t < 4 ->
  nth (4 * boff i + t) (upd p i x) 0%N = if t =? slot i then x else nth (4 * boff i + t) p 0%N.
Proof.
  intros Hi Ht. pose proof (idx_split i). destruct (t =? slot i) eqn:E.
  - apply Nat.eqb_eq in E. subst t. rewrite <- H. apply nth_upd_eq. auto.
  - apply Nat.eqb_neq in E. apply nth_upd_neq. lia.
Qed.

Lemma pack4_upd_or p i k : pwf p -> i < length p ->
  pack4 (upd p i (N.lor (nth i p 0%N) (kbit k))) (boff i) = byte_or (pack4 p (boff i)) (slot i) (kbit k).
Proof.
  intros W Hi. pose proof (kbit_lt k) as Hk. pose proof (slot_lt i) as Hs.
  pose proof (pack4_lt p (boff i) W) as HB.
  assert (W' : pwf (upd p i (N.lor (nth i p 0%N) (kbit k)))) by (apply pwf_upd; auto; apply lor_lt4; apply W).
  destruct (sweep _ _ _ HB Hs Hk) as (S1 & _ & _ & S4 & _ & _ & _ & S8).
  apply byte_ext; auto using pack4_lt.
  intros t Ht. rewrite bget_pack4 by auto. rewrite nth_upd_slot by auto.
  destruct (t =? slot i) eqn:E.
  - apply Nat.eqb_eq in E. subst t. rewrite S1. rewrite bget_pack4 by auto. rewrite <- idx_split. reflexivity.
  - apply Nat.eqb_neq in E. destruct (S8 t Ht ltac:(lia)) as (A & _ & _). rewrite A.
    rewrite bget_pack4 by auto. reflexivity.
Qed.

Lemma pack4_upd_clr p i k : pwf p -> i < length p ->
  pack4 (upd p i (N.ldiff (nth i p 0%N) (kbit k))) (boff i) = byte_clr (pack4 p (boff i)) (slot i) (kbit k).
Proof.
  intros W Hi. pose proof (kbit_lt k) as Hk. pose proof (slot_lt i) as Hs.
  pose proof (pack4_lt p (boff i) W) as HB.
  assert (W' : pwf (upd p i (N.ldiff (nth i p 0%N) (kbit k)))) by (apply pwf_upd; auto; apply ldiff_lt4; apply W).
  destruct (sweep _ _ _ HB Hs Hk) as (_ & S2 & _ & _ & S5 & _ & _ & S8).
  apply byte_ext; auto using pack4_lt.
  intros t Ht. rewrite bget_pack4 by auto. rewrite nth_upd_slot by auto.
  destruct (t =? slot i) eqn:E.
  - apply Nat.eqb_eq in E. subst t. rewrite S2. rewrite bget_pack4 by auto. rewrite <- idx_split. reflexivity.
  - apply Nat.eqb_neq in E. destruct (S8 t Ht ltac:(lia)) as (_ & B & _). rewrite B.
    rewrite bget_pack4 by auto. reflexivity.
Qed.

Lemma abs_bytes_length p : length (abs_bytes p) = nbytes (length p).
Proof. unfold abs_bytes. rewrite map_length, seq_length. reflexivity. Qed.

Lemma nth_abs_bytes p b : b < nbytes (length p) -> nth b (abs_bytes p) 0%N = pack4 p b.
Proof. intros H. unfold abs_bytes. apply nth_map_seq. auto. Qed.

Lemma abs_bytes_upd p i x : i < length p ->
  abs_bytes (upd p i x) = upd (abs_bytes p) (boff i) (pack4 (upd p i x) (boff i)).
Proof.
  intros Hi. apply nth_ext_len with (d := 0%N).
  - rewrite upd_length, !abs_bytes_length, upd_length. reflexivity.
  - intros b Hb. rewrite abs_bytes_length, upd_length in Hb.
    rewrite nth_abs_bytes by (rewrite upd_length; auto).
    destruct (Nat.eq_dec b (boff i)) as [->|Hne].
    + rewrite nth_upd_eq by (rewrite abs_bytes_length; auto). reflexivity.
    + rewrite nth_upd_neq by auto. rewrite nth_abs_bytes by auto. apply pack4_upd_other. auto.
Qed.

Lemma pack4_single p : length p = 1 -> pack4 p 0 = nth 0 p 0%N.
Proof.
  intros H. destruct p as [|x [|y p]]; simpl in H; try lia.
  unfold pack4. cbn [Nat.mul Nat.add nth]. lia.
Qed.
(* ------------------------------------------------------------------ lists *)
Lemma Forall2_nth (A B : Type) (R : A -> B -> Prop) l1 l2 d1 d2 n :
  Forall2 R l1 l2 -> n < length l1 -> R (nth n l1 d1) (nth n l2 d2).
Proof.
  intros F. revert n. induction F; intros [|n] Hn; simpl in *; try lia; auto. apply IHF. lia.
Qed.

Lemma Forall2_upd (A B : Type) (R : A -> B -> Prop) l1 l2 n a b :
  Forall2 R l1 l2 -> R a b -> Forall2 R (upd l1 n a) (upd l2 n b).
Proof.
  intros F Hab. revert n. induction F; intros [|n]; simpl; constructor; auto.
Qed.

Lemma map_upd (A B : Type) (f : A -> B) l n a : map f (upd l n a) = upd (map f l) n (f a).
Proof. revert n. induction l as [|h t IH]; intros [|n]; simpl; auto. f_equal. apply IH. Qed.

Lemma addr_eqb_eq a b : addr_eqb a b = true <-> a = b.
Proof.
  destruct a as [a1 a2], b as [b1 b2]. unfold addr_eqb. simpl.
  rewrite andb_true_iff, !Nat.eqb_eq. split; [intros [-> ->]; auto|intros H; inversion H; auto].
Qed.

(* ------------------------------------------------------------------ memory *)
Definition is_single (l : level) : bool := match l with Single _ => true | General _ _ _ => false end.
Definition szs (ls : list level) : list nat := map lsize ls.
Definition kinds (ls : list level) : list bool := map is_single ls.

Lemma lsize_nth ls lv : lsize (nth lv ls dlevel) = nth lv (szs ls) 1.
Proof. unfold szs. change 1 with (lsize dlevel). symmetry. apply map_nth. Qed.
Lemma single_nth ls lv : is_single (nth lv ls dlevel) = nth lv (kinds ls) true.
Proof. unfold kinds. change true with (is_single dlevel). symmetry. apply map_nth. Qed.

Lemma lbytes_lput l b v : lbytes (lput l b v) = upd (lbytes l) b v.
Proof. destruct l as [s n q|st]; simpl; auto. destruct b; reflexivity. Qed.
Lemma lsize_lput l b v : lsize (lput l b v) = lsize l.
Proof. destruct l as [s n q|st]; simpl; auto. destruct b; reflexivity. Qed.
Lemma lnxt_lput l b v : lnxt (lput l b v) = lnxt l.
Proof. destruct l as [s n q|st]; simpl; auto. destruct b; reflexivity. Qed.
Lemma single_lput l b v : is_single (lput l b v) = is_single l.
Proof. destruct l as [s n q|st]; simpl; auto. destruct b; reflexivity. Qed.

Lemma szs_mstore ls a v : szs (mstore ls a v) = szs ls.
Proof.
  unfold mstore, szs. rewrite map_upd, lsize_lput, lsize_nth. apply upd_same.
Qed.
Lemma kinds_mstore ls a v : kinds (mstore ls a v) = kinds ls.
Proof.
  unfold mstore, kinds. rewrite map_upd, single_lput, single_nth. apply upd_same.
Qed.
Lemma szs_set_next ls lv n : szs (set_next ls lv n) = szs ls.
Proof.
  unfold set_next, szs. rewrite map_upd.
  replace (lsize (lset_next (nth lv ls dlevel) n)) with (lsize (nth lv ls dlevel)) by (destruct (nth lv ls dlevel); reflexivity).
  rewrite lsize_nth. apply upd_same.
Qed.
Lemma kinds_set_next ls lv n : kinds (set_next ls lv n) = kinds ls.
Proof.
  unfold set_next, kinds. rewrite map_upd.
  replace (is_single (lset_next (nth lv ls dlevel) n)) with (is_single (nth lv ls dlevel)) by (destruct (nth lv ls dlevel); reflexivity).
  rewrite single_nth. apply upd_same.
Qed.
Lemma length_mstore ls a v : length (mstore ls a v) = length ls.
Proof. unfold mstore. apply upd_length. Qed.
Lemma length_set_next ls lv n : length (set_next ls lv n) = length ls.
Proof. unfold set_next. apply upd_length. Qed.

Lemma mload_mstore_neq ls a v a' : a <> a' -> mload (mstore ls a v) a' = mload ls a'.
Proof.
  destruct a as [lv b], a' as [lv' b']. intros Hne. unfold mload, mstore. simpl.
  destruct (Nat.eq_dec lv lv') as [<-|Hl].
  - destruct (Nat.lt_ge_cases lv (length ls)).
    + rewrite nth_upd_eq by auto. rewrite lbytes_lput. apply nth_upd_neq. congruence.
    + rewrite upd_out by auto. reflexivity.
  - rewrite nth_upd_neq by auto. reflexivity.
Qed.

Lemma mload_set_next ls lv n a : mload (set_next ls lv n) a = mload ls a.
Proof.
  destruct a as [lv' b']. unfold mload, set_next. simpl.
  destruct (Nat.eq_dec lv lv') as [<-|Hl].
  - destruct (Nat.lt_ge_cases lv (length ls)).
    + rewrite nth_upd_eq by auto. destruct (nth lv ls dlevel); reflexivity.
    + rewrite upd_out by auto. reflexivity.
  - rewrite nth_upd_neq by auto. reflexivity.
Qed.

(* ------------------------------------------------------------------ level ~ pending values *)
Record lrel (l : level) (p : list N) : Prop := {
  lr_len : length p = lsize l;
  lr_pos : 1 <= lsize l;
  lr_wf : pwf p;
  lr_bytes : lbytes l = abs_bytes p;
  lr_next : lnxt l < lsize l }.

Lemma szs_agree ls m : Forall2 lrel ls m -> szs ls = map (@length N) m.
Proof. intros F. induction F; simpl; auto. f_equal; auto. symmetry. apply lr_len. auto. Qed.

Lemma lrel_nth ls m lv : Forall2 lrel ls m -> lv < length ls -> lrel (nth lv ls dlevel) (nth lv m []).
Proof. apply Forall2_nth. Qed.

Lemma len_pend ls m lv : Forall2 lrel ls m -> lv < length ls -> length (nth lv m []) = nth lv (szs ls) 1.
Proof. intros F H. rewrite <- lsize_nth. apply lr_len. apply lrel_nth; auto. Qed.

Lemma mload_abs ls m lv i :
  Forall2 lrel ls m -> lv < length ls -> i < nth lv (szs ls) 1 ->
  mload ls (lv, boff i) = pack4 (nth lv m []) (boff i) /\
  bget (mload ls (lv, boff i)) (slot i) = pend_at m lv i.
Proof.
  intros F Hl Hi. pose proof (lrel_nth ls m lv F Hl) as R. pose proof (len_pend ls m lv F Hl) as L.
  assert (E : mload ls (lv, boff i) = pack4 (nth lv m []) (boff i)).
  { unfold mload. simpl. rewrite (lr_bytes _ _ R). apply nth_abs_bytes. apply boff_lt. lia. }
  split; auto. rewrite E. rewrite bget_pack4 by (apply (lr_wf _ _ R) || apply slot_lt).
  rewrite <- idx_split. reflexivity.
Qed.

Lemma pend_at_set_eq m lv i x :
  lv < length m -> i < length (nth lv m []) -> pend_at (pend_set m lv i x) lv i = x.
Proof. intros Hl Hi. unfold pend_at, pend_set. rewrite nth_upd_eq by auto. apply nth_upd_eq. auto. Qed.

Lemma pend_at_set_neq m lv i x lv' i' :
  (lv', i') <> (lv, i) -> pend_at (pend_set m lv i x) lv' i' = pend_at m lv' i'.
Proof.
  intros Hne. unfold pend_at, pend_set.
  destruct (Nat.eq_dec lv lv') as [<-|Hl].
  - destruct (Nat.lt_ge_cases lv (length m)).
    + rewrite nth_upd_eq by auto. apply nth_upd_neq. congruence.
    + rewrite upd_out by auto. reflexivity.
  - rewrite nth_upd_neq by auto. reflexivity.
Qed.

Lemma abs_byte_set m lv i x b :
  lv < length m -> abs_byte (pend_set m lv i x) (lv, b) = pack4 (upd (nth lv m []) i x) b.
Proof. intros H. unfold abs_byte, pend_set. simpl. rewrite nth_upd_eq by auto. reflexivity. Qed.

Lemma lrel_store ls m lv i x :
  Forall2 lrel ls m -> lv < length ls -> i < nth lv (szs ls) 1 -> (x < 4)%N ->
  Forall2 lrel (mstore ls (lv, boff i) (pack4 (upd (nth lv m []) i x) (boff i))) (pend_set m lv i x).
Proof.
  intros F Hl Hi Hx. pose proof (lrel_nth ls m lv F Hl) as R. pose proof (len_pend ls m lv F Hl) as L.
  unfold mstore, pend_set. simpl. apply Forall2_upd; auto.
  destruct R as [R1 R2 R3 R4 R5]. constructor.
  - rewrite upd_length, lsize_lput. auto.
  - rewrite lsize_lput. auto.
  - apply pwf_upd; auto.
  - rewrite lbytes_lput, R4. symmetry. apply abs_bytes_upd. lia.
  - rewrite lnxt_lput, lsize_lput. auto.
Qed.

Lemma lrel_set_next ls m lv n :
  Forall2 lrel ls m -> n < nth lv (szs ls) 1 -> Forall2 lrel (set_next ls lv n) m.
Proof.
  intros F Hn. unfold set_next.
  destruct (Nat.lt_ge_cases lv (length ls)) as [Hl|Hl]; [|rewrite upd_out by auto; auto].
  pose proof (lrel_nth ls m lv F Hl) as R.
  rewrite <- (upd_same m lv []). apply Forall2_upd; auto.
  rewrite <- lsize_nth in Hn.
  destruct R as [R1 R2 R3 R4 R5]. destruct (nth lv ls dlevel) as [s nx q|st]; simpl in *; constructor; simpl; auto.
Qed.

(* ------------------------------------------------------------------ locating a characteristic *)
Definition offs (z : list nat) (lv : nat) : nat := list_sum (firstn lv z).

Lemma locate_bound z : forall lv0 gi lv i,
  locate z lv0 gi = Some (lv, i) -> lv0 <= lv /\ lv - lv0 < length z /\ i < nth (lv - lv0) z 1.
Proof.
  induction z as [|s t IH]; intros lv0 gi lv i H; simpl in H; [discriminate|].
  destruct (gi <? s) eqn:E.
  - inversion H; subst. apply Nat.ltb_lt in E. rewrite Nat.sub_diag. simpl. lia.
  - apply IH in H. destruct H as (A & B & C). replace (lv - lv0) with (S (lv - S lv0)) by lia. simpl. lia.
Qed.

Lemma locate_offs z : forall lv0 lv i,
  lv < length z -> i < nth lv z 1 -> locate z lv0 (i + offs z lv) = Some (lv0 + lv, i).
Proof.
  induction z as [|s t IH]; intros lv0 lv i Hl Hi; simpl in Hl; [lia|].
  destruct lv as [|lv]; simpl in *.
  - unfold offs. simpl. rewrite Nat.add_0_r. apply Nat.ltb_lt in Hi. rewrite Hi. f_equal. f_equal. lia.
  - unfold offs. simpl. fold (offs t lv).
    assert (i + (s + offs t lv) <? s = false) as -> by (apply Nat.ltb_ge; lia).
    replace (i + (s + offs t lv) - s) with (i + offs t lv) by lia.
    rewrite IH by lia. f_equal. f_equal. lia.
Qed.

Lemma offs_S z lv : lv < length z -> offs z (S lv) = offs z lv + nth lv z 1.
Proof.
  revert lv. induction z as [|s t IH]; intros lv H; simpl in H; [lia|].
  destruct lv as [|lv]; [unfold offs; simpl; lia|].
  change (offs (s :: t) (S (S lv))) with (s + offs t (S lv)).
  change (offs (s :: t) (S lv)) with (s + offs t lv).
  change (nth (S lv) (s :: t) 1) with (nth lv t 1).
  rewrite IH by lia. lia.
Qed.

Lemma Forall2_len {A B : Type} {R : A -> B -> Prop} {l1 l2} : Forall2 R l1 l2 -> length l1 = length l2.
Proof. intros F. induction F; simpl; auto. Qed.
(* ------------------------------------------------------------------ system ~ monitor *)
Definition pinv (s : sys) (m : smon) : Prop :=
  match pst s with
  | PIdle => pwin m = None
  | PLoad2 a p k r =>
      exists gi rest lv i d, pprog s = (k, gi) :: rest /\ locate (szs (mem s)) 0 gi = Some (lv, i) /\
        a = (lv, boff i) /\ p = slot i /\ pwin m = Some (a, d) /\
        (d = false -> r = negb (has (pend_at (mp m) lv i) k))
  | PStore a p k r v =>
      exists gi rest lv i d, pprog s = (k, gi) :: rest /\ locate (szs (mem s)) 0 gi = Some (lv, i) /\
        a = (lv, boff i) /\ p = slot i /\ pwin m = Some (a, d) /\
        (d = false -> r = negb (has (pend_at (mp m) lv i) k) /\ v = mload (mem s) a)
  end.

Definition deq_head (s : sys) : Prop := exists rest, cprog s = CDeq :: rest.

Definition cinv (s : sys) (m : smon) (c : cstate) : Prop :=
  match c with
  | CIdle => True
  | CScan lv off fuel i =>
      deq_head s /\ lv < length (mem s) /\ off = offs (szs (mem s)) lv /\ i < nth lv (szs (mem s)) 1
  | CSingI lv off | CSingN lv off =>
      deq_head s /\ lv < length (mem s) /\ off = offs (szs (mem s)) lv /\ nth lv (kinds (mem s)) true = true
  | CRem a p k gi =>
      deq_head s /\ exists lv i, locate (szs (mem s)) 0 gi = Some (lv, i) /\ a = (lv, boff i) /\ p = slot i /\
        has (pend_at (mp m) lv i) k = true
  | CRemS a p k gi v =>
      deq_head s /\ exists lv i d, locate (szs (mem s)) 0 gi = Some (lv, i) /\ a = (lv, boff i) /\ p = slot i /\
        has (pend_at (mp m) lv i) k = true /\ cwin m = Some (a, d) /\ (d = false -> v = mload (mem s) a)
  end.

Record srel (s : sys) (m : smon) : Prop := {
  sr_mem : Forall2 lrel (mem s) (mp m);
  sr_pq : mpq m = pprog s;
  sr_cq : mcq m = cprog s;
  sr_p : pinv s m;
  sr_c : cinv s m (cst s) }.

Definition step_ok (s' : sys) (v : sverdict * smon) : Prop :=
  match v with (SOk, m') => srel s' m' | (SBad t, _) => 10 < t end.

Lemma locate_lt ls m gi lv i :
  Forall2 lrel ls m -> locate (szs ls) 0 gi = Some (lv, i) ->
  lv < length ls /\ i < nth lv (szs ls) 1 /\ lv < length m /\ i < length (nth lv m []).
Proof.
  intros F H. apply locate_bound in H. rewrite Nat.sub_0_r in H. destruct H as (_ & A & B).
  unfold szs in A. rewrite map_length in A.
  pose proof (Forall2_len F). pose proof (len_pend ls m lv F A). repeat split; lia.
Qed.

Lemma has_kbit_test x k : (N.land x (kbit k) =? 0)%N = negb (has x k).
Proof. unfold has. rewrite negb_involutive. reflexivity. Qed.

Lemma tagw_big t d : 0 < t -> (d = false -> False) -> 10 < tagw t d.
Proof. destruct d; simpl; intros H0 H; [lia|exfalso; auto]. Qed.

Lemma chk_store_clean m a v d : v = abs_byte m a -> chk_store m a v d = None.
Proof. intros ->. unfold chk_store. rewrite N.eqb_refl. reflexivity. Qed.

Lemma chk_store_cases m a v d :
  match chk_store m a v d with
  | None => v = abs_byte m a
  | Some t => v <> abs_byte m a /\ t = tagw (if (N.ldiff (abs_byte m a) v =? 0)%N then t_dup else t_lost) d
  end.
Proof.
  unfold chk_store. destruct (v =? abs_byte m a)%N eqn:E.
  - apply N.eqb_eq in E. auto.
  - apply N.eqb_neq in E. auto.
Qed.

(* ---- the producer's micro-steps *)
Lemma p_step_ok s m :
  srel s m -> (pst s <> PIdle \/ pprog s <> []) ->
  let '(ls, p', ac, r) := p_micro (mem s) (pprog s) (pst s) in
  step_ok (mks ls (outst s) (if done r then tl (pprog s) else pprog s) p' (cprog s) (cst s))
          (smstep m StepP (OStep ac r)).
Proof.
  intros [F Q1 Q2 P C] Hne.
  destruct s as [ls ou pp ps cp cs]. simpl in *.
  pose proof (szs_agree _ _ F) as Z.
  unfold pinv in P; simpl in P.
  destruct ps as [|a p k r|a p k r v]; simpl.
  - (* first load *)
    destruct pp as [|[k gi] rest]; [destruct Hne; congruence|].
    fold (szs ls). destruct (locate (szs ls) 0 gi) as [[lv i]|] eqn:L; simpl.
    + rewrite Q1, P. simpl.
      destruct (locate_lt _ _ _ _ _ F L) as (H1 & H2 & H3 & H4).
      destruct (mload_abs ls (mp m) lv i F H1 H2) as [E1 E2].
      constructor; simpl; auto.
      exists gi, rest, lv, i, false. repeat split; auto.
      pose proof (lrel_nth _ _ lv F H1) as R. intros _.
      rewrite sweep_test.
      * rewrite E2. apply has_kbit_test.
      * rewrite E1. apply pack4_lt. apply (lr_wf _ _ R).
      * apply slot_lt.
      * apply kbit_lt.
    + rewrite Q1. simpl. rewrite <- Z, L. constructor; simpl; auto. reflexivity.
  - (* second load *)
    destruct P as (gi & rest & lv & i & d & Hp & L & -> & -> & Hw & Hr).
    rewrite Q1, Hp. simpl. rewrite Hw. simpl.
    constructor; simpl; auto.
    exists gi, rest, lv, i, d. repeat split; auto.
  - (* store *)
    destruct P as (gi & rest & lv & i & d & Hp & L & -> & -> & Hw & Hr).
    rewrite Q1, Hp. simpl. rewrite <- Z, L, Hw. simpl.
    destruct (locate_lt _ _ _ _ _ F L) as (H1 & H2 & H3 & H4).
    pose proof (lrel_nth _ _ lv F H1) as R.
    set (x := pend_at (mp m) lv i).
    destruct (Bool.eqb r (negb (has x k))) eqn:Er; simpl.
    2:{ apply tagw_big; [unfold t_ret; lia|]. intros ->. destruct (Hr eq_refl) as [-> _]. rewrite Bool.eqb_reflx in Er. discriminate. }
    pose proof (chk_store_cases (pend_set (mp m) lv i (N.lor x (kbit k))) (lv, boff i) (byte_or v (slot i) (kbit k)) d) as CS.
    destruct (chk_store _ _ _ d) as [t|].
    { destruct CS as [Hne' ->]. apply tagw_big; [destruct (_ =? _)%N; unfold t_dup, t_lost; lia|]. intros ->. destruct (Hr eq_refl) as [_ ->]. apply Hne'.
      rewrite abs_byte_set by auto.
      destruct (mload_abs ls (mp m) lv i F H1 H2) as [E1 _]. rewrite E1.
      symmetry. apply pack4_upd_or; auto. apply (lr_wf _ _ R). }
    rewrite abs_byte_set in CS by auto. rewrite CS.
    assert (Hx : (N.lor x (kbit k) < 4)%N) by (apply lor_lt4; apply (lr_wf _ _ R)).
    constructor; simpl; auto.
    + apply lrel_store; auto.
    + reflexivity.
    + (* the consumer's invariant *)
      destruct cs as [|clv off fuel ci|clv off|clv off|ca cp' ck cgi|ca cp' ck cgi cv]; simpl in C |- *; auto;
        rewrite ?szs_mstore, ?kinds_mstore, ?length_mstore; auto.
      * destruct C as (D & lv' & i' & L' & -> & -> & Hh). split; auto.
        exists lv', i'. repeat split; auto.
        destruct (Nat.eq_dec lv' lv) as [->|]; [destruct (Nat.eq_dec i' i) as [->|]|].
        -- rewrite pend_at_set_eq by auto. rewrite has_lor by apply (lr_wf _ _ R). unfold x. rewrite Hh. reflexivity.
        -- rewrite pend_at_set_neq by congruence. auto.
        -- rewrite pend_at_set_neq by congruence. auto.
      * destruct C as (D & lv' & i' & d' & L' & -> & -> & Hh & Hcw & Hv). split; auto.
        exists lv', i', (d' || addr_eqb (lv, boff i) (lv', boff i')). rewrite Hcw. simpl. repeat split; auto.
        -- destruct (Nat.eq_dec lv' lv) as [->|]; [destruct (Nat.eq_dec i' i) as [->|]|].
           ++ rewrite pend_at_set_eq by auto. rewrite has_lor by apply (lr_wf _ _ R). unfold x. rewrite Hh. reflexivity.
           ++ rewrite pend_at_set_neq by congruence. auto.
           ++ rewrite pend_at_set_neq by congruence. auto.
        -- intros Hd. apply orb_false_iff in Hd. destruct Hd as [-> Hd].
           rewrite mload_mstore_neq; auto.
           intro Hc. apply addr_eqb_eq in Hc. congruence.
Qed.

Lemma pinv_ext s s' m m' :
  pst s' = pst s -> pprog s' = pprog s -> szs (mem s') = szs (mem s) ->
  (forall a, mload (mem s') a = mload (mem s) a) -> mp m' = mp m -> pwin m' = pwin m ->
  pinv s m -> pinv s' m'.
Proof.
  unfold pinv. intros -> -> -> Hm -> ->. destruct (pst s); auto.
  intros (gi & rest & lv & i & d & H). exists gi, rest, lv, i, d. rewrite Hm. exact H.
Qed.

Lemma enter_inv s m lv off :
  Forall2 lrel (mem s) (mp m) -> deq_head s -> off = offs (szs (mem s)) lv ->
  forall c, enter (mem s) lv off = Some c -> cinv s m c.
Proof.
  intros F D -> c. unfold enter. destruct (nth_error (mem s) lv) as [l|] eqn:E; [|discriminate].
  assert (Hl : lv < length (mem s)) by (apply nth_error_Some; congruence).
  apply (nth_error_nth _ _ dlevel) in E.
  pose proof (lrel_nth _ _ lv F Hl) as R. rewrite E in R.
  destruct l as [sz n q|st]; intros H; inversion H; subst c; simpl; repeat split; auto.
  - rewrite <- lsize_nth, E. apply (lr_next _ _ R).
  - rewrite <- single_nth, E. reflexivity.
Qed.

Ltac mk_srel := constructor; [ simpl | simpl; auto | simpl; auto | | simpl ].
Ltac keep_pinv P := eapply pinv_ext; [..|exact P]; simpl; auto using szs_set_next, mload_set_next.

Lemma addr_eqb_refl a : addr_eqb a a = true.
Proof. apply addr_eqb_eq. reflexivity. Qed.

Lemma mod_succ_lt i s : i < s -> (i + 1) mod s < s.
Proof. intros. apply Nat.mod_upper_bound. lia. Qed.

(* ---- the consumer's micro-steps *)
Lemma next_level_ok ls ou pp ps cs rest m a v lv sz :
  Forall2 lrel ls (mp m) -> mpq m = pp -> mcq m = CDeq :: rest ->
  pinv (mks ls ou pp ps (CDeq :: rest) cs) m -> lv < length ls -> sz = nth lv (szs ls) 1 ->
  forall c' r, c_next_level ls (S lv) (offs (szs ls) lv + sz) = (c', r) ->
    step_ok (mks ls ou pp ps (if done r then tl (CDeq :: rest) else CDeq :: rest) c')
            (smstep m StepC (OStep (ALoad a v) r)).
Proof.
  intros F Q1 Q2 P Hl -> c' r. unfold c_next_level.
  destruct (enter ls (S lv) (offs (szs ls) lv + nth lv (szs ls) 1)) as [c1|] eqn:En;
    intros H; inversion H; subst c' r; simpl; rewrite Q2; simpl.
  - mk_srel; auto; try keep_pinv P.
    apply (enter_inv (mks ls ou pp ps (CDeq :: rest) c1)
               (mkm (mp m) (mpq m) (mcq m) (pwin m) (Some (a, false))) (S lv)
               (offs (szs ls) lv + nth lv (szs ls) 1)); simpl; auto.
    + eexists; reflexivity.
    + symmetry. apply offs_S. unfold szs. rewrite map_length. auto.
  - mk_srel; auto; try keep_pinv P.
Qed.

Lemma single_level ls m lv :
  Forall2 lrel ls m -> lv < length ls -> nth lv (kinds ls) true = true ->
  nth lv (szs ls) 1 = 1 /\ mload ls (lv, 0) = pend_at m lv 0.
Proof.
  intros F Hl Hk. pose proof (lrel_nth _ _ lv F Hl) as R. pose proof (len_pend _ _ lv F Hl) as L.
  rewrite <- single_nth in Hk. rewrite <- lsize_nth in *.
  destruct (nth lv ls dlevel) as [s n q|st] eqn:E; [discriminate|]. simpl in *. split; auto.
  unfold mload. simpl. rewrite E. simpl.
  pose proof (lr_bytes _ _ R) as B. simpl in B. unfold abs_bytes in B. rewrite L in B. simpl in B.
  injection B as ->. apply pack4_single. auto.
Qed.

Lemma c_step_ok s m c :
  srel s m -> cinv s m c -> c <> CIdle ->
  let '(s', out) := c_apply s c in step_ok s' (smstep m StepC out).
Proof.
  intros [F Q1 Q2 P _] C Hne.
  destruct s as [ls ou pp ps cp cs]. simpl in *.
  pose proof (szs_agree _ _ F) as Z.
  destruct c as [|lv off fuel i|lv off|lv off|a p k gi|a p k gi v]; [congruence| | | | |]; simpl in C.
  - (* at( i ) *)
    destruct C as ([rest D] & Hl & -> & Hi). simpl in D. rewrite D in *. clear D.
    destruct (mload_abs ls (mp m) lv i F Hl Hi) as [E1 E2].
    unfold c_apply, c_micro. cbn [mem outst cprog pprog pst cst].
    rewrite E2. rewrite lsize_nth.
    set (x := pend_at (mp m) lv i) in *. set (sz := nth lv (szs ls) 1) in *.
    assert (Hmod : (i + 1) mod sz < sz) by (apply mod_succ_lt; auto).
    assert (Hloc : locate (szs ls) 0 (i + offs (szs ls) lv) = Some (lv, i)).
    { apply (locate_offs (szs ls) 0 lv i); auto. unfold szs. rewrite map_length. auto. }
    destruct (negb (N.land x 2 =? 0)%N && is_none ou) eqn:A; [|destruct (negb (N.land x 1 =? 0)%N) eqn:B].
    + simpl. rewrite Q2. simpl. mk_srel.
      * apply lrel_set_next; auto.
      * keep_pinv P.
      * split; [eexists; reflexivity|]. exists lv, i. rewrite szs_set_next.
        repeat split; auto. apply andb_true_iff in A. apply A.
    + simpl. rewrite Q2. simpl. mk_srel.
      * apply lrel_set_next; auto.
      * keep_pinv P.
      * split; [eexists; reflexivity|]. exists lv, i. rewrite szs_set_next.
        repeat split; auto.
    + destruct fuel as [|[|f]].
      * destruct (c_next_level ls (S lv) (offs (szs ls) lv + sz)) as [c' r] eqn:En.
        cbv beta iota. eapply next_level_ok with (cs := cs) (v := mload ls (lv, boff i)); eauto.
      * destruct (c_next_level ls (S lv) (offs (szs ls) lv + sz)) as [c' r] eqn:En.
        cbv beta iota. eapply next_level_ok with (cs := cs) (v := mload ls (lv, boff i)); eauto.
      * simpl. rewrite Q2. simpl. mk_srel; auto; try keep_pinv P.
        split; [eexists; reflexivity|]. repeat split; auto.
  - (* size 1: state_ & indication_bit *)
    destruct C as ([rest D] & Hl & -> & Hk). simpl in D. rewrite D in *. clear D.
    destruct (single_level ls (mp m) lv F Hl Hk) as [Hs E].
    unfold c_apply, c_micro. cbn [mem outst cprog pprog pst cst]. rewrite E.
    set (x := pend_at (mp m) lv 0) in *.
    assert (Hloc : locate (szs ls) 0 (offs (szs ls) lv) = Some (lv, 0)).
    { apply (locate_offs (szs ls) 0 lv 0); [unfold szs; rewrite map_length; auto|lia]. }
    destruct (negb (N.land x 2 =? 0)%N && is_none ou) eqn:A.
    + simpl. rewrite Q2. simpl. mk_srel; auto; try keep_pinv P.
      split; [eexists; reflexivity|]. exists lv, 0. repeat split; auto.
      apply andb_true_iff in A. apply A.
    + simpl. rewrite Q2. simpl. mk_srel; auto; try keep_pinv P.
      split; [eexists; reflexivity|]. repeat split; auto.
  - (* size 1: state_ & notification_bit *)
    destruct C as ([rest D] & Hl & -> & Hk). simpl in D. rewrite D in *. clear D.
    destruct (single_level ls (mp m) lv F Hl Hk) as [Hs E].
    unfold c_apply, c_micro. cbn [mem outst cprog pprog pst cst]. rewrite E.
    set (x := pend_at (mp m) lv 0) in *.
    assert (Hloc : locate (szs ls) 0 (offs (szs ls) lv) = Some (lv, 0)).
    { apply (locate_offs (szs ls) 0 lv 0); [unfold szs; rewrite map_length; auto|lia]. }
    destruct (negb (N.land x 1 =? 0)%N) eqn:B.
    + simpl. rewrite Q2. simpl. mk_srel; auto; try keep_pinv P.
      split; [eexists; reflexivity|]. exists lv, 0. repeat split; auto.
    + destruct (c_next_level ls (S lv) (offs (szs ls) lv + 1)) as [c' r] eqn:En.
      cbv beta iota. eapply next_level_ok with (cs := cs) (v := x); eauto. rewrite Hs. exact En.
  - (* remove: load *)
    destruct C as ([rest D] & lv & i & L & -> & -> & Hh). simpl in D. rewrite D in *. clear D.
    unfold c_apply, c_micro. cbn [mem outst cprog pprog pst cst]. simpl. rewrite Q2. simpl.
    mk_srel; auto; try keep_pinv P.
    split; [eexists; reflexivity|]. exists lv, i, false. repeat split; auto.
  - (* remove: store *)
    destruct C as ([rest D] & lv & i & d & L & -> & -> & Hh & Hcw & Hv). simpl in D. rewrite D in *. clear D.
    unfold c_apply, c_micro. cbn [mem outst cprog pprog pst cst]. simpl. rewrite Q2. simpl.
    rewrite <- Z, L, Hcw. simpl. rewrite Hh. simpl.
    destruct (locate_lt _ _ _ _ _ F L) as (H1 & H2 & H3 & H4).
    pose proof (lrel_nth _ _ lv F H1) as R.
    set (x := pend_at (mp m) lv i) in *.
    pose proof (chk_store_cases (pend_set (mp m) lv i (N.ldiff x (kbit k))) (lv, boff i) (byte_clr v (slot i) (kbit k)) d) as CS.
    destruct (chk_store _ _ _ d) as [t|].
    { destruct CS as [Hne' ->]. apply tagw_big; [destruct (_ =? _)%N; unfold t_dup, t_lost; lia|]. intros ->.
      rewrite (Hv eq_refl) in Hne'. apply Hne'.
      rewrite abs_byte_set by auto.
      destruct (mload_abs ls (mp m) lv i F H1 H2) as [E1 _]. rewrite E1.
      symmetry. apply pack4_upd_clr; auto. apply (lr_wf _ _ R). }
    rewrite abs_byte_set in CS by auto. rewrite CS.
    assert (Hx : (N.ldiff x (kbit k) < 4)%N) by (apply ldiff_lt4; apply (lr_wf _ _ R)).
    mk_srel; auto.
    + apply lrel_store; auto.
    + unfold pinv in *. simpl in *. rewrite szs_mstore.
      destruct ps as [|a0 p0 k0 r0|a0 p0 k0 r0 v0].
      * rewrite P. reflexivity.
      * destruct P as (gi0 & rest0 & lv0 & i0 & d0 & Hp & L0 & -> & -> & Hw & Hr).
        exists gi0, rest0, lv0, i0, (d0 || addr_eqb (lv, boff i) (lv0, boff i0)).
        rewrite Hw. simpl. repeat split; auto.
        intros Hd. apply orb_false_iff in Hd. destruct Hd as [-> Hd].
        rewrite pend_at_set_neq; auto.
        intro Hc. inversion Hc; subst. rewrite addr_eqb_refl in Hd. discriminate.
      * destruct P as (gi0 & rest0 & lv0 & i0 & d0 & Hp & L0 & -> & -> & Hw & Hr).
        exists gi0, rest0, lv0, i0, (d0 || addr_eqb (lv, boff i) (lv0, boff i0)).
        rewrite Hw. simpl. repeat split; auto.
        -- apply orb_false_iff in H. destruct H as [-> Hd]. destruct (Hr eq_refl) as [-> _].
           rewrite pend_at_set_neq; auto.
           intro Hc. inversion Hc; subst. rewrite addr_eqb_refl in Hd. discriminate.
        -- apply orb_false_iff in H. destruct H as [-> Hd]. destruct (Hr eq_refl) as [_ ->].
           rewrite mload_mstore_neq; auto.
           intro Hc. apply addr_eqb_eq in Hc. congruence.
Qed.

(* ------------------------------------------------------------------ every step *)
Lemma bytes_eqb_refl a : bytes_eqb a a = true.
Proof. induction a; simpl; auto. rewrite N.eqb_refl. auto. Qed.

Lemma final_ok ls m : Forall2 lrel ls m -> levels_eqb (map lbytes ls) (map abs_bytes m) = true.
Proof.
  intros F. induction F; simpl; auto. rewrite (lr_bytes _ _ H), bytes_eqb_refl. auto.
Qed.

Lemma sstep_ok s m o : srel s m -> step_ok (fst (sstep s o)) (smstep m o (snd (sstep s o))).
Proof.
  intros R. pose proof R as [F Q1 Q2 P C].
  destruct o as [k i|c| | |].
  - simpl. mk_srel; auto.
    + rewrite Q1. reflexivity.
    + unfold pinv in *. simpl. destruct (pst s); auto.
      * destruct P as (gi & rest & lv & i0 & d & Hp & H). exists gi, (rest ++ [(k, i)]), lv, i0, d.
        rewrite Hp. split; auto.
      * destruct P as (gi & rest & lv & i0 & d & Hp & H). exists gi, (rest ++ [(k, i)]), lv, i0, d.
        rewrite Hp. split; auto.
  - simpl. mk_srel; auto.
    + rewrite Q2. reflexivity.
    + assert (D : deq_head s -> deq_head (mks (mem s) (outst s) (pprog s) (pst s) (cprog s ++ [c]) (cst s))).
      { intros [rest D]. exists (rest ++ [c]). simpl. rewrite D. reflexivity. }
      destruct (cst s); simpl in *; auto.
      * destruct C as (C1 & C2). split; auto.
      * destruct C as (C1 & C2). split; auto.
      * destruct C as (C1 & C2). split; auto.
      * destruct C as (C1 & C2). split; auto.
      * destruct C as (C1 & C2). split; auto.
  - (* producer *)
    destruct (pst s) eqn:Es; [destruct (pprog s) eqn:Ep|..].
    + unfold sstep. rewrite Es, Ep. simpl. rewrite Q1; try rewrite Ep. exact R.
    + pose proof (p_step_ok s m R) as H. unfold sstep. rewrite Es, Ep in *.
      destruct (p_micro (mem s) (p :: l) PIdle) as [[[ls p'] ac] r]. simpl. apply H. right. congruence.
    + pose proof (p_step_ok s m R) as H. unfold sstep. rewrite Es in *.
      destruct (p_micro (mem s) (pprog s) (PLoad2 a p k r)) as [[[ls p'] ac] r']. simpl. apply H. left. congruence.
    + pose proof (p_step_ok s m R) as H. unfold sstep. rewrite Es in *.
      destruct (p_micro (mem s) (pprog s) (PStore a p k r v)) as [[[ls p'] ac] r']. simpl. apply H. left. congruence.
  - (* consumer *)
    assert (G : forall c, cinv s m c -> c <> CIdle ->
                step_ok (fst (c_apply s c)) (smstep m StepC (snd (c_apply s c)))).
    { intros c Hc Hn. pose proof (c_step_ok s m c R Hc Hn) as H. destruct (c_apply s c). exact H. }
    unfold sstep. destruct (cst s) eqn:Es; try (apply G; [first [exact C|rewrite <- Es; exact C]|congruence]).
    destruct (cprog s) as [|[|] t] eqn:Ep.
    + simpl. rewrite Q2; try rewrite Ep. exact R.
    + destruct (enter (mem s) 0 0) as [c|] eqn:En.
      * apply G.
        -- apply (enter_inv s m 0 0); auto. exists t. auto.
        -- unfold enter in En. destruct (nth_error (mem s) 0) as [[? ? ?|?]|]; inversion En; congruence.
      * simpl. rewrite Q2; try rewrite Ep. mk_srel; auto; try exact P.
    + simpl. rewrite Q2; try rewrite Ep. mk_srel; auto; try exact P.
  - simpl. rewrite (final_ok _ _ F). exact R.
Qed.

Lemma nth_repeat0 n j : nth j (repeat 0%N n) 0%N = 0%N.
Proof. revert j. induction n; intros [|j]; simpl; auto. Qed.

Lemma init_level_rel s : 1 <= s -> lrel (init_level s) (repeat 0%N s).
Proof.
  intros H. unfold init_level. destruct (s =? 1) eqn:E.
  - apply Nat.eqb_eq in E. subst s. constructor; simpl; auto.
    intros [|[|j]]; simpl; lia.
  - apply Nat.eqb_neq in E. constructor; simpl; auto; try lia.
    + apply repeat_length.
    + intros j. rewrite nth_repeat0. lia.
    + apply nth_ext_len with (d := 0%N).
      * rewrite repeat_length, abs_bytes_length, repeat_length. reflexivity.
      * intros b Hb. rewrite repeat_length in Hb. rewrite repeat_nth by auto.
        rewrite nth_abs_bytes by (rewrite repeat_length; auto).
        unfold pack4. rewrite !nth_repeat0. reflexivity.
Qed.

Lemma init_srel sizes : wf_sizes sizes -> srel (sinit sizes) (sminit sizes).
Proof.
  intros W. constructor; simpl; auto.
  - induction W; simpl; constructor; auto using init_level_rel.
  - reflexivity.
Qed.

Lemma monitor_from_overlap_only : forall ops s m pos,
  srel s m ->
  match smonitor_from m pos (srun s ops) with None => True | Some (_, t) => 10 < t end.
Proof.
  induction ops as [|o ops IH]; intros s m pos R; simpl; auto.
  pose proof (sstep_ok s m o R) as H.
  destruct (sstep s o) as [s' r]. simpl in *.
  destruct (smstep m o r) as [[|t] m']; simpl in H.
  - apply IH. exact H.
  - exact H.
Qed.

(* ------------------------------------------------------------------ windows *)
Lemma tagw_small t d : t <= 10 -> 10 < tagw t d -> d = true.
Proof. destruct d; simpl; auto. lia. Qed.

Lemma smstep_wstep m o r :
  match smstep m o r with
  | (SOk, m') => (pwin m', cwin m') = fst (wstep (pwin m, cwin m) o r)
  | (SBad t, _) => 10 < t -> snd (wstep (pwin m, cwin m) o r) = true
  end.
Proof.
  destruct m as [p pq cq pw cw].
  destruct o; destruct r; simpl; try (unfold t_sshape; lia); try reflexivity.
  - destruct pq; simpl; [reflexivity|unfold t_sshape; lia].
  - destruct pq as [|[k gi] rest]; simpl; [unfold t_sshape; lia|].
    destruct ac as [|a v|a v]; destruct r as [|b|e|]; simpl; try (unfold t_sshape; lia); try reflexivity.
    + destruct b; simpl; [unfold t_sshape; lia|].
      destruct (locate _ 0 gi); simpl; [unfold t_sshape; lia|reflexivity].
    + destruct (locate _ 0 gi) as [[lv i]|]; simpl; [|unfold t_sshape; lia].
      destruct (negb _); simpl; [apply tagw_small; unfold t_ret; lia|].
      unfold chk_store. destruct (_ =? _)%N; simpl; [reflexivity|].
      apply tagw_small. destruct (_ =? _)%N; unfold t_dup, t_lost; lia.
  - destruct cq; simpl; [reflexivity|unfold t_sshape; lia].
  - destruct cq as [|[|] rest]; simpl; [unfold t_sshape; lia| |].
    + destruct ac as [|a v|a v]; destruct r as [|b|[[k gi]|]|]; simpl; try (unfold t_sshape; lia); try reflexivity.
      destruct (locate _ 0 gi) as [[lv i]|]; simpl; [|unfold t_sshape; lia].
      destruct (negb _); simpl; [apply tagw_small; unfold t_deq; lia|].
      unfold chk_store. destruct (_ =? _)%N; simpl; [reflexivity|].
      apply tagw_small. destruct (_ =? _)%N; unfold t_dup, t_lost; lia.
    + destruct ac as [|a v|a v]; destruct r as [|b|[[k gi]|]|]; simpl; try (unfold t_sshape; lia); try reflexivity.
  - destruct (levels_eqb _ _); simpl; [reflexivity|unfold t_final; lia].
Qed.

Lemma monitor_overlap_free : forall tr m pos p t,
  overlap_free_from (pwin m, cwin m) tr = true ->
  smonitor_from m pos tr = Some (p, t) -> t <= 10.
Proof.
  induction tr as [|[o r] tr IH]; intros m pos p t Hf Hm; cbn [overlap_free_from smonitor_from] in *; [discriminate|].
  pose proof (smstep_wstep m o r) as W.
  destruct (wstep (pwin m, cwin m) o r) as [w' d] eqn:Ew. cbn [fst snd] in W.
  apply andb_true_iff in Hf. destruct Hf as [Hd Hf]. apply negb_true_iff in Hd. subst d.
  destruct (smstep m o r) as [[|t'] m'].
  - subst w'. eapply IH; eauto.
  - inversion Hm; subst. destruct (Nat.le_gt_cases t 10); auto. specialize (W ltac:(lia)). discriminate.
Qed.

(* ------------------------------------------------------------------ main theorems *)
Theorem monitor_only_overlap sizes ops :
  wf_sizes sizes ->
  match smonitor sizes (srun (sinit sizes) ops) with None => True | Some (_, t) => 10 < t end.
Proof. intros W. apply monitor_from_overlap_only. apply init_srel. auto. Qed.

Theorem overlap_free_accepts sizes ops :
  wf_sizes sizes -> overlap_free (srun (sinit sizes) ops) = true ->
  smonitor sizes (srun (sinit sizes) ops) = None.
Proof.
  intros W Hf. pose proof (monitor_only_overlap sizes ops W) as H.
  destruct (smonitor sizes (srun (sinit sizes) ops)) as [[p t]|] eqn:E; auto.
  pose proof (monitor_overlap_free _ (sminit sizes) 0 p t Hf E). lia.
Qed.

(* ------------------------------------------------------------------ disciplines that exclude overlaps *)
Definition g_safe (s : sys) (o : sop) : bool := g_isr s o && g_irqoff s o.

Definition winv (s : sys) (w : win * win) : Prop :=
  dirty_of (fst w) = false /\ (pst s = PIdle -> fst w = None) /\
  (c_in_rmw s = true -> exists a, snd w = Some (a, false)).

Lemma dirty_open w a : dirty_of (open_win w a) = dirty_of w.
Proof. destruct w as [[? ?]|]; reflexivity. Qed.

Ltac next_level N :=
  match goal with |- context [c_next_level ?a ?b ?c] =>
    specialize (N b c); destruct (c_next_level a b c) as [c' r'];
    destruct r'; simpl; repeat split; auto; destruct c'; simpl; try discriminate; contradiction end.

Lemma wstep_safe s w o :
  winv s w -> g_safe s o = true ->
  snd (wstep w o (snd (sstep s o))) = false /\ winv (fst (sstep s o)) (fst (wstep w o (snd (sstep s o)))).
Proof.
  intros (I1 & I2 & I3) G. unfold g_safe in G. apply andb_true_iff in G. destruct G as [G1 G2].
  destruct s as [ls ou pp ps cp cs]. destruct w as [pw cw]. unfold winv in *. simpl in *.
  destruct o as [k i|c| | |]; simpl in *.
  - repeat split; auto.
  - repeat split; auto.
  - (* producer *)
    unfold c_in_rmw in *. simpl in *.
    destruct ps as [|a p k r|a p k r v]; simpl.
    + destruct pp as [|[k gi] rest]; simpl; [repeat split; auto|].
      destruct (locate (map lsize ls) 0 gi) as [[lv i]|]; simpl.
      * rewrite (I2 eq_refl). simpl. repeat split; auto. discriminate.
      * repeat split; auto.
    + rewrite dirty_open. repeat split; auto. discriminate.
    + repeat split; auto. intros H. rewrite H in G2. discriminate.
  - (* consumer: the producer is idle *)
    unfold p_idle in G1. simpl in G1. destruct ps; try discriminate. rewrite (I2 eq_refl) in *. simpl in *.
    unfold c_in_rmw in *. simpl in *.
    assert (N : forall lv off, match c_next_level ls lv off with
                               | (CRemS _ _ _ _ _, _) => False | _ => True end).
    { intros lv off. unfold c_next_level, enter. destruct (nth_error ls lv) as [[? ? ?|?]|]; simpl; auto. }
    destruct cs as [|lv off fuel i|lv off|lv off|a p k gi|a p k gi v]; simpl.
    + destruct cp as [|[|] t]; simpl; [repeat split; auto; discriminate| |repeat split; auto; discriminate].
      unfold enter. destruct (nth_error ls 0) as [[sz n q|st]|]; simpl; [| |repeat split; auto; discriminate].
      * unfold c_apply, c_micro. simpl.
        destruct (_ && _); simpl; [repeat split; auto; discriminate|].
        destruct (negb _); simpl; [repeat split; auto; discriminate|].
        destruct sz as [|[|f]]; simpl;
          try next_level N; repeat split; auto; discriminate.
      * unfold c_apply, c_micro. simpl.
        destruct (_ && _); simpl; repeat split; auto; discriminate.
    + unfold c_apply, c_micro. simpl.
      destruct (_ && _); simpl; [repeat split; auto; discriminate|].
      destruct (negb _); simpl; [repeat split; auto; discriminate|].
      destruct fuel as [|[|f]]; simpl;
        try next_level N; repeat split; auto; discriminate.
    + unfold c_apply, c_micro. simpl.
      destruct (_ && _); simpl; repeat split; auto; discriminate.
    + unfold c_apply, c_micro. simpl.
      destruct (negb _); simpl; [repeat split; auto; discriminate|].
      next_level N.
    + unfold c_apply, c_micro. simpl. repeat split; auto. intros _. eexists. reflexivity.
    + unfold c_apply, c_micro. simpl. destruct (I3 eq_refl) as [a' ->]. simpl. repeat split; auto. discriminate.
  - repeat split; auto.
Qed.

Lemma guarded_overlap_free : forall ops s w,
  winv s w -> guarded g_safe s ops = true -> overlap_free_from w (srun s ops) = true.
Proof.
  induction ops as [|o ops IH]; intros s w I G; simpl in *; auto.
  apply andb_true_iff in G. destruct G as [G1 G2].
  destruct (wstep_safe s w o I G1) as [D I'].
  destruct (sstep s o) as [s' r]. simpl in *.
  destruct (wstep w o r) as [w' d]. simpl in *. subst d. simpl. apply IH; auto.
Qed.

Lemma guarded_mono (g1 g2 : sys -> sop -> bool) :
  (forall s o, g1 s o = true -> g2 s o = true) ->
  forall ops s, guarded g1 s ops = true -> guarded g2 s ops = true.
Proof.
  intros H. induction ops as [|o ops IH]; intros s G; simpl in *; auto.
  apply andb_true_iff in G. destruct G as [G1 G2]. rewrite (H _ _ G1). simpl. auto.
Qed.

Lemma lock_is_safe s o : g_lock s o = true -> g_safe s o = true.
Proof.
  unfold g_lock, g_safe, g_isr, g_irqoff, c_idle, c_in_rmw. destruct o; auto.
  - destruct (cst s); simpl; auto; discriminate.
  - intros ->. reflexivity.
Qed.

Theorem safe_discipline_accepts sizes ops :
  wf_sizes sizes -> guarded g_safe (sinit sizes) ops = true ->
  smonitor sizes (srun (sinit sizes) ops) = None.
Proof.
  intros W G. apply overlap_free_accepts; auto. apply guarded_overlap_free; auto.
  repeat split; auto. simpl. discriminate.
Qed.

Theorem lock_accepts sizes ops :
  wf_sizes sizes -> guarded g_lock (sinit sizes) ops = true ->
  smonitor sizes (srun (sinit sizes) ops) = None.
Proof.
  intros W G. apply safe_discipline_accepts; auto.
  revert G. apply guarded_mono. apply lock_is_safe.
Qed.

(* ------------------------------------------------------------------ whole operations executed
   atomically, for cross-checks against the sequential model NQueueModel (C12) by computation *)
Fixpoint drain (o : sop) (fuel : nat) (s : sys) : sys :=
  match fuel with
  | O => s
  | S f => match snd (sstep s o) with OIdle => s | _ => drain o f (fst (sstep s o)) end
  end.

Definition atomic_op (fuel : nat) (s : sys) (o : NQueueModel.op) : sys :=
  match o with
  | QueueN i => drain StepP fuel (fst (sstep s (PushP KNotif i)))
  | QueueI i => drain StepP fuel (fst (sstep s (PushP KInd i)))
  | Dequeue => drain StepC fuel (fst (sstep s (PushC CDeq)))
  | Confirm => drain StepC fuel (fst (sstep s (PushC CConf)))
  | Clear => s
  end.

Definition atomic_run (fuel : nat) (sizes : list nat) (ops : list NQueueModel.op) : sys :=
  fold_left (atomic_op fuel) ops (sinit sizes).
