(* Micro-step (single memory access) semantics of bluetoe/notification_queue.hpp for property C13,
   and the executable monitor that judges an observed interleaved run. Definitions only.

   Two contexts share one notification_queue:
     producer  queue_notification( idx ) | queue_indication( idx )     (server::notify/indicate,
               possibly from an interrupt or another thread)
     consumer  dequeue_indication_or_confirmation() | indication_confirmed()   (link layer)
   Shared between them are only the queue bytes (queue_[] of a packed level, state_ of a level of
   size 1); next_ and outstanding_confirmation_index_ are touched by the consumer only, so they
   are read / written as part of the consumer's micro-steps.

   One micro-step = one access to a shared byte followed by the thread-local computation up to
   (not including) the next access to a shared byte, or to the end of the operation:
     add( i, bits ):     L  result = ( queue_[b] & (bits << off) ) == 0
                         L  tmp = queue_[b]                 ( queue_[b] |= bits << off )
                         S  queue_[b] = tmp | bits << off;  return result
     at( i ):            L  ( queue_[b] >> off ) & 3
     remove( i, bits ):  L  tmp = queue_[b]                 ( queue_[b] &= ~( bits << off ) )
                         S  queue_[b] = tmp & ~( bits << off )
   and the same for state_ of the size-1 specialisation, which tests state_ once per kind.
   The memory is NQueueModel's list of levels; levels of size 1 are one byte at offset 0. *)
From BT Require Import Base.ListX Base.Bits2 NQueue.NQueueModel NQueue.NQueueSpec.
Local Open Scope nat_scope.

(* ------------------------------------------------------------------ shared memory *)
Definition addr := (nat * nat)%type.            (* priority level, byte within the level *)
Definition addr_eqb (a b : addr) : bool := Nat.eqb (fst a) (fst b) && Nat.eqb (snd a) (snd b).

Definition dlevel : level := Single 0%N.
Definition lbytes (l : level) : list N := match l with General _ _ q => q | Single st => [st] end.
Definition lput (l : level) (b : nat) (v : N) : level :=
  match l with
  | General s n q => General s n (upd q b v)
  | Single st => match b with O => Single v | S _ => l end
  end.
Definition lnxt (l : level) : nat := match l with General _ n _ => n | Single _ => 0 end.
Definition lset_next (l : level) (n : nat) : level :=
  match l with General s _ q => General s n q | Single st => Single st end.

Definition mload (ls : list level) (a : addr) : N := nth (snd a) (lbytes (nth (fst a) ls dlevel)) 0%N.
Definition mstore (ls : list level) (a : addr) (v : N) : list level :=
  upd ls (fst a) (lput (nth (fst a) ls dlevel) (snd a) v).
Definition set_next (ls : list level) (lv n : nat) : list level :=
  upd ls lv (lset_next (nth lv ls dlevel) n).

(* notification_queue_impl_base: idx < Size ? impl( idx ) : base( idx - Size ); None = end of chain *)
Fixpoint locate (sizes : list nat) (lv i : nat) : option (nat * nat) :=
  match sizes with
  | [] => None
  | s :: t => if i <? s then Some (lv, i) else locate t (S lv) (i - s)
  end.

(* ------------------------------------------------------------------ threads *)
Inductive access := ANone | ALoad (a : addr) (v : N) | AStore (a : addr) (v : N).
Inductive ret := RNone | RBool (b : bool) | REntry (e : option (kind * nat)) | RUnit.

Inductive pstate :=
| PIdle
| PLoad2 (a : addr) (p : nat) (k : kind) (r : bool)          (* about to load for |= *)
| PStore (a : addr) (p : nat) (k : kind) (r : bool) (v : N). (* about to store v | bits << off *)

Inductive cop := CDeq | CConf.
Inductive cstate :=
| CIdle
| CScan (lv off fuel i : nat)                     (* packed level: about to execute at( i ) *)
| CSingI (lv off : nat)                           (* size 1: about to test state_ & indication_bit *)
| CSingN (lv off : nat)                           (* size 1: about to test state_ & notification_bit *)
| CRem (a : addr) (p : nat) (k : kind) (gi : nat)            (* about to load for &= *)
| CRemS (a : addr) (p : nat) (k : kind) (gi : nat) (v : N).  (* about to store v & ~( bits << off ) *)

Definition p_micro (ls : list level) (prog : list (kind * nat)) (p : pstate)
  : list level * pstate * access * ret :=
  match p with
  | PIdle =>
      match prog with
      | [] => (ls, PIdle, ANone, RNone)
      | (k, gi) :: _ =>
          match locate (map lsize ls) 0 gi with
          | None => (ls, PIdle, ANone, RBool false)
          | Some (lv, i) =>
              let a := (lv, boff i) in
              let v := mload ls a in
              (ls, PLoad2 a (slot i) k (N.land v (N.shiftl (kbit k) (sh (slot i))) =? 0)%N, ALoad a v, RNone)
          end
      end
  | PLoad2 a p k r => (ls, PStore a p k r (mload ls a), ALoad a (mload ls a), RNone)
  | PStore a p k r v => (mstore ls a (byte_or v p (kbit k)), PIdle, AStore a (byte_or v p (kbit k)), RBool r)
  end.

(* the consumer arrives at level lv; None = end of the chain *)
Definition enter (ls : list level) (lv off : nat) : option cstate :=
  match nth_error ls lv with
  | None => None
  | Some (General s n _) => Some (CScan lv off s n)
  | Some (Single _) => Some (CSingI lv off)
  end.

Definition c_next_level (ls : list level) (lv off : nat) : cstate * ret :=
  match enter ls lv off with Some c => (c, RNone) | None => (CIdle, REntry None) end.

Definition c_micro (ls : list level) (ou : option nat) (c : cstate)
  : list level * option nat * cstate * access * ret :=
  match c with
  | CIdle => (ls, ou, CIdle, ANone, RNone)
  | CScan lv off fuel i =>
      let a := (lv, boff i) in
      let v := mload ls a in
      let e := bget v (slot i) in
      let s := lsize (nth lv ls dlevel) in
      if negb (N.land e 2 =? 0)%N && is_none ou then
        (set_next ls lv ((i + 1) mod s), Some (i + off), CRem a (slot i) KInd (i + off), ALoad a v, RNone)
      else if negb (N.land e 1 =? 0)%N then
        (set_next ls lv ((i + 1) mod s), ou, CRem a (slot i) KNotif (i + off), ALoad a v, RNone)
      else
        match fuel with
        | S (S f) => (ls, ou, CScan lv off (S f) ((i + 1) mod s), ALoad a v, RNone)
        | _ => let '(c', r) := c_next_level ls (S lv) (off + s) in (ls, ou, c', ALoad a v, r)
        end
  | CSingI lv off =>
      let a := (lv, 0) in
      let v := mload ls a in
      if negb (N.land v 2 =? 0)%N && is_none ou then
        (ls, Some off, CRem a 0 KInd off, ALoad a v, RNone)
      else (ls, ou, CSingN lv off, ALoad a v, RNone)
  | CSingN lv off =>
      let a := (lv, 0) in
      let v := mload ls a in
      if negb (N.land v 1 =? 0)%N then (ls, ou, CRem a 0 KNotif off, ALoad a v, RNone)
      else let '(c', r) := c_next_level ls (S lv) (off + 1) in (ls, ou, c', ALoad a v, r)
  | CRem a p k gi => (ls, ou, CRemS a p k gi (mload ls a), ALoad a (mload ls a), RNone)
  | CRemS a p k gi v =>
      (mstore ls a (byte_clr v p (kbit k)), ou, CIdle, AStore a (byte_clr v p (kbit k)), REntry (Some (k, gi)))
  end.

(* ------------------------------------------------------------------ the system *)
Record sys := mks {
  mem : list level; outst : option nat;
  pprog : list (kind * nat); pst : pstate;      (* head of pprog = the operation in progress *)
  cprog : list cop; cst : cstate }.

Definition sinit (sizes : list nat) : sys := mks (map init_level sizes) None [] PIdle [] CIdle.

Inductive sop := PushP (k : kind) (i : nat) | PushC (c : cop) | StepP | StepC | Fin.
Inductive sout :=
| OAck | OIdle
| OStep (ac : access) (r : ret)
| OFinal (bytes : list (list N)) (nexts : list nat) (ou : option nat).

Definition done (r : ret) : bool := match r with RNone => false | _ => true end.

Definition c_apply (s : sys) (c : cstate) : sys * sout :=
  let '(ls, ou, c', ac, r) := c_micro (mem s) (outst s) c in
  (mks ls ou (pprog s) (pst s) (if done r then tl (cprog s) else cprog s) c', OStep ac r).

Definition sstep (s : sys) (o : sop) : sys * sout :=
  match o with
  | PushP k i => (mks (mem s) (outst s) (pprog s ++ [(k, i)]) (pst s) (cprog s) (cst s), OAck)
  | PushC c => (mks (mem s) (outst s) (pprog s) (pst s) (cprog s ++ [c]) (cst s), OAck)
  | StepP =>
      match pst s, pprog s with
      | PIdle, [] => (s, OIdle)
      | _, _ =>
          let '(ls, p', ac, r) := p_micro (mem s) (pprog s) (pst s) in
          (mks ls (outst s) (if done r then tl (pprog s) else pprog s) p' (cprog s) (cst s), OStep ac r)
      end
  | StepC =>
      match cst s with
      | CIdle =>
          match cprog s with
          | [] => (s, OIdle)
          | CConf :: t => (mks (mem s) None (pprog s) (pst s) t CIdle, OStep ANone RUnit)
          | CDeq :: t =>
              match enter (mem s) 0 0 with
              | None => (mks (mem s) (outst s) (pprog s) (pst s) t CIdle, OStep ANone (REntry None))
              | Some c => c_apply s c
              end
          end
      | c => c_apply s c
      end
  | Fin => (s, OFinal (map lbytes (mem s)) (map lnxt (mem s)) (outst s))
  end.

Fixpoint srun (s : sys) (ops : list sop) : list (sop * sout) :=
  match ops with
  | [] => []
  | o :: t => let '(s', r) := sstep s o in (o, r) :: srun s' t
  end.

Fixpoint sfinal (s : sys) (ops : list sop) : sys :=
  match ops with
  | [] => s
  | o :: t => sfinal (fst (sstep s o)) t
  end.

(* a schedule chooses the thread of each micro-step: true = producer, false = consumer *)
Definition choice (b : bool) : sop := if b then StepP else StepC.
Definition program (pops : list (kind * nat)) (cops : list cop) (sched : list bool) : list sop :=
  map (fun x => PushP (fst x) (snd x)) pops ++ map PushC cops ++ map choice sched ++ [Fin].

(* ------------------------------------------------------------------ scheduling disciplines,
   as guards evaluated in the state in which a micro-step is taken *)
Definition p_idle (s : sys) : bool := match pst s with PIdle => true | _ => false end.
Definition c_idle (s : sys) : bool := match cst s with CIdle => true | _ => false end.
Definition c_in_rmw (s : sys) : bool := match cst s with CRemS _ _ _ _ _ => true | _ => false end.

(* free interleaving *)
Definition g_free (s : sys) (o : sop) : bool := true.
(* single core, the producer is an interrupt handler: it runs to completion, i.e. the consumer
   (main context) executes only while no producer operation is in progress *)
Definition g_isr (s : sys) (o : sop) : bool := match o with StepC => p_idle s | _ => true end.
(* the consumer executes the read-modify-write of remove() with interrupts disabled *)
Definition g_irqoff (s : sys) (o : sop) : bool := match o with StepP => negb (c_in_rmw s) | _ => true end.
(* mutual exclusion of whole operations (a lock around both sides) *)
Definition g_lock (s : sys) (o : sop) : bool :=
  match o with StepP => c_idle s | StepC => p_idle s | _ => true end.

Fixpoint guarded (g : sys -> sop -> bool) (s : sys) (ops : list sop) : bool :=
  match ops with
  | [] => true
  | o :: t => g s o && guarded g (fst (sstep s o)) t
  end.

(* ------------------------------------------------------------------ the monitor
   Abstract object: per level the pending 2-bit value of every characteristic. Every operation
   takes effect at its completing micro-step (the store of add / remove), so:
     ret      queue_* returns true exactly when the request was not pending
     deq      a dequeued request was pending
     lost     after a store the byte lacks a bit of a pending request (the request is lost)
     dup      after a store the byte has a bit of a request that is not pending (it will be
              delivered a second time)
     final    the final queue contents are the pending requests
     shape    output of the wrong kind
   Beside the abstract object the monitor tracks, from the observed accesses alone, whether the
   storing thread's load..store window on that byte contains a store of the other thread to the
   same byte; a violation found at such a store gets the tag + 10 ("..._overlap"). *)
Inductive sverdict := SOk | SBad (tag : nat).
Definition t_lost := 1.
Definition t_dup := 2.
Definition t_ret := 3.
Definition t_deq := 4.
Definition t_final := 5.
Definition t_sshape := 6.
Definition tagw (t : nat) (dirty : bool) : nat := if dirty then t + 10 else t.

Definition win := option (addr * bool).
Record smon := mkm { mp : list (list N); mpq : list (kind * nat); mcq : list cop; pwin : win; cwin : win }.
Definition sminit (sizes : list nat) : smon := mkm (map (fun s => repeat 0%N s) sizes) [] [] None None.

Definition dirty_of (w : win) : bool := match w with Some (_, d) => d | None => false end.
Definition mark (w : win) (a : addr) : win :=
  match w with Some (a', d) => Some (a', d || addr_eqb a a') | None => None end.
Definition open_win (w : win) (a : addr) : win := match w with None => Some (a, false) | _ => w end.

Definition pack4 (p : list N) (b : nat) : N :=
  (nth (4 * b) p 0 + 4 * nth (4 * b + 1) p 0 + 16 * nth (4 * b + 2) p 0 + 64 * nth (4 * b + 3) p 0)%N.
Definition abs_bytes (p : list N) : list N := map (pack4 p) (seq 0 (nbytes (length p))).
Definition abs_byte (m : list (list N)) (a : addr) : N := pack4 (nth (fst a) m []) (snd a).

Definition chk_store (m : list (list N)) (a : addr) (v : N) (dirty : bool) : option nat :=
  let e := abs_byte m a in
  if (v =? e)%N then None
  else Some (tagw (if (N.ldiff e v =? 0)%N then t_dup else t_lost) dirty).

Definition pend_at (m : list (list N)) (lv i : nat) : N := nth i (nth lv m []) 0%N.
Definition pend_set (m : list (list N)) (lv i : nat) (x : N) : list (list N) :=
  upd m lv (upd (nth lv m []) i x).

Fixpoint bytes_eqb (a b : list N) : bool :=
  match a, b with
  | [], [] => true
  | x :: a', y :: b' => (x =? y)%N && bytes_eqb a' b'
  | _, _ => false
  end.
Fixpoint levels_eqb (a b : list (list N)) : bool :=
  match a, b with
  | [], [] => true
  | x :: a', y :: b' => bytes_eqb x y && levels_eqb a' b'
  | _, _ => false
  end.

Definition smstep (m : smon) (o : sop) (r : sout) : sverdict * smon :=
  match o, r with
  | PushP k i, OAck => (SOk, mkm (mp m) (mpq m ++ [(k, i)]) (mcq m) (pwin m) (cwin m))
  | PushC c, OAck => (SOk, mkm (mp m) (mpq m) (mcq m ++ [c]) (pwin m) (cwin m))
  | StepP, OIdle => (match mpq m with [] => SOk | _ => SBad t_sshape end, m)
  | StepP, OStep ac rt =>
      match mpq m with
      | [] => (SBad t_sshape, m)
      | (k, gi) :: rest =>
          match ac, rt with
          | ALoad a v, RNone => (SOk, mkm (mp m) (mpq m) (mcq m) (open_win (pwin m) a) (cwin m))
          | ANone, RBool false =>
              match locate (map (@length N) (mp m)) 0 gi with
              | None => (SOk, mkm (mp m) rest (mcq m) None (cwin m))
              | Some _ => (SBad t_sshape, m)
              end
          | AStore a v, RBool b =>
              match locate (map (@length N) (mp m)) 0 gi with
              | None => (SBad t_sshape, m)
              | Some (lv, i) =>
                  let d := dirty_of (pwin m) in
                  let x := pend_at (mp m) lv i in
                  if negb (Bool.eqb b (negb (has x k))) then (SBad (tagw t_ret d), m)
                  else
                    let m' := pend_set (mp m) lv i (N.lor x (kbit k)) in
                    match chk_store m' a v d with
                    | Some t => (SBad t, m)
                    | None => (SOk, mkm m' rest (mcq m) None (mark (cwin m) a))
                    end
              end
          | _, _ => (SBad t_sshape, m)
          end
      end
  | StepC, OIdle => (match mcq m with [] => SOk | _ => SBad t_sshape end, m)
  | StepC, OStep ac rt =>
      match mcq m with
      | [] => (SBad t_sshape, m)
      | CConf :: rest =>
          match ac, rt with
          | ANone, RUnit => (SOk, mkm (mp m) (mpq m) rest (pwin m) None)
          | _, _ => (SBad t_sshape, m)
          end
      | CDeq :: rest =>
          match ac, rt with
          | ALoad a v, RNone => (SOk, mkm (mp m) (mpq m) (mcq m) (pwin m) (Some (a, false)))
          | ALoad a v, REntry None => (SOk, mkm (mp m) (mpq m) rest (pwin m) None)
          | ANone, REntry None => (SOk, mkm (mp m) (mpq m) rest (pwin m) None)
          | AStore a v, REntry (Some (k, gi)) =>
              match locate (map (@length N) (mp m)) 0 gi with
              | None => (SBad t_sshape, m)
              | Some (lv, i) =>
                  let d := dirty_of (cwin m) in
                  let x := pend_at (mp m) lv i in
                  if negb (has x k) then (SBad (tagw t_deq d), m)
                  else
                    let m' := pend_set (mp m) lv i (N.ldiff x (kbit k)) in
                    match chk_store m' a v d with
                    | Some t => (SBad t, m)
                    | None => (SOk, mkm m' (mpq m) rest (mark (pwin m) a) None)
                    end
              end
          | _, _ => (SBad t_sshape, m)
          end
      end
  | Fin, OFinal bytes _ _ =>
      (if levels_eqb bytes (map abs_bytes (mp m)) then SOk else SBad t_final, m)
  | _, _ => (SBad t_sshape, m)
  end.

Fixpoint smonitor_from (m : smon) (pos : nat) (tr : list (sop * sout)) : option (nat * nat) :=
  match tr with
  | [] => None
  | (o, r) :: t =>
      match smstep m o r with
      | (SOk, m') => smonitor_from m' (S pos) t
      | (SBad tag, _) => Some (pos, tag)
      end
  end.

Definition smonitor (sizes : list nat) (tr : list (sop * sout)) : option (nat * nat) :=
  smonitor_from (sminit sizes) O tr.

(* the run never executes a store whose load..store window was disturbed: the trace is
   overlap free iff the window tracker (the monitor's pwin / cwin, which depend on the observed
   accesses only) is clean at every store *)
Definition wstep (w : win * win) (o : sop) (r : sout) : (win * win) * bool :=
  let '(pw, cw) := w in
  match o, r with
  | StepP, OStep (ALoad a _) RNone => ((open_win pw a, cw), false)
  | StepP, OStep (AStore a _) _ => ((None, mark cw a), dirty_of pw)
  | StepP, OStep ANone _ => ((None, cw), false)
  | StepC, OStep (ALoad a _) RNone => ((pw, Some (a, false)), false)
  | StepC, OStep (AStore a _) _ => ((mark pw a, None), dirty_of cw)
  | StepC, OStep _ _ => ((pw, None), false)
  | _, _ => (w, false)
  end.

Fixpoint overlap_free_from (w : win * win) (tr : list (sop * sout)) : bool :=
  match tr with
  | [] => true
  | (o, r) :: t => let '(w', d) := wstep w o r in negb d && overlap_free_from w' t
  end.
Definition overlap_free (tr : list (sop * sout)) : bool := overlap_free_from (None, None) tr.
