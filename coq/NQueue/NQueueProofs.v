(* Proofs about the notification queue model: every trace of the model, for every priority
   partition with levels of size >= 1 and every operation sequence, is accepted by the monitor
   of NQueueSpec (simulation between the packed model state and the monitor's abstract state,
   with the round-robin potential  age + rank <= Size - 1). *)
From BT Require Import Base.ListX Base.Bits2 NQueue.NQueueModel NQueue.NQueueSpec.
From Coq Require Import Lia ZifyBool.
Local Open Scope nat_scope.

(* ------------------------------------------------------------------ small facts on 2-bit values *)
Definition kind_eqb (a b : kind) : bool :=
  match a, b with KNotif, KNotif | KInd, KInd => true | _, _ => false end.

Lemma kbit_lt k : (kbit k < 4)%N.
Proof. destruct k; simpl; lia. Qed.

Lemma has_lor v k k' : (v < 4)%N -> has (N.lor v (kbit k)) k' = has v k' || kind_eqb k k'.
Proof. intros H. destruct (N4_cases v H) as [E|[E|[E|E]]]; subst; destruct k, k'; reflexivity. Qed.

Lemma has_ldiff v k k' : (v < 4)%N -> has (N.ldiff v (kbit k)) k' = has v k' && negb (kind_eqb k k').
Proof. intros H. destruct (N4_cases v H) as [E|[E|[E|E]]]; subst; destruct k, k'; reflexivity. Qed.

Lemma lor_lt4 v k : (v < 4)%N -> (N.lor v (kbit k) < 4)%N.
Proof. intros H. destruct (N4_cases v H) as [E|[E|[E|E]]]; subst; destruct k; simpl; lia. Qed.

Lemma ldiff_lt4 v k : (v < 4)%N -> (N.ldiff v (kbit k) < 4)%N.
Proof. intros H. destruct (N4_cases v H) as [E|[E|[E|E]]]; subst; destruct k; simpl; lia. Qed.

Lemma has_test v k : has v k = negb (N.land v (kbit k) =? 0)%N.
Proof. reflexivity. Qed.

(* the offsets used by the C++ code are the ones of Base.Bits2 *)
Lemma offsets_agree i : i * 2 / 8 = boff i /\ (i * 2) mod 8 = slot i * 2.
Proof.
  unfold boff, slot.
  pose proof (Nat.div_mod i 4 ltac:(lia)). pose proof (Nat.mod_upper_bound i 4 ltac:(lia)).
  split.
  - symmetry. apply Nat.div_unique with (r := (i mod 4) * 2); lia.
  - symmetry. apply Nat.mod_unique with (q := i / 4); lia.
Qed.

(* ------------------------------------------------------------------ modular positions *)
Definition rank (s n i : nat) : nat := (i + s - n) mod s.

Lemma rank_eq s n i : n < s -> i < s -> rank s n i = if n <=? i then i - n else i + s - n.
Proof.
  intros Hn Hi. unfold rank. destruct (n <=? i) eqn:E.
  - apply Nat.leb_le in E. replace (i + s - n) with ((i - n) + 1 * s) by lia.
    rewrite Nat.mod_add by lia. apply Nat.mod_small. lia.
  - apply Nat.leb_gt in E. apply Nat.mod_small. lia.
Qed.

Lemma succ_mod s i : i < s -> (i + 1) mod s = if i + 1 <? s then i + 1 else 0.
Proof.
  intros Hi. destruct (i + 1 <? s) eqn:E.
  - apply Nat.ltb_lt in E. apply Nat.mod_small; auto.
  - apply Nat.ltb_ge in E. assert (i + 1 = s) by lia. subst s. apply Nat.mod_same. lia.
Qed.

Lemma pos_mod s n t : n < s -> t < s -> (n + t) mod s = if n + t <? s then n + t else n + t - s.
Proof.
  intros Hn Ht. destruct (n + t <? s) eqn:E.
  - apply Nat.ltb_lt in E. apply Nat.mod_small; auto.
  - apply Nat.ltb_ge in E. replace (n + t) with ((n + t - s) + 1 * s) at 1 by lia.
    rewrite Nat.mod_add by lia. apply Nat.mod_small. lia.
Qed.

Lemma rank_lt s n i : n < s -> i < s -> rank s n i < s.
Proof. intros. unfold rank. apply Nat.mod_upper_bound. lia. Qed.

(* ------------------------------------------------------------------ uniform view of a level *)
Definition lnext (l : level) : nat := match l with General _ n _ => n | Single _ => 0 end.
Definition lget (l : level) (i : nat) : N :=
  match l with
  | General _ _ q => get2 q i
  | Single st => match i with O => st | _ => 0%N end
  end.
Definition lwf (l : level) : Prop :=
  match l with
  | General s n q => bytes_ok q /\ length q = nbytes s
  | Single st => (st < 4)%N
  end.

Lemma lget_lt l i : lwf l -> i < lsize l -> (lget l i < 4)%N.
Proof.
  destruct l as [s n q|st]; simpl; intros W Hi.
  - destruct W as [W1 W2]. apply (get2_lt q i 0%N); auto. lia.
  - destruct i; [auto|lia].
Qed.

Lemma mod256_small v : (v < 4)%N -> (v mod 256 = v)%N.
Proof. intros. apply N.mod_small. lia. Qed.

Lemma level_add_spec l i k :
  lwf l -> i < lsize l ->
  fst (level_add l i k) = negb (has (lget l i) k) /\
  lsize (snd (level_add l i k)) = lsize l /\
  lnext (snd (level_add l i k)) = lnext l /\
  lwf (snd (level_add l i k)) /\
  forall j, j < lsize l ->
    lget (snd (level_add l i k)) j = if j =? i then N.lor (lget l i) (kbit k) else lget l j.
Proof.
  destruct l as [s n q|st]; simpl; intros W Hi.
  - destruct W as [W1 W2]. unfold add. simpl.
    pose proof (kbit_lt k) as Hk.
    repeat split.
    + rewrite sweep_test; auto using slot_lt, bytes_ok_nth.
      unfold has, get2. rewrite Bool.negb_involutive. reflexivity.
    + eapply or2_ok; eauto.
    + eapply or2_ok; eauto.
    + intros j Hj. destruct (j =? i) eqn:E.
      * apply Nat.eqb_eq in E. subst j. eapply get2_or2_eq; eauto.
      * apply Nat.eqb_neq in E. eapply get2_or2_neq; eauto.
  - assert (i = 0) by lia. subst i.
    repeat split.
    + unfold has. rewrite Bool.negb_involutive. reflexivity.
    + rewrite mod256_small by (apply lor_lt4; auto). apply lor_lt4; auto.
    + intros j Hj. assert (j = 0) by lia. subst j. simpl.
      apply mod256_small. apply lor_lt4; auto.
Qed.

(* ------------------------------------------------------------------ the circular scan *)
Definition elig_at (q : list N) (no_out : bool) (j : nat) : Prop :=
  exists k, eligible (get2 q j) k no_out = true.

Lemma not_elig v no_out :
  (negb (N.land v 2 =? 0)%N && no_out = false) -> (negb (N.land v 1 =? 0)%N = false) ->
  forall k, eligible v k no_out = false.
Proof.
  intros A B k. unfold eligible, has. destruct k; simpl.
  - rewrite B. reflexivity.
  - destruct no_out; rewrite ?Bool.andb_true_r, ?Bool.andb_false_r in *; auto.
Qed.

Lemma elig_ind v no : negb (N.land v 2 =? 0)%N && no = true -> eligible v KInd no = true.
Proof. intros H. exact H. Qed.
Lemma elig_notif v no : negb (N.land v 1 =? 0)%N = true -> eligible v KNotif no = true.
Proof. intros H. unfold eligible, has. change (kbit KNotif) with 1%N. rewrite H. reflexivity. Qed.

Lemma scan_spec s q n no_out : n < s ->
  forall fuel t, t + fuel = s ->
  (forall j, j < s -> rank s n j < t -> forall k, eligible (get2 q j) k no_out = false) ->
  match scan fuel s q ((n + t) mod s) no_out with
  | None => forall j, j < s -> forall k, eligible (get2 q j) k no_out = false
  | Some (k, i) =>
      i < s /\ eligible (get2 q i) k no_out = true /\
      (forall j, j < s -> rank s n j < rank s n i -> forall k', eligible (get2 q j) k' no_out = false)
  end.
Proof.
  intros Hn. induction fuel as [|f IH]; intros t Ht Hpre; simpl.
  - intros j Hj k. apply Hpre; auto. pose proof (rank_lt s n j Hn Hj). lia.
  - assert (Hts : t < s) by lia.
    set (i := (n + t) mod s).
    assert (Hi : i < s) by (apply Nat.mod_upper_bound; lia).
    assert (Hri : rank s n i = t).
    { rewrite rank_eq by auto. unfold i. rewrite pos_mod by auto.
      destruct (n + t <? s) eqn:E1; destruct (n <=? _) eqn:E2; lia. }
    unfold at_.
    destruct (negb (N.land (get2 q i) 2 =? 0)%N && no_out) eqn:A.
    { split; [auto|]. split.
      - unfold eligible, has. simpl. apply Bool.andb_true_iff in A. destruct A as [A1 A2]. rewrite A1, A2. reflexivity.
      - intros j Hj Hr. apply Hpre; auto. lia. }
    destruct (negb (N.land (get2 q i) 1 =? 0)%N) eqn:B.
    { split; [auto|]. split.
      - unfold eligible, has. simpl. rewrite B. reflexivity.
      - intros j Hj Hr. apply Hpre; auto. lia. }
    replace ((i + 1) mod s) with ((n + (t + 1)) mod s).
    2:{ unfold i. rewrite Nat.add_mod_idemp_l by lia. f_equal. lia. }
    destruct (Nat.eq_dec (t + 1) s) as [Es|Es].
    + (* the scan has visited every position *)
      assert (f = 0) by lia. subst f. simpl.
      intros j Hj k.
      destruct (Nat.eq_dec j i) as [->|Hne]; [apply not_elig; auto|].
      apply Hpre; auto.
      pose proof (rank_lt s n j Hn Hj).
      assert (rank s n j <> t); [|lia].
      intro Hc. apply Hne. rewrite rank_eq in Hc, Hri by auto.
      destruct (n <=? j) eqn:E1; destruct (n <=? i) eqn:E2; lia.
    + apply IH; [lia|].
      intros j Hj Hr k.
      destruct (Nat.eq_dec j i) as [->|Hne]; [apply not_elig; auto|].
      apply Hpre; auto.
      assert (rank s n j <> t); [|lia].
      intro Hc. apply Hne. rewrite rank_eq in Hc, Hri by auto.
      destruct (n <=? j) eqn:E1; destruct (n <=? i) eqn:E2; lia.
Qed.

Lemma level_deq_spec l no_out :
  lwf l -> 1 <= lsize l -> lnext l < lsize l ->
  match level_deq l no_out with
  | (None, l') => l' = l /\ forall j, j < lsize l -> forall k, eligible (lget l j) k no_out = false
  | (Some (k, i), l') =>
      i < lsize l /\ eligible (lget l i) k no_out = true /\
      (forall j, j < lsize l -> rank (lsize l) (lnext l) j < rank (lsize l) (lnext l) i ->
                 forall k', eligible (lget l j) k' no_out = false) /\
      lsize l' = lsize l /\ lnext l' = (i + 1) mod lsize l /\ lwf l' /\
      forall j, j < lsize l -> lget l' j = if j =? i then N.ldiff (lget l i) (kbit k) else lget l j
  end.
Proof.
  destruct l as [s n q|st]; simpl; intros W Hs Hn.
  - destruct W as [W1 W2].
    pose proof (scan_spec s q n no_out Hn s 0 ltac:(lia)) as S.
    rewrite Nat.add_0_r, Nat.mod_small in S by auto.
    specialize (S ltac:(intros; lia)).
    destruct (scan s s q n no_out) as [[k i]|].
    + destruct S as (Hi & He & Hb). simpl.
      pose proof (kbit_lt k) as Hk.
      repeat split; auto.
      * eapply clr2_ok; eauto.
      * eapply clr2_ok; eauto.
      * intros j Hj. unfold remove. destruct (j =? i) eqn:E.
        -- apply Nat.eqb_eq in E. subst j. eapply get2_clr2_eq; eauto.
        -- apply Nat.eqb_neq in E. eapply get2_clr2_neq; eauto.
    + split; auto.
  - assert (Hr0 : forall j, j < 1 -> rank 1 0 j < rank 1 0 0 -> forall k', eligible (lget (Single st) j) k' no_out = false).
    { intros j Hj. assert (j = 0) by lia. subst j. unfold rank. simpl. lia. }
    destruct (negb (N.land st 2 =? 0)%N && no_out) eqn:A.
    { split; [simpl; lia|]. split; [exact A|]. split; [exact Hr0|].
      split; [reflexivity|]. split; [reflexivity|].
      pose proof (ldiff_lt4 st KInd W) as L. change (kbit KInd) with 2%N in L. split.
      - simpl. rewrite N.mod_small by lia. exact L.
      - intros j Hj. simpl in Hj. assert (j = 0) by lia. subst j. simpl. apply N.mod_small. lia. }
    destruct (negb (N.land st 1 =? 0)%N) eqn:B.
    { split; [simpl; lia|]. split; [apply elig_notif; exact B|]. split; [exact Hr0|].
      split; [reflexivity|]. split; [reflexivity|].
      pose proof (ldiff_lt4 st KNotif W) as L. change (kbit KNotif) with 1%N in L. split.
      - simpl. rewrite N.mod_small by lia. exact L.
      - intros j Hj. simpl in Hj. assert (j = 0) by lia. subst j. simpl. apply N.mod_small. lia. }
    split; auto. intros j Hj k. assert (j = 0) by lia. subst j. simpl. apply not_elig; auto.
Qed.

(* ------------------------------------------------------------------ model level ~ monitor level *)
Record lvl_rel (l : level) (m : mlevel) : Prop := {
  r_size : lsize l = msize m;
  r_pos : 1 <= lsize l;
  r_next : lnext l < lsize l;
  r_wf : lwf l;
  r_plen : length (mpend m) = lsize l;
  r_pend : forall i, i < lsize l -> nth i (mpend m) 0%N = lget l i;
  r_alen : length (mages m) = lsize l;
  r_age : forall i k, i < lsize l -> has (lget l i) k = true ->
          age_of (nth i (mages m) (0, 0)) k + rank (lsize l) (lnext l) i <= lsize l - 1
}.

Lemma age_set_same a k x : age_of (set_age a k x) k = x.
Proof. destruct k, a; reflexivity. Qed.
Lemma age_set_other a k k' x : kind_eqb k k' = false -> age_of (set_age a k x) k' = age_of a k'.
Proof. destruct k, k', a; simpl; intros; try discriminate; reflexivity. Qed.

Lemma level_add_rel l m i k :
  lvl_rel l m -> i < lsize l ->
  fst (level_add l i k) = fst (m_level_add m i k) /\
  lvl_rel (snd (level_add l i k)) (snd (m_level_add m i k)).
Proof.
  intros R Hi. destruct R as [Rs Rp Rn Rw Rpl Rpe Ral Rag].
  destruct (level_add_spec l i k Rw Hi) as (A1 & A2 & A3 & A4 & A5).
  pose proof (lget_lt l i Rw Hi) as Hv.
  unfold m_level_add. rewrite Rpe by auto. simpl. split; [auto|].
  constructor; simpl; rewrite ?A2, ?A3; auto.
  - rewrite upd_length. auto.
  - intros j Hj. rewrite A5 by auto. destruct (j =? i) eqn:E.
    + apply Nat.eqb_eq in E. subst j. apply nth_upd_eq. lia.
    + apply Nat.eqb_neq in E. rewrite nth_upd_neq by auto. auto.
  - destruct (negb (has (lget l i) k)); [rewrite upd_length|]; auto.
  - intros j k' Hj Hh. rewrite A5 in Hh by auto.
    destruct (j =? i) eqn:E.
    + apply Nat.eqb_eq in E. subst j. rewrite has_lor in Hh by auto.
      destruct (has (lget l i) k) eqn:Hk; simpl.
      * apply Rag; auto. destruct (kind_eqb k k') eqn:Ek; [|rewrite Bool.orb_false_r in Hh; auto].
        destruct k, k'; simpl in Ek; try discriminate; auto.
      * rewrite nth_upd_eq by lia.
        destruct (kind_eqb k k') eqn:Ek.
        -- assert (k = k') by (destruct k, k'; simpl in Ek; try discriminate; auto). subst k'.
           rewrite age_set_same. pose proof (rank_lt (lsize l) (lnext l) i Rn Hi). lia.
        -- rewrite age_set_other by auto. rewrite Bool.orb_false_r in Hh. apply Rag; auto.
    + apply Nat.eqb_neq in E.
      destruct (negb (has (lget l i) k)); [rewrite nth_upd_neq by auto|]; apply Rag; auto.
Qed.

(* ---- ages_step computes age_step pointwise *)
Lemma ages_step_spec sz no i0 : forall p ages j0,
  length p = length ages ->
  (forall t, t < length p -> age_step sz no i0 (j0 + t) (nth t p 0%N) (nth t ages (0, 0)) <> None) ->
  exists r, ages_step sz no i0 j0 p ages = Some r /\ length r = length p /\
    forall t, t < length p ->
      Some (nth t r (0, 0)) = age_step sz no i0 (j0 + t) (nth t p 0%N) (nth t ages (0, 0)).
Proof.
  induction p as [|v p IH]; intros ages j0 HL HS.
  - exists []. simpl. repeat split; auto. intros; lia.
  - destruct ages as [|a ages]; [simpl in HL; lia|]. simpl in HL.
    destruct (IH ages (S j0) ltac:(lia)) as (r & E & Lr & Hr).
    { intros t Ht. specialize (HS (S t) ltac:(simpl; lia)). simpl in HS.
      replace (S j0 + t) with (j0 + S t) by lia. exact HS. }
    pose proof (HS 0 ltac:(simpl; lia)) as H0. simpl in H0. rewrite Nat.add_0_r in H0.
    destruct (age_step sz no i0 j0 v a) as [a'|] eqn:Ea; [|congruence].
    exists (a' :: r). simpl. rewrite Ea, E. repeat split; auto.
    intros [|t] Ht; simpl.
    + rewrite Nat.add_0_r. auto.
    + replace (j0 + S t) with (S j0 + t) by lia. apply Hr. simpl in Ht. lia.
Qed.

Lemma eligible_has v k no : eligible v k no = true -> has v k = true.
Proof. unfold eligible. intros H. apply Bool.andb_true_iff in H. tauto. Qed.

Lemma level_deq_rel l m no_out :
  lvl_rel l m ->
  match level_deq l no_out with
  | (None, l') => l' = l /\ none_eligible (mpend m) no_out = true
  | (Some (k, i), l') =>
      i < lsize l /\ exists m', m_level_deq m no_out k i = (Ok, m') /\ lvl_rel l' m'
  end.
Proof.
  intros R. destruct R as [Rs Rp Rn Rw Rpl Rpe Ral Rag].
  pose proof (level_deq_spec l no_out Rw Rp Rn) as S.
  destruct (level_deq l no_out) as [[[k i]|] l'].
  - destruct S as (Hi & He & Hb & S1 & S2 & S3 & S4). split; auto.
    unfold m_level_deq. rewrite Rpe by auto.
    rewrite (eligible_has _ _ _ He), He. simpl.
    set (sz := lsize l) in *. set (nx := lnext l) in *.
    assert (Hrk : forall j, j < sz -> j <> i -> (exists k', eligible (lget l j) k' no_out = true) ->
                  rank sz nx i < rank sz nx j).
    { intros j Hj Hne [k' Hk'].
      destruct (Nat.lt_ge_cases (rank sz nx j) (rank sz nx i)) as [L|G].
      - rewrite (Hb j Hj L k') in Hk'. discriminate.
      - assert (rank sz nx j <> rank sz nx i); [|lia].
        intro Hc. apply Hne. rewrite !rank_eq in Hc by auto.
        destruct (nx <=? j) eqn:E1; destruct (nx <=? i) eqn:E2; lia. }
    destruct (ages_step_spec sz no_out i (mpend m) (mages m) 0 ltac:(lia)) as (r & Er & Lr & Hr).
    { intros t Ht. simpl. rewrite Rpl in Ht. rewrite Rpe by auto. unfold age_step.
      destruct (t =? i) eqn:E; [congruence|]. apply Nat.eqb_neq in E.
      assert (forall kk, eligible (lget l t) kk no_out = true ->
                age_of (nth t (mages m) (0, 0)) kk + 2 <=? sz = true) as Hle.
      { intros kk Hk. apply Nat.leb_le.
        pose proof (Rag t kk Ht (eligible_has _ _ _ Hk)).
        pose proof (Hrk t Ht E (ex_intro _ kk Hk)). lia. }
      destruct (eligible (lget l t) KNotif no_out) eqn:EN; [rewrite (Hle KNotif EN)|];
      (destruct (eligible (lget l t) KInd no_out) eqn:EI; [rewrite (Hle KInd EI)|]); congruence. }
    rewrite <- Rs. fold sz. rewrite Er.
    eexists. split; [reflexivity|].
    constructor; simpl; rewrite ?S1, ?S2; auto.
    + apply Nat.mod_upper_bound. lia.
    + rewrite upd_length. auto.
    + intros j Hj. rewrite S4 by auto. destruct (j =? i) eqn:E.
      * apply Nat.eqb_eq in E. subst j. apply nth_upd_eq. lia.
      * apply Nat.eqb_neq in E. rewrite nth_upd_neq by auto. auto.
    + lia.
    + intros j k' Hj Hh. fold sz in Hj.
      specialize (Hr j ltac:(lia)). simpl in Hr. rewrite Rpe in Hr by auto.
      unfold age_step in Hr. rewrite S4 in Hh by auto.
      pose proof (rank_lt sz ((i + 1) mod sz) j ltac:(apply Nat.mod_upper_bound; lia) Hj) as Hrl.
      destruct (j =? i) eqn:E.
      * injection Hr as Hr'. rewrite Hr'. destruct k'; simpl; lia.
      * apply Nat.eqb_neq in E.
        assert (Hage : age_of (nth j r (0, 0)) k' =
                       if eligible (lget l j) k' no_out then S (age_of (nth j (mages m) (0, 0)) k') else 0).
        { destruct (eligible (lget l j) KNotif no_out) eqn:EN;
          [destruct (age_of (nth j (mages m) (0, 0)) KNotif + 2 <=? sz); [|discriminate]|];
          (destruct (eligible (lget l j) KInd no_out) eqn:EI;
           [destruct (age_of (nth j (mages m) (0, 0)) KInd + 2 <=? sz); [|discriminate]|]);
          injection Hr as Hr'; rewrite Hr'; destruct k'; simpl; rewrite ?EN, ?EI; reflexivity. }
        rewrite Hage. destruct (eligible (lget l j) k' no_out) eqn:Ek; [|lia].
        pose proof (Rag j k' Hj Hh) as Hinv.
        pose proof (Hrk j Hj E (ex_intro _ k' Ek)) as Hlt.
        assert (rank sz ((i + 1) mod sz) j = rank sz nx j - rank sz nx i - 1); [|lia].
        rewrite succ_mod by auto.
        rewrite !rank_eq in * by (auto; destruct (i + 1 <? sz) eqn:?; lia).
        destruct (i + 1 <? sz) eqn:E0; destruct (nx <=? j) eqn:E1; destruct (nx <=? i) eqn:E2;
          destruct (_ <=? j) eqn:E3 in |- *; lia.
  - destruct S as [-> Hall]. split; auto.
    unfold none_eligible. apply forallb_forall. intros v Hin.
    apply In_nth with (d := 0%N) in Hin. destruct Hin as (j & Hj & <-).
    rewrite Rpl in Hj. rewrite Rpe by auto. rewrite !Hall by auto. reflexivity.
Qed.

(* ------------------------------------------------------------------ chains *)
Lemma chain_add_rel : forall ls ms i k,
  Forall2 lvl_rel ls ms ->
  fst (chain_add ls i k) = fst (m_chain_add ms i k) /\
  Forall2 lvl_rel (snd (chain_add ls i k)) (snd (m_chain_add ms i k)).
Proof.
  induction ls as [|l ls IH]; intros ms i k F; inversion F as [|? m ? ms' R F']; subst; cbn [chain_add m_chain_add].
  - split; auto.
  - rewrite <- (r_size _ _ R).
    destruct (i <? lsize l) eqn:E.
    + apply Nat.ltb_lt in E. destruct (level_add_rel l m i k R E) as [A B].
      destruct (level_add l i k) as [r l'], (m_level_add m i k) as [e m']. simpl in *. split; auto.
    + destruct (IH ms' (i - lsize l) k F') as [A B].
      destruct (chain_add ls (i - lsize l) k) as [r t'], (m_chain_add ms' (i - lsize l) k) as [e t2].
      simpl in *. split; auto.
Qed.

Lemma chain_deq_rel : forall ls ms off no_out,
  Forall2 lvl_rel ls ms ->
  match chain_deq ls off no_out with
  | (None, ls') => Forall2 lvl_rel ls' ms /\
                   forallb (fun l => none_eligible (mpend l) no_out) ms = true
  | (Some (k, gi), ls') =>
      off <= gi /\ exists ms', m_chain_deq ms no_out k (gi - off) = (Ok, ms') /\ Forall2 lvl_rel ls' ms'
  end.
Proof.
  induction ls as [|l ls IH]; intros ms off no_out F; inversion F as [|? m ? ms' R F']; subst; cbn [chain_deq m_chain_deq].
  - split; auto.
  - pose proof (level_deq_rel l m no_out R) as D.
    destruct (level_deq l no_out) as [[[k i]|] l'].
    + destruct D as (Hi & m' & Em & Rm). split; [lia|].
      replace (i + off - off) with i by lia.
      rewrite <- (r_size _ _ R). apply Nat.ltb_lt in Hi. rewrite Hi, Em.
      eexists; split; [reflexivity|]. constructor; auto.
    + destruct D as [-> Hne].
      specialize (IH ms' (off + lsize l) no_out F').
      destruct (chain_deq ls (off + lsize l) no_out) as [[[k gi]|] t'].
      * destruct IH as (Hge & ms2 & Em & Fm). split; [lia|].
        rewrite <- (r_size _ _ R).
        assert (gi - off <? lsize l = false) as -> by (apply Nat.ltb_ge; lia).
        rewrite Hne. replace (gi - off - lsize l) with (gi - (off + lsize l)) by lia. rewrite Em.
        eexists; split; [reflexivity|]. constructor; auto.
      * destruct IH as [Fm Hall]. split; [constructor; auto|]. cbn [forallb]. rewrite Hne, Hall. reflexivity.
Qed.

(* ------------------------------------------------------------------ states *)
Definition st_rel (s : state) (m : mon) : Prop :=
  Forall2 lvl_rel (levels s) (mlevels m) /\ is_none (outstanding s) = negb (mout m).

Lemma init_level_rel sz : 1 <= sz -> lvl_rel (init_level sz) (minit_level sz).
Proof.
  intros H. unfold init_level, minit_level. destruct (sz =? 1) eqn:E.
  - apply Nat.eqb_eq in E. subst sz. constructor; simpl; auto; try lia.
    + intros i Hi. assert (i = 0) by lia. subst; reflexivity.
    + intros i k Hi Hh. assert (i = 0) by lia. subst. destruct k; discriminate.
  - constructor; simpl; auto; try lia.
    + split; [apply bytes_ok_repeat|apply repeat_length].
    + apply repeat_length.
    + intros i Hi. rewrite repeat_nth by auto. rewrite get2_repeat0. reflexivity.
    + apply repeat_length.
    + intros i k Hi Hh. rewrite get2_repeat0 in Hh. destruct k; discriminate.
Qed.

Lemma init_rel sizes : wf_sizes sizes -> st_rel (init sizes) (minit sizes).
Proof.
  intros W. split; [|reflexivity]. simpl.
  induction W as [|sz t H W IH]; simpl; constructor; auto using init_level_rel.
Qed.

Lemma clear_level_rel l m : lvl_rel l m -> lvl_rel (level_clear l) (m_clear_level m).
Proof.
  intros R. unfold m_clear_level. rewrite <- (r_size _ _ R).
  pose proof (r_pos _ _ R) as P.
  destruct l as [s n q|st]; simpl in *.
  - constructor; simpl; auto; try lia.
    + split; [apply bytes_ok_repeat|apply repeat_length].
    + apply repeat_length.
    + intros i Hi. rewrite repeat_nth by auto. rewrite get2_repeat0. reflexivity.
    + apply repeat_length.
    + intros i k Hi Hh. rewrite get2_repeat0 in Hh. destruct k; discriminate.
  - constructor; simpl; auto; try lia.
    + intros i Hi. assert (i = 0) by lia. subst; reflexivity.
    + intros i k Hi Hh. assert (i = 0) by lia. subst. destruct k; discriminate.
Qed.

Lemma step_rel s m o :
  st_rel s m -> exists m', mstep m o (snd (step s o)) = (Ok, m') /\ st_rel (fst (step s o)) m'.
Proof.
  intros [F O]. destruct o as [i|i| | |]; simpl.
  - destruct (chain_add_rel (levels s) (mlevels m) i KNotif F) as [A B].
    destruct (chain_add (levels s) i KNotif) as [r ls'], (m_chain_add (mlevels m) i KNotif) as [e ms'].
    simpl in *. subst e. rewrite Bool.eqb_reflx. eexists; split; [reflexivity|]. split; auto.
  - destruct (chain_add_rel (levels s) (mlevels m) i KInd F) as [A B].
    destruct (chain_add (levels s) i KInd) as [r ls'], (m_chain_add (mlevels m) i KInd) as [e ms'].
    simpl in *. subst e. rewrite Bool.eqb_reflx. eexists; split; [reflexivity|]. split; auto.
  - pose proof (chain_deq_rel (levels s) (mlevels m) 0 (is_none (outstanding s)) F) as D.
    destruct (chain_deq (levels s) 0 (is_none (outstanding s))) as [[[k gi]|] ls']; simpl.
    + destruct D as (_ & ms' & Em & Fm). rewrite Nat.sub_0_r, O in Em. rewrite Em.
      eexists; split; [reflexivity|]. split; auto. simpl. destruct k; simpl; auto.
    + destruct D as [Fm Hall]. rewrite O in Hall. rewrite Hall.
      eexists; split; [reflexivity|]. split; auto.
  - eexists; split; [reflexivity|]. split; auto.
  - eexists; split; [reflexivity|]. split; simpl; auto.
    clear O. induction F; simpl; constructor; auto using clear_level_rel.
Qed.

Lemma monitor_from_accepts : forall ops s m pos,
  st_rel s m -> monitor_from m pos (run s ops) = None.
Proof.
  induction ops as [|o ops IH]; intros s m pos R; simpl; auto.
  destruct (step_rel s m o R) as (m' & E & R').
  destruct (step s o) as [s' r]. simpl in *. rewrite E. apply IH. auto.
Qed.

(* C12 (and the queue level of C11): every trace of the model satisfies every monitor clause *)
Theorem monitor_accepts_model sizes ops :
  wf_sizes sizes -> monitor sizes (run (init sizes) ops) = None.
Proof. intros W. apply monitor_from_accepts. apply init_rel. auto. Qed.
