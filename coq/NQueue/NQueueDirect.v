(* Monitor-independent theorems about the notification queue model (C12), stated directly over
   the model (init / step / run / final and the state record):
     - at most one indication is outstanding until confirmed / cleared,
     - a dequeue answers a pending request and removes exactly that request (no duplication),
     - queueing a pending request is reported 'already queued' and leaves the state unchanged,
       queueing a fresh request sets exactly that bit (set semantics),
     - clear resets the whole queue to its initial state. *)
From BT Require Import Base.ListX Base.Bits2 NQueue.NQueueModel NQueue.NQueueSpec NQueue.NQueueProofs.
From Coq Require Import Lia ZifyBool.
Local Open Scope nat_scope.

(* ------------------------------------------------------------------ reading the chain *)
(* pending bits (2-bit value) of global characteristic index i *)
Fixpoint cget (ls : list level) (i : nat) : N :=
  match ls with
  | [] => 0%N
  | l :: t => if i <? lsize l then lget l i else cget t (i - lsize l)
  end.

Fixpoint total (ls : list level) : nat :=
  match ls with [] => 0 | l :: t => lsize l + total t end.

Definition pending (s : state) (i : nat) (k : kind) : bool := has (cget (levels s) i) k.

Definition lshape (l : level) : Prop :=
  match l with General s _ _ => s <> 1 | Single _ => True end.

Definition lvl_ok (l : level) : Prop :=
  lwf l /\ 1 <= lsize l /\ lnext l < lsize l /\ lshape l.

Definition inv (sizes : list nat) (s : state) : Prop :=
  Forall lvl_ok (levels s) /\ map lsize (levels s) = sizes.

Lemma cget_lt4 ls : Forall lvl_ok ls -> forall i, (cget ls i < 4)%N.
Proof.
  induction 1 as [|l t Hl Ht IH]; intros i; cbn [cget]; [lia|].
  destruct (i <? lsize l) eqn:E; [|apply IH].
  apply lget_lt; [apply Hl|lia].
Qed.

(* ------------------------------------------------------------------ invariant: levels *)
Lemma init_level_ok sz : 1 <= sz -> lvl_ok (init_level sz) /\ lsize (init_level sz) = sz.
Proof.
  intros H. unfold init_level. destruct (sz =? 1) eqn:E.
  - unfold lvl_ok. cbn. repeat split; try lia.
  - unfold lvl_ok. cbn. repeat split; try lia.
    + apply bytes_ok_repeat.
    + apply repeat_length.
Qed.

Lemma level_clear_ok l : lvl_ok l -> level_clear l = init_level (lsize l).
Proof.
  intros (W & P & Nx & Sh). destruct l as [s n q|st]; cbn in *.
  - unfold init_level. destruct (s =? 1) eqn:E; [lia|reflexivity].
  - reflexivity.
Qed.

Lemma level_add_ok l i k : lvl_ok l -> i < lsize l ->
  lvl_ok (snd (level_add l i k)) /\ lsize (snd (level_add l i k)) = lsize l.
Proof.
  intros (W & P & Nx & Sh) Hi.
  destruct (level_add_spec l i k W Hi) as (_ & B & C & D & _).
  split; [|exact B]. unfold lvl_ok. rewrite B, C. repeat split; auto.
  destruct l as [s n q|st]; unfold level_add, add; cbn; auto.
Qed.

Lemma level_deq_shape l no : lshape l -> lshape (snd (level_deq l no)).
Proof.
  destruct l as [s n q|st]; cbn [level_deq]; intros Sh.
  - destruct (scan s s q n no) as [[k i]|]; cbn; auto.
  - destruct (negb (N.land st 2 =? 0)%N && no); [cbn; auto|].
    destruct (negb (N.land st 1 =? 0)%N); cbn; auto.
Qed.

(* ------------------------------------------------------------------ chains *)
Lemma chain_add_inv : forall ls i k, Forall lvl_ok ls ->
  Forall lvl_ok (snd (chain_add ls i k)) /\ map lsize (snd (chain_add ls i k)) = map lsize ls.
Proof.
  induction ls as [|l t IH]; intros i k F; cbn [chain_add].
  - split; auto.
  - inversion F as [|? ? Hl Ht]; subst. destruct (i <? lsize l) eqn:E.
    + destruct (level_add_ok l i k Hl ltac:(lia)) as [A B].
      destruct (level_add l i k) as [r l']. cbn [fst snd map] in *. split; [constructor; auto|].
      f_equal. exact B.
    + destruct (IH (i - lsize l) k Ht) as [A B].
      destruct (chain_add t (i - lsize l) k) as [r t']. cbn [fst snd map] in *. split; [constructor; auto|].
      f_equal. exact B.
Qed.

Lemma chain_add_spec : forall ls i k, Forall lvl_ok ls -> i < total ls ->
  fst (chain_add ls i k) = negb (has (cget ls i) k) /\
  forall j, cget (snd (chain_add ls i k)) j = if j =? i then N.lor (cget ls i) (kbit k) else cget ls j.
Proof.
  induction ls as [|l t IH]; intros i k F Hi; cbn [chain_add cget total] in *; [lia|].
  inversion F as [|? ? Hl Ht]; subst. destruct (i <? lsize l) eqn:E.
  - destruct (level_add_spec l i k (proj1 Hl) ltac:(lia)) as (A & B & _ & _ & G).
    destruct (level_add l i k) as [r l']. cbn [fst snd] in *. split; [exact A|].
    intros j. cbn [cget]. rewrite B. destruct (j <? lsize l) eqn:Ej.
    + apply G. lia.
    + destruct (j =? i) eqn:Eji; [lia|reflexivity].
  - destruct (IH (i - lsize l) k Ht ltac:(lia)) as [A G].
    destruct (chain_add t (i - lsize l) k) as [r t']. cbn [fst snd] in *. split; [exact A|].
    intros j. cbn [cget]. destruct (j <? lsize l) eqn:Ej.
    + destruct (j =? i) eqn:Eji; [lia|reflexivity].
    + rewrite G. destruct (j - lsize l =? i - lsize l) eqn:E1; destruct (j =? i) eqn:E2;
        try reflexivity; lia.
Qed.

Lemma eligible_zero k no : eligible 0%N k no = false.
Proof. destruct k, no; reflexivity. Qed.

Lemma chain_deq_spec : forall ls off no, Forall lvl_ok ls ->
  match chain_deq ls off no with
  | (None, ls') => ls' = ls /\ forall j k, eligible (cget ls j) k no = false
  | (Some (k, gi), ls') =>
      off <= gi /\ gi - off < total ls /\ eligible (cget ls (gi - off)) k no = true /\
      Forall lvl_ok ls' /\ map lsize ls' = map lsize ls /\
      forall j, cget ls' j = if j =? gi - off then N.ldiff (cget ls (gi - off)) (kbit k) else cget ls j
  end.
Proof.
  induction ls as [|l t IH]; intros off no F; cbn [chain_deq cget total].
  - split; [reflexivity|intros j k; apply eligible_zero].
  - inversion F as [|? ? Hl Ht]; subst. destruct Hl as (W & P & Nx & Sh).
    pose proof (level_deq_spec l no W P Nx) as D.
    pose proof (level_deq_shape l no Sh) as Sh'.
    destruct (level_deq l no) as [[[k i]|] l']; cbn [snd] in Sh'.
    + destruct D as (Hi & He & _ & Hs & Hn & Hw & Hg).
      split; [lia|]. replace (i + off - off) with i by lia. split; [lia|].
      assert ((i <? lsize l) = true) as -> by lia.
      split; [exact He|]. split.
      { constructor; auto. unfold lvl_ok. rewrite Hs, Hn. repeat split; auto.
        apply Nat.mod_upper_bound. lia. }
      split; [cbn [map]; f_equal; auto|].
      intros j. cbn [cget]. rewrite Hs. destruct (j <? lsize l) eqn:Ej.
      * apply Hg. lia.
      * destruct (j =? i) eqn:Eji; [lia|reflexivity].
    + destruct D as [-> Hne].
      specialize (IH (off + lsize l) no Ht).
      destruct (chain_deq t (off + lsize l) no) as [[[k gi]|] t'].
      * destruct IH as (Hge & Hlt & He & Hok & Hsz & Hg).
        split; [lia|]. split; [lia|].
        assert ((gi - off <? lsize l) = false) as -> by lia.
        replace (gi - off - lsize l) with (gi - (off + lsize l)) by lia.
        split; [exact He|]. split; [constructor; auto; repeat split; auto|].
        split; [cbn [map]; f_equal; auto|].
        intros j. cbn [cget]. destruct (j <? lsize l) eqn:Ej.
        -- destruct (j =? gi - off) eqn:Eji; [lia|reflexivity].
        -- rewrite Hg. destruct (j - lsize l =? gi - (off + lsize l)) eqn:E1;
             destruct (j =? gi - off) eqn:E2; try reflexivity; lia.
      * destruct IH as [-> Hall]. split; [reflexivity|].
        intros j k. destruct (j <? lsize l) eqn:Ej; [apply Hne; lia|apply Hall].
Qed.

(* ------------------------------------------------------------------ invariant: states *)
Lemma init_inv sizes : wf_sizes sizes -> inv sizes (init sizes).
Proof.
  intros W. unfold inv, init. cbn [levels].
  induction W as [|sz t H W IH]; cbn [map]; [split; auto|].
  destruct IH as [A B]. destruct (init_level_ok sz H) as [C D].
  split; [constructor; auto|]. f_equal; auto.
Qed.

Lemma clear_inv : forall ls, Forall lvl_ok ls -> map level_clear ls = map init_level (map lsize ls).
Proof.
  induction 1 as [|l t Hl Ht IH]; cbn [map]; [reflexivity|].
  rewrite (level_clear_ok l Hl), IH. reflexivity.
Qed.

Lemma step_inv sizes s o : wf_sizes sizes -> inv sizes s -> inv sizes (fst (step s o)).
Proof.
  intros W [F Sz]. destruct o as [i|i| | |]; cbn [step].
  - destruct (chain_add_inv (levels s) i KNotif F) as [A B].
    destruct (chain_add (levels s) i KNotif) as [r ls']. cbn [fst snd] in *. split; cbn [levels]; congruence.
  - destruct (chain_add_inv (levels s) i KInd F) as [A B].
    destruct (chain_add (levels s) i KInd) as [r ls']. cbn [fst snd] in *. split; cbn [levels]; congruence.
  - pose proof (chain_deq_spec (levels s) 0 (is_none (outstanding s)) F) as D.
    destruct (chain_deq (levels s) 0 (is_none (outstanding s))) as [[[k gi]|] ls']; cbn [fst levels].
    + destruct D as (_ & _ & _ & A & B & _). split; cbn [levels]; congruence.
    + destruct D as [-> _]. split; cbn [levels]; auto.
  - split; cbn [fst levels]; auto.
  - cbn [fst]. rewrite (clear_inv _ F), Sz. apply init_inv. exact W.
Qed.

Lemma final_inv sizes : wf_sizes sizes -> forall ops s, inv sizes s -> inv sizes (final s ops).
Proof.
  intros W. induction ops as [|o ops IH]; intros s I; cbn [final]; auto.
  apply IH. apply step_inv; auto.
Qed.

Lemma reach_inv sizes ops : wf_sizes sizes -> inv sizes (final (init sizes) ops).
Proof. intros W. apply final_inv; auto. apply init_inv; auto. Qed.

(* ================================================================== (1) one outstanding indication *)
Definition ends_outstanding (o : op) : bool :=
  match o with Confirm | Clear => true | _ => false end.

Definition not_ind (r : option (kind * nat)) : Prop :=
  match r with Some (KInd, _) => False | _ => True end.

Lemma scan_no_ind s q : forall fuel i, not_ind (scan fuel s q i false).
Proof.
  induction fuel as [|f IH]; intros i; cbn [scan]; [exact I|].
  rewrite Bool.andb_false_r.
  destruct (negb (N.land (at_ q i) 1 =? 0)%N); [exact I|apply IH].
Qed.

Lemma level_deq_no_ind l : not_ind (fst (level_deq l false)).
Proof.
  destruct l as [s n q|st]; cbn [level_deq].
  - pose proof (scan_no_ind s q s n) as H.
    destruct (scan s s q n false) as [[[|] i]|]; cbn; auto.
  - rewrite Bool.andb_false_r. destruct (negb (N.land st 1 =? 0)%N); cbn; auto.
Qed.

Lemma chain_deq_no_ind : forall ls off, not_ind (fst (chain_deq ls off false)).
Proof.
  induction ls as [|l t IH]; intros off; cbn [chain_deq]; [exact I|].
  pose proof (level_deq_no_ind l) as H.
  destruct (level_deq l false) as [[[k i]|] l']; cbn [fst] in *.
  - destruct k; cbn in *; auto.
  - specialize (IH (off + lsize l)).
    destruct (chain_deq t (off + lsize l) false) as [r t']. cbn [fst] in *. exact IH.
Qed.

(* state level: while an indication is outstanding, dequeue never answers an indication *)
Theorem outstanding_blocks_indication : forall (s : state) (i j : nat),
  outstanding s = Some i -> snd (step s Dequeue) <> OEntry (Some (KInd, j)).
Proof.
  intros s i j Ho. cbn [step]. rewrite Ho. cbn [is_none].
  pose proof (chain_deq_no_ind (levels s) 0) as H.
  destruct (chain_deq (levels s) 0 false) as [[[k gi]|] ls']; cbn [fst snd] in *.
  - destruct k; [discriminate|contradiction].
  - discriminate.
Qed.

(* dequeueing an indication makes it the outstanding one *)
Theorem dequeued_indication_is_outstanding : forall (s : state) (i : nat),
  snd (step s Dequeue) = OEntry (Some (KInd, i)) -> outstanding (fst (step s Dequeue)) = Some i.
Proof.
  intros s i. cbn [step].
  destruct (chain_deq (levels s) 0 (is_none (outstanding s))) as [[[k gi]|] ls']; cbn [fst snd outstanding].
  - destruct k; intros H; inversion H; reflexivity.
  - discriminate.
Qed.

(* it stays outstanding over every operation except indication_confirmed / clear *)
Lemma outstanding_persists s o i :
  outstanding s = Some i -> ends_outstanding o = false -> outstanding (fst (step s o)) = Some i.
Proof.
  intros Ho Hc. destruct o as [x|x| | |]; cbn [step]; try discriminate.
  - destruct (chain_add (levels s) x KNotif) as [r ls']. exact Ho.
  - destruct (chain_add (levels s) x KInd) as [r ls']. exact Ho.
  - rewrite Ho. cbn [is_none]. pose proof (chain_deq_no_ind (levels s) 0) as H.
    destruct (chain_deq (levels s) 0 false) as [[[k gi]|] ls']; cbn [fst outstanding] in *.
    + destruct k; [reflexivity|contradiction].
    + reflexivity.
Qed.

Lemma no_indication_while_outstanding : forall (ops : list op) (s : state) (i j : nat),
  outstanding s = Some i ->
  forallb (fun o => negb (ends_outstanding o)) ops = true ->
  ~ In (Dequeue, OEntry (Some (KInd, j))) (run s ops).
Proof.
  induction ops as [|o ops IH]; intros s i j Ho Hall; cbn [run]; [intros []|].
  cbn [forallb] in Hall. apply Bool.andb_true_iff in Hall. destruct Hall as [Hc Hall].
  apply Bool.negb_true_iff in Hc.
  pose proof (outstanding_persists s o i Ho Hc) as Hp.
  pose proof (outstanding_blocks_indication s i j Ho) as Hb.
  destruct (step s o) as [s' r] eqn:Es. cbn [fst] in Hp.
  intros [Hin|Hin].
  - inversion Hin; subst. rewrite Es in Hb. cbn [snd] in Hb. congruence.
  - exact (IH s' i j Hp Hall Hin).
Qed.

(* trace level: after a dequeue answered an indication, no later dequeue answers an indication
   until indication_confirmed or clear is executed (any state, in particular every reachable one) *)
Theorem at_most_one_indication_outstanding : forall (s : state) (ops : list op) (i j : nat),
  snd (step s Dequeue) = OEntry (Some (KInd, i)) ->
  forallb (fun o => negb (ends_outstanding o)) ops = true ->
  ~ In (Dequeue, OEntry (Some (KInd, j))) (run (fst (step s Dequeue)) ops).
Proof.
  intros s ops i j Hd Hall.
  apply (no_indication_while_outstanding ops _ i j); auto.
  apply dequeued_indication_is_outstanding. exact Hd.
Qed.

(* the same as a statement about one trace: wherever a run (from any start state, in particular
   init sizes) shows a dequeued indication, the rest of the trace shows no further dequeued
   indication as long as the operations contain no indication_confirmed / clear *)
Lemma run_app : forall (a : list op) (s : state) (b : list op),
  run s (a ++ b) = run s a ++ run (final s a) b.
Proof.
  induction a as [|o a IH]; intros s b; cbn [app run final]; [reflexivity|].
  destruct (step s o) as [s' r]. cbn [fst app]. rewrite IH. reflexivity.
Qed.

Lemma run_length : forall (ops : list op) (s : state), length (run s ops) = length ops.
Proof.
  induction ops as [|o ops IH]; intros s; cbn [run]; [reflexivity|].
  destruct (step s o) as [s' r]. cbn [length]. rewrite IH. reflexivity.
Qed.

Lemma app_split_len (A : Type) : forall (a a' b b' : list A),
  length a = length a' -> a ++ b = a' ++ b' -> a = a' /\ b = b'.
Proof.
  induction a as [|x a IH]; destruct a' as [|y a']; cbn [length app]; intros b b' Hl He;
    try discriminate; [auto|].
  injection He as -> He. injection Hl as Hl. destruct (IH a' b b' Hl He) as [-> ->]. auto.
Qed.

Theorem trace_at_most_one_indication_outstanding :
  forall (s0 : state) (ops1 ops2 : list op) (tr1 tr2 : list (op * out)) (i j : nat),
    run s0 (ops1 ++ Dequeue :: ops2) = tr1 ++ (Dequeue, OEntry (Some (KInd, i))) :: tr2 ->
    length tr1 = length ops1 ->
    forallb (fun o => negb (ends_outstanding o)) ops2 = true ->
    ~ In (Dequeue, OEntry (Some (KInd, j))) tr2.
Proof.
  intros s0 ops1 ops2 tr1 tr2 i j Hr Hl Hall. rewrite run_app in Hr.
  set (s := final s0 ops1) in *.
  assert (Hl' : length (run s0 ops1) = length tr1) by (rewrite run_length; auto).
  destruct (app_split_len _ _ _ _ _ Hl' Hr) as [_ E].
  cbn [run] in E. destruct (step s Dequeue) as [s' r] eqn:Es. inversion E; subst.
  pose proof (at_most_one_indication_outstanding s ops2 i j) as T.
  rewrite Es in T. cbn [fst snd] in T. apply T; auto.
Qed.

(* ================================================================== (2) no loss / duplication at dequeue *)
Lemma has_ldiff_other v k k' : (v < 4)%N -> k <> k' -> has (N.ldiff v (kbit k)) k' = has v k'.
Proof.
  intros Hv Hk. rewrite has_ldiff by auto.
  destruct k, k'; try congruence; cbn; apply Bool.andb_true_r.
Qed.

Theorem dequeue_answers_and_removes_exactly_one :
  forall (sizes : list nat) (ops : list op) (s' : state) (k : kind) (i : nat),
    wf_sizes sizes ->
    step (final (init sizes) ops) Dequeue = (s', OEntry (Some (k, i))) ->
    i < total (levels (final (init sizes) ops)) /\
    pending (final (init sizes) ops) i k = true /\
    pending s' i k = false /\
    forall j k', (j, k') <> (i, k) -> pending s' j k' = pending (final (init sizes) ops) j k'.
Proof.
  intros sizes ops s' k i W. set (s := final (init sizes) ops).
  destruct (reach_inv sizes ops W) as [F _]. fold s in F.
  cbn [step]. pose proof (chain_deq_spec (levels s) 0 (is_none (outstanding s)) F) as D.
  destruct (chain_deq (levels s) 0 (is_none (outstanding s))) as [[[k0 gi]|] ls']; intros E; inversion E; subst.
  destruct D as (_ & Hlt & He & _ & _ & Hg). rewrite Nat.sub_0_r in *.
  pose proof (cget_lt4 (levels s) F i) as L4.
  unfold pending. cbn [levels].
  split; [exact Hlt|]. split; [eapply eligible_has; eauto|]. split.
  - rewrite Hg, Nat.eqb_refl. rewrite has_ldiff by auto. destruct k; cbn; apply Bool.andb_false_r.
  - intros j k' Hne. rewrite Hg. destruct (j =? i) eqn:Eji; [|reflexivity].
    apply Nat.eqb_eq in Eji. subst j. apply has_ldiff_other; auto. congruence.
Qed.

(* 'empty' leaves the state unchanged and is answered only if nothing is eligible *)
Theorem dequeue_empty_means_nothing_eligible :
  forall (sizes : list nat) (ops : list op) (s' : state),
    wf_sizes sizes ->
    step (final (init sizes) ops) Dequeue = (s', OEntry None) ->
    s' = final (init sizes) ops /\
    forall j k, eligible (cget (levels s') j) k (is_none (outstanding s')) = false.
Proof.
  intros sizes ops s' W. set (s := final (init sizes) ops).
  destruct (reach_inv sizes ops W) as [F _]. fold s in F.
  cbn [step]. pose proof (chain_deq_spec (levels s) 0 (is_none (outstanding s)) F) as D.
  destruct (chain_deq (levels s) 0 (is_none (outstanding s))) as [[[k0 gi]|] ls']; intros E; inversion E; subst.
  destruct D as [-> Hall]. destruct s as [ls o]. cbn [levels outstanding] in *. split; [reflexivity|exact Hall].
Qed.

(* ================================================================== (3) set semantics of queue_* *)
Definition queue_op (k : kind) (i : nat) : op := match k with KNotif => QueueN i | KInd => QueueI i end.

Lemma step_queue s k i :
  step s (queue_op k i) =
  (mk (snd (chain_add (levels s) i k)) (outstanding s), OBool (fst (chain_add (levels s) i k))).
Proof. destruct k; cbn [queue_op step]; destruct (chain_add (levels s) i _) as [r ls]; reflexivity. Qed.

Definition idem_ok : bool :=
  forallb (fun b => forallb (fun p =>
     implb (has (bget b p) KNotif) (byte_or b p 1 =? b)%N &&
     implb (has (bget b p) KInd) (byte_or b p 2 =? b)%N) (seq 0 4)) (Nrange 256).
Lemma idem_ok_true : idem_ok = true.
Proof. vm_compute. reflexivity. Qed.

Lemma byte_or_idem b p k : (b < 256)%N -> p < 4 -> has (bget b p) k = true -> byte_or b p (kbit k) = b.
Proof.
  intros Hb Hp Hh. pose proof idem_ok_true as S. unfold idem_ok in S.
  rewrite forallb_forall in S. specialize (S b (In_Nrange 256 b Hb)).
  rewrite forallb_forall in S. specialize (S p). rewrite in_seq in S. specialize (S ltac:(lia)).
  apply Bool.andb_true_iff in S. destruct S as [S1 S2].
  destruct k; cbn [kbit].
  - rewrite Hh in S1. cbn [implb] in S1. apply N.eqb_eq. exact S1.
  - rewrite Hh in S2. cbn [implb] in S2. apply N.eqb_eq. exact S2.
Qed.

Lemma level_add_idem l i k : lvl_ok l -> i < lsize l -> has (lget l i) k = true ->
  level_add l i k = (false, l).
Proof.
  intros (W & P & Nx & Sh) Hi Hh.
  destruct (level_add_spec l i k W Hi) as (A & _). rewrite Hh in A. cbn [negb] in A.
  destruct l as [s n q|st]; cbn [level_add lget lsize lwf] in *.
  - unfold add in *. cbn [fst] in A. rewrite A. destruct W as [W1 W2]. f_equal. f_equal.
    unfold or2. unfold get2 in Hh.
    rewrite byte_or_idem; auto using slot_lt, bytes_ok_nth. apply upd_same.
  - assert (i = 0) by lia. subst i. cbn [fst] in A. rewrite A. f_equal. f_equal.
    destruct (N4_cases st W) as [E|[E|[E|E]]]; subst st; destruct k; try reflexivity; discriminate.
Qed.

Lemma chain_add_idem : forall ls i k, Forall lvl_ok ls -> i < total ls -> has (cget ls i) k = true ->
  chain_add ls i k = (false, ls).
Proof.
  induction ls as [|l t IH]; intros i k F Hi Hh; cbn [chain_add cget total] in *; [lia|].
  inversion F as [|? ? Hl Ht]; subst. destruct (i <? lsize l) eqn:E.
  - rewrite (level_add_idem l i k Hl ltac:(lia) Hh). reflexivity.
  - rewrite (IH (i - lsize l) k Ht ltac:(lia) Hh). reflexivity.
Qed.

(* queueing a request that is already pending: 'already queued', state unchanged *)
Theorem queue_pending_is_idempotent :
  forall (sizes : list nat) (ops : list op) (k : kind) (i : nat),
    wf_sizes sizes ->
    i < total (levels (final (init sizes) ops)) ->
    pending (final (init sizes) ops) i k = true ->
    step (final (init sizes) ops) (queue_op k i) = (final (init sizes) ops, OBool false).
Proof.
  intros sizes ops k i W Hi Hp. set (s := final (init sizes) ops) in *.
  destruct (reach_inv sizes ops W) as [F _]. fold s in F.
  rewrite step_queue. unfold pending in Hp. rewrite (chain_add_idem (levels s) i k F Hi Hp).
  cbn [fst snd]. destruct s; reflexivity.
Qed.

(* queueing a request that is not pending: 'newly queued', exactly that request becomes pending,
   the outstanding indication is untouched *)
Theorem queue_fresh_adds_exactly_one :
  forall (sizes : list nat) (ops : list op) (k : kind) (i : nat),
    wf_sizes sizes ->
    i < total (levels (final (init sizes) ops)) ->
    pending (final (init sizes) ops) i k = false ->
    snd (step (final (init sizes) ops) (queue_op k i)) = OBool true /\
    pending (fst (step (final (init sizes) ops) (queue_op k i))) i k = true /\
    outstanding (fst (step (final (init sizes) ops) (queue_op k i))) = outstanding (final (init sizes) ops) /\
    forall j k', (j, k') <> (i, k) ->
      pending (fst (step (final (init sizes) ops) (queue_op k i))) j k' = pending (final (init sizes) ops) j k'.
Proof.
  intros sizes ops k i W Hi Hp. set (s := final (init sizes) ops) in *.
  destruct (reach_inv sizes ops W) as [F _]. fold s in F.
  rewrite step_queue. cbn [fst snd]. unfold pending in *. cbn [levels outstanding].
  destruct (chain_add_spec (levels s) i k F Hi) as [A G].
  pose proof (cget_lt4 (levels s) F i) as L4.
  rewrite A, Hp. split; [reflexivity|]. split; [|split; [reflexivity|]].
  - rewrite G, Nat.eqb_refl, has_lor by auto. destruct k; cbn; apply Bool.orb_true_r.
  - intros j k' Hne. rewrite G. destruct (j =? i) eqn:Eji; [|reflexivity].
    apply Nat.eqb_eq in Eji. subst j. rewrite has_lor by auto.
    destruct k, k'; try congruence; cbn; apply Bool.orb_false_r.
Qed.

(* ================================================================== (4) clear *)
(* clear_indications_and_confirmations resets the whole queue (notification bits, indication
   bits, round robin pointers, outstanding indication) to the initial state *)
Theorem clear_resets_to_initial_state :
  forall (sizes : list nat) (ops : list op),
    wf_sizes sizes -> step (final (init sizes) ops) Clear = (init sizes, OUnit).
Proof.
  intros sizes ops W. destruct (reach_inv sizes ops W) as [F Sz].
  cbn [step]. rewrite (clear_inv _ F), Sz. reflexivity.
Qed.

Lemma cget_init : forall sizes i, cget (map init_level sizes) i = 0%N.
Proof.
  induction sizes as [|sz t IH]; intros i; cbn [map cget]; [reflexivity|].
  destruct (i <? lsize (init_level sz)); [|apply IH].
  unfold init_level. destruct (sz =? 1); cbn [lget].
  - destruct i; reflexivity.
  - apply get2_repeat0.
Qed.

Theorem clear_leaves_nothing_pending :
  forall (sizes : list nat) (ops : list op) (i : nat) (k : kind),
    wf_sizes sizes ->
    pending (fst (step (final (init sizes) ops) Clear)) i k = false /\
    outstanding (fst (step (final (init sizes) ops) Clear)) = None.
Proof.
  intros sizes ops i k W. rewrite (clear_resets_to_initial_state sizes ops W). cbn [fst].
  split; [|reflexivity]. unfold pending, init. cbn [levels]. rewrite cget_init. destruct k; reflexivity.
Qed.

(* ================================================================== examples (hypotheses are satisfiable) *)
Example ex_one_outstanding :
  let s := final (init [2; 1]) [QueueI 0; QueueI 2] in
  snd (step s Dequeue) = OEntry (Some (KInd, 0)) /\
  run (fst (step s Dequeue)) [QueueN 1; Dequeue; Dequeue] =
    [(QueueN 1, OBool true); (Dequeue, OEntry (Some (KNotif, 1))); (Dequeue, OEntry None)] /\
  run (fst (step s Dequeue)) [Confirm; Dequeue] = [(Confirm, OUnit); (Dequeue, OEntry (Some (KInd, 2)))].
Proof. vm_compute. repeat split. Qed.

Example ex_dequeue_removes :
  let s := final (init [2; 1]) [QueueN 1; QueueI 1] in
  snd (step s Dequeue) = OEntry (Some (KInd, 1)) /\
  pending s 1 KInd = true /\ pending (fst (step s Dequeue)) 1 KInd = false /\
  pending (fst (step s Dequeue)) 1 KNotif = true.
Proof. vm_compute. repeat split. Qed.

Example ex_dequeue_empty :
  step (final (init [2; 1]) [QueueI 0; Dequeue; QueueI 2]) Dequeue =
  (final (init [2; 1]) [QueueI 0; Dequeue; QueueI 2], OEntry None).
Proof. vm_compute. reflexivity. Qed.

Example ex_queue_idempotent :
  let s := final (init [5; 1]) [QueueN 4; QueueI 5] in
  pending s 4 KNotif = true /\ pending s 5 KInd = true /\ total (levels s) = 6 /\
  step s (queue_op KNotif 4) = (s, OBool false) /\ step s (queue_op KInd 5) = (s, OBool false).
Proof. vm_compute. repeat split. Qed.

Example ex_queue_fresh :
  let s := final (init [5; 1]) [QueueN 4] in
  pending s 4 KInd = false /\ snd (step s (queue_op KInd 4)) = OBool true.
Proof. vm_compute. repeat split. Qed.

Example ex_clear :
  let s := final (init [3; 1]) [QueueN 2; QueueI 3; QueueI 1; Dequeue] in
  outstanding s = Some 1 /\ pending s 2 KNotif = true /\ pending s 3 KInd = true /\ step s Clear = (init [3; 1], OUnit).
Proof. vm_compute. repeat split. Qed.

Example ex_trace_one_outstanding :
  run (init [2; 1]) ([QueueI 0; QueueI 2] ++ Dequeue :: [QueueN 1; Dequeue; Dequeue]) =
  [(QueueI 0, OBool true); (QueueI 2, OBool true)] ++ (Dequeue, OEntry (Some (KInd, 0))) ::
  [(QueueN 1, OBool true); (Dequeue, OEntry (Some (KNotif, 1))); (Dequeue, OEntry None)].
Proof. vm_compute. reflexivity. Qed.
