(* Executable model of bluetoe/notification_queue.hpp (definitions only, no proofs).

   notification_queue< std::tuple< integral_constant<int,S0>, integral_constant<int,S1>, ... >, Mixin >
   is a chain of levels (highest priority first). A level of Size <> 1 is
   notification_queue_impl<Size,C> (2 bits per characteristic packed into bytes, round robin
   pointer next_); a level of Size = 1 is the specialisation notification_queue_impl<1,C>
   (one byte of flags). outstanding_confirmation_index_ is shared by all levels. *)
From BT Require Import Base.ListX Base.Bits2.
Local Open Scope N_scope.

Inductive kind := KNotif | KInd.
Definition kbit (k : kind) : N := match k with KNotif => 1 | KInd => 2 end.

Inductive level :=
| General (size next : nat) (q : list N)   (* Size, next_, queue_[ (Size*2+7)/8 ] *)
| Single (st : N).                          (* state_ *)

Definition lsize (l : level) : nat :=
  match l with General s _ _ => s | Single _ => 1%nat end.

Record state := mk { levels : list level; outstanding : option nat }.

Definition init_level (s : nat) : level :=
  if Nat.eqb s 1 then Single 0 else General s 0 (repeat 0 (nbytes s)).

Definition init (sizes : list nat) : state := mk (map init_level sizes) None.

(* ---- notification_queue_impl<Size,C>::at / add / remove ----
   C++ uses bit_offset = (index*2) % 8 and byte_offset = index*2/8, which are slot*2 and boff
   (lemma NQueueProofs.offsets_agree). *)
Definition at_ (q : list N) (i : nat) : N := get2 q i.

(* result = ( queue_[b] & (bits << off) ) == 0;  queue_[b] |= bits << off; *)
Definition add (q : list N) (i : nat) (bits : N) : bool * list N :=
  (N.land (nth (boff i) q 0) (N.shiftl bits (sh (slot i))) =? 0, or2 q i bits).

Definition remove (q : list N) (i : nat) (bits : N) : list N := clr2 q i bits.

(* the circular scan of dequeue_indication_or_confirmation; the C++ loop body runs exactly Size
   times (i = next_, next_+1, ... modulo Size) unless it returns earlier *)
Fixpoint scan (fuel size : nat) (q : list N) (i : nat) (no_out : bool) : option (kind * nat) :=
  match fuel with
  | O => None
  | S f =>
      let e := at_ q i in
      if negb (N.land e 2 =? 0) && no_out then Some (KInd, i)
      else if negb (N.land e 1 =? 0) then Some (KNotif, i)
      else scan f size q ((i + 1) mod size) no_out
  end.

(* one level: queue_notification / queue_indication *)
Definition level_add (l : level) (i : nat) (k : kind) : bool * level :=
  match l with
  | General s n q => let '(r, q') := add q i (kbit k) in (r, General s n q')
  | Single st => (N.land st (kbit k) =? 0, Single ((N.lor st (kbit k)) mod 256))
  end.

(* one level: dequeue_indication_or_confirmation( offset, outstanding ) *)
Definition level_deq (l : level) (no_out : bool) : option (kind * nat) * level :=
  match l with
  | General s n q =>
      match scan s s q n no_out with
      | Some (k, i) => (Some (k, i), General s ((i + 1) mod s) (remove q i (kbit k)))
      | None => (None, l)
      end
  | Single st =>
      if negb (N.land st 2 =? 0) && no_out then (Some (KInd, O), Single ((N.ldiff st 2) mod 256))
      else if negb (N.land st 1 =? 0) then (Some (KNotif, O), Single ((N.ldiff st 1) mod 256))
      else (None, l)
  end.

Definition level_clear (l : level) : level :=
  match l with
  | General s _ _ => General s 0 (repeat 0 (nbytes s))
  | Single _ => Single 0
  end.

(* notification_queue_impl_base: idx < Size ? impl::queue( idx ) : base::queue( idx - Size ) *)
Fixpoint chain_add (ls : list level) (i : nat) (k : kind) : bool * list level :=
  match ls with
  | [] => (false, [])
  | l :: t =>
      if Nat.ltb i (lsize l) then let '(r, l') := level_add l i k in (r, l' :: t)
      else let '(r, t') := chain_add t (i - lsize l) k in (r, l :: t')
  end.

Fixpoint chain_deq (ls : list level) (offset : nat) (no_out : bool)
  : option (kind * nat) * list level :=
  match ls with
  | [] => (None, [])
  | l :: t =>
      match level_deq l no_out with
      | (Some (k, i), l') => (Some (k, (i + offset)%nat), l' :: t)
      | (None, l') =>
          let '(r, t') := chain_deq t (offset + lsize l) no_out in (r, l' :: t')
      end
  end.

Inductive op := QueueN (i : nat) | QueueI (i : nat) | Dequeue | Confirm | Clear.
Inductive out := OBool (b : bool) | OEntry (e : option (kind * nat)) | OUnit.

Definition is_none (A : Type) (o : option A) : bool := match o with None => true | Some _ => false end.
Arguments is_none {A} o.

Definition step (s : state) (o : op) : state * out :=
  match o with
  | QueueN i => let '(r, ls) := chain_add (levels s) i KNotif in (mk ls (outstanding s), OBool r)
  | QueueI i => let '(r, ls) := chain_add (levels s) i KInd in (mk ls (outstanding s), OBool r)
  | Dequeue =>
      let '(r, ls) := chain_deq (levels s) 0 (is_none (outstanding s)) in
      let o' := match r with Some (KInd, i) => Some i | _ => outstanding s end in
      (mk ls o', OEntry r)
  | Confirm => (mk (levels s) None, OUnit)
  | Clear => (mk (map level_clear (levels s)) None, OUnit)
  end.

(* the trace of (operation, output) pairs of a run *)
Fixpoint run (s : state) (ops : list op) : list (op * out) :=
  match ops with
  | [] => []
  | o :: t => let '(s', r) := step s o in (o, r) :: run s' t
  end.

Fixpoint final (s : state) (ops : list op) : state :=
  match ops with
  | [] => s
  | o :: t => final (fst (step s o)) t
  end.
