(* Executable model of bluetoe/link_layer/include/bluetoe/advertising.hpp (definitions only, no proofs).

   details::select_advertiser_implementation< LinkLayer, Options... > is the mixin of link_layer<>
   that owns advertising: one of the two channel map classes, one of the two advertising interval
   classes, auto_start_advertising / no_auto_start_advertising, the four advertising types and the
   advertiser for a single type or for several types (change_advertising<>()).

   The model transcribes the code WITH the repairs of the branches
     fix/C24-disabled-adv-channel   (next_channel() tests the map bit; every (re)start of advertising
                                     begins on the first enabled channel)
     fix/C25-adv-request-checks     (connectable_directed_advertising returns before looking at the
                                     header of a PDU that is no connect request; is_valid_scan_request
                                     can be instantiated and checks the size first)
   Everything else is as in the code, quirks included (count_ counts PDUs, not events; count_ is
   decremented by a begin/continue that sends nothing; change_advertising takes effect at the next
   PDU; the directed type's started_ is never reset; ...).

   Bytes are N, positions nat. A PDU is the list of the bytes of the read_buffer handed to
   handle_adv_receive (length = read_buffer::size). The PDU layout is the parameter [off]:
   2 = default_pdu_layout, 3 = nrf_details::encrypted_pdu_layout (header in bytes 0,1 in both,
   body at [off], data_channel_pdu_memory_size( n ) = off + n). *)
From BT Require Import Base.ListX.
Local Open Scope N_scope.

(* ------------------------------------------------------------------ configuration *)
Inductive atype := TUndirected | TDirected | TScannable | TNonConn.

(* adv_ind_pdu_type_code ... adv_scan_ind_pdu_type_code *)
Definition pdu_code (t : atype) : N :=
  match t with TUndirected => 0 | TDirected => 1 | TNonConn => 2 | TScannable => 6 end.

Record addr := mkaddr { abytes : list N; arandom : bool }.

Record cfg := mkcfg {
  c_types : list atype;      (* advertising types given as options; [] = the default (undirected) *)
  c_manual : bool;           (* no_auto_start_advertising *)
  c_varmap : bool;           (* variable_advertising_channel_map *)
  c_varival : bool;          (* variable_advertising_interval *)
  c_ival_ms : N;             (* advertising_interval< ms > (100 when no option is given) *)
  c_off : nat;               (* PDU layout: offset of the body = memory size of an empty PDU *)
  c_own : addr;              (* link_layer().local_address() *)
  c_filter : addr -> bool    (* link_layer().is_connection_request_in_filter( remote ) *)
}.

Definition types_of (c : cfg) : list atype :=
  match c_types c with [] => [TUndirected] | l => l end.
Definition is_multi (c : cfg) : bool := Nat.leb 2 (length (c_types c)).
Definition has_directed (c : cfg) : bool :=
  existsb (fun t => match t with TDirected => true | _ => false end) (types_of c).

(* ------------------------------------------------------------------ PDU access *)
Definition byte_at (p : list N) (i : nat) : N := nth i p 0.
(* Layout::header( pdu ) = read_16bit = *h + ( *( h + 1 ) << 8 ) *)
Definition hdr (p : list N) : N := byte_at p 0 + 256 * byte_at p 1.
Definition slice (p : list N) (a n : nat) : list N := firstn n (skipn a p).

Fixpoint bytes_eqb (a b : list N) : bool :=
  match a, b with
  | [], [] => true
  | x :: a', y :: b' => (x =? y) && bytes_eqb a' b'
  | _, _ => false
  end.

Definition address_length : nat := 6.
Definition header_txaddr_field : N := 64.
Definition header_rxaddr_field : N := 128.
Definition connect_request_size : nat := 34.
Definition connect_request_code : N := 5.
Definition scan_request_size : nat := 12.
Definition scan_request_code : N := 3.

(* advertising_type_base::is_valid_connect_request< Layout >( receive, addr ) *)
Definition valid_connect_base (off : nat) (own : addr) (p : list N) : bool :=
  if negb (Nat.eqb (length p) (off + connect_request_size)) then false
  else
    let h := hdr p in
    (N.land (N.shiftr h 8) 63 =? N.of_nat connect_request_size)
    && (N.land h 15 =? connect_request_code)
    && bytes_eqb (slice p (off + address_length) address_length) (abytes own)
    && Bool.eqb (arandom own) (negb (N.land h header_rxaddr_field =? 0)).

(* advertising_type_base::is_valid_scan_request< Layout >( receive, addr ) *)
Definition valid_scan (off : nat) (own : addr) (p : list N) : bool :=
  if negb (Nat.eqb (length p) (off + scan_request_size)) then false
  else
    let h := hdr p in
    (N.land (N.shiftr h 8) 63 =? N.of_nat scan_request_size)
    && (N.land h 15 =? scan_request_code)
    && bytes_eqb (slice p (off + address_length) address_length) (abytes own)
    && Bool.eqb (arandom own) (negb (N.land h header_rxaddr_field =? 0)).

(* connectable_directed_advertising::impl::is_valid_connect_request *)
Definition valid_connect_directed (off : nat) (own target : addr) (target_valid : bool) (p : list N) : bool :=
  if negb (valid_connect_base off own p) then false
  else
    bytes_eqb (slice p off address_length) (abytes target) && target_valid
    && Bool.eqb (arandom target) (negb (N.land (hdr p) header_txaddr_field =? 0)).

(* remote_address = device_address( &body[ 0 ], header & 0x40 ) *)
Definition remote_of (off : nat) (p : list N) : addr :=
  mkaddr (slice p off address_length) (negb (N.land (hdr p) header_txaddr_field =? 0)).

(* ------------------------------------------------------------------ state *)
Record state := mk {
  ch_idx : N;        (* current_channel_index_: 0..2 (variable map), 37..39 (all_advertising_channel_map) *)
  ch_map : N;        (* variable_advertising_channel_map::map_ *)
  perturb : N;       (* advertiser_base::adv_perturbation_ *)
  ival_us : N;       (* variable_advertising_interval::interval_ *)
  ss_started : bool; (* no_auto_start_advertising::impl *)
  ss_enabled : bool;
  ss_count : N;
  d_addr : addr;     (* connectable_directed_advertising::impl *)
  d_valid : bool;
  d_started : bool;
  selected : nat;    (* advertiser< several types > *)
  proposal : nat;
  data_changed : bool; (* what l2cap_adverting_data_or_scan_response_data_changed() will return *)
  buf_type : N       (* PDU type in the header of advertising_buffer() *)
}.

Definition zero_addr : addr := mkaddr [0; 0; 0; 0; 0; 0] true.   (* device_address() *)

Definition init (c : cfg) : state :=
  mk (if c_varmap c then 0 else 37) 7 0 100000 false false 0 zero_addr false false O O false 0.

(* ------------------------------------------------------------------ channel map *)
Definition first_advertising_channel : N := 37.
Definition last_advertising_channel : N := 39.

(* variable_advertising_channel_map::first_channel_index(): for ( ; ( map_ & ( 1 << result ) ) == 0; ++result ) *)
Fixpoint first_index (fuel : nat) (map r : N) : N :=
  match fuel with
  | O => r
  | S f => if N.land map (N.shiftl 1 r) =? 0 then first_index f map (r + 1) else r
  end.
Definition first_channel_index (map : N) : N := first_index 32 map 0.

(* for ( ; ( map_ & ( 1u << idx ) ) == 0 && ( 1u << idx ) <= map_; ++idx ) *)
Fixpoint seek (fuel : nat) (map idx : N) : N :=
  match fuel with
  | O => idx
  | S f =>
      if (N.land map (N.shiftl 1 idx) =? 0) && (N.shiftl 1 idx <=? map) then seek f map (idx + 1) else idx
  end.

Definition var_next (map idx : N) : N :=
  let i := seek 32 map (idx + 1) in
  if map <? N.shiftl 1 i then first_channel_index map else i.

Definition current_channel (c : cfg) (s : state) : N :=
  if c_varmap c then ch_idx s + first_advertising_channel else ch_idx s.

Definition first_channel_selected (c : cfg) (s : state) : bool :=
  if c_varmap c then ch_idx s =? first_channel_index (ch_map s) else ch_idx s =? first_advertising_channel.

Definition set_idx (s : state) (i : N) : state :=
  mk i (ch_map s) (perturb s) (ival_us s) (ss_started s) (ss_enabled s) (ss_count s)
     (d_addr s) (d_valid s) (d_started s) (selected s) (proposal s) (data_changed s) (buf_type s).

(* None = assert( map_ != 0 ) fails *)
Definition next_channel (c : cfg) (s : state) : option state :=
  if c_varmap c then
    if ch_map s =? 0 then None else Some (set_idx s (var_next (ch_map s) (ch_idx s)))
  else Some (set_idx s (if ch_idx s =? last_advertising_channel then first_advertising_channel else ch_idx s + 1)).

Definition first_channel (c : cfg) (s : state) : option state :=
  if c_varmap c then
    if ch_map s =? 0 then None else Some (set_idx s (first_channel_index (ch_map s)))
  else Some (set_idx s first_advertising_channel).

(* ------------------------------------------------------------------ interval and perturbation *)
Definition max_adv_perturbation : N := 10.
Definition perturbation_stride : N := 7.

Definition current_interval (c : cfg) (s : state) : N :=
  if c_varival c then ival_us s else c_ival_ms c * 1000.

Definition set_perturb (s : state) (p : N) : state :=
  mk (ch_idx s) (ch_map s) p (ival_us s) (ss_started s) (ss_enabled s) (ss_count s)
     (d_addr s) (d_valid s) (d_started s) (selected s) (proposal s) (data_changed s) (buf_type s).

(* advertiser_base::next_adv_event() *)
Definition next_adv_event (c : cfg) (s : state) : N * state :=
  if negb (first_channel_selected c s) then (0, s)
  else
    let p := (perturb s + perturbation_stride) mod (max_adv_perturbation + 1) in
    (current_interval c s + p * 1000, set_perturb s p).

(* ------------------------------------------------------------------ start / stop / count *)
Definition set_ss (s : state) (st en : bool) (cnt : N) : state :=
  mk (ch_idx s) (ch_map s) (perturb s) (ival_us s) st en cnt
     (d_addr s) (d_valid s) (d_started s) (selected s) (proposal s) (data_changed s) (buf_type s).

(* if ( count_ ) { --count_; if ( count_ == 0 ) enabled_ = false; } *)
Definition count_down (en : bool) (cnt : N) : bool * N :=
  if cnt =? 0 then (en, cnt) else (if cnt - 1 =? 0 then false else en, cnt - 1).

Definition begin_of_advertising_events (c : cfg) (s : state) : bool * state :=
  if c_manual c then
    let '(en, cnt) := count_down (ss_enabled s) (ss_count s) in
    (ss_enabled s, set_ss s true en cnt)
  else (true, s).

Definition continued_advertising_events (c : cfg) (s : state) : bool * state :=
  if c_manual c then
    let '(en, cnt) := count_down (ss_enabled s) (ss_count s) in
    (ss_enabled s && ss_started s, set_ss s (ss_started s) en cnt)
  else (true, s).

Definition end_of_advertising_events (c : cfg) (s : state) : state :=
  if c_manual c then set_ss s false false (ss_count s) else s.

(* ------------------------------------------------------------------ advertising data *)
Definition set_dstarted (s : state) : state :=
  mk (ch_idx s) (ch_map s) (perturb s) (ival_us s) (ss_started s) (ss_enabled s) (ss_count s)
     (d_addr s) (d_valid s) true (selected s) (proposal s) (data_changed s) (buf_type s).
Definition set_buf (s : state) (t : N) : state :=
  mk (ch_idx s) (ch_map s) (perturb s) (ival_us s) (ss_started s) (ss_enabled s) (ss_count s)
     (d_addr s) (d_valid s) (d_started s) (selected s) (proposal s) (data_changed s) t.
Definition set_selected (s : state) (k : nat) : state :=
  mk (ch_idx s) (ch_map s) (perturb s) (ival_us s) (ss_started s) (ss_enabled s) (ss_count s)
     (d_addr s) (d_valid s) (d_started s) k (proposal s) (data_changed s) (buf_type s).
Definition set_proposal (s : state) (k : nat) : state :=
  mk (ch_idx s) (ch_map s) (perturb s) (ival_us s) (ss_started s) (ss_enabled s) (ss_count s)
     (d_addr s) (d_valid s) (d_started s) (selected s) k (data_changed s) (buf_type s).
Definition set_changed (s : state) (b : bool) : state :=
  mk (ch_idx s) (ch_map s) (perturb s) (ival_us s) (ss_started s) (ss_enabled s) (ss_count s)
     (d_addr s) (d_valid s) (d_started s) (selected s) (proposal s) b (buf_type s).
Definition set_daddr (s : state) (a : addr) (v : bool) : state :=
  mk (ch_idx s) (ch_map s) (perturb s) (ival_us s) (ss_started s) (ss_enabled s) (ss_count s)
     a v (d_started s) (selected s) (proposal s) (data_changed s) (buf_type s).
Definition set_map (s : state) (m i : N) : state :=
  mk i m (perturb s) (ival_us s) (ss_started s) (ss_enabled s) (ss_count s)
     (d_addr s) (d_valid s) (d_started s) (selected s) (proposal s) (data_changed s) (buf_type s).
Definition set_ival (s : state) (v : N) : state :=
  mk (ch_idx s) (ch_map s) (perturb s) v (ss_started s) (ss_enabled s) (ss_count s)
     (d_addr s) (d_valid s) (d_started s) (selected s) (proposal s) (data_changed s) (buf_type s).

(* the advertising type in use: the only one, or the one selected (None: multipl_advertiser_base<>
   without types, returns empty buffers and false) *)
Definition sel_type (c : cfg) (s : state) : option atype :=
  if is_multi c then nth_error (types_of c) (selected s) else Some (hd TUndirected (types_of c)).

(* fill_advertising_data(): (buffer not empty, state) *)
Definition fill_advertising_data (c : cfg) (s : state) : bool * state :=
  match sel_type c s with
  | None => (false, s)
  | Some TDirected => if d_valid s then (true, set_buf s (pdu_code TDirected)) else (false, set_dstarted s)
  | Some t => (true, set_buf s (pdu_code t))
  end.

(* get_advertising_data(): buffer not empty *)
Definition get_advertising_data (c : cfg) (s : state) : bool :=
  match sel_type c s with
  | None => false
  | Some TDirected => d_valid s
  | Some _ => true
  end.

(* ------------------------------------------------------------------ outputs *)
Inductive sched := NoSched | Sched (ch delay ty : N).   (* schedule_advertisment( ch, adv, rsp, delay, rcv ) *)
Inductive out :=
| OSched (x : sched)
| OAcc (remote : addr)
| ORej (x : sched)
| OBool (b : bool)
| OFault            (* an assert of the code fails *)
| OBadOp.           (* the operation does not exist for this set of options *)

(* handle_start_advertising(); None = assert fails *)
Definition handle_start_advertising (c : cfg) (s : state) : option (state * sched) :=
  let s1 := if is_multi c then set_selected s (proposal s) else s in
  let '(nonempty, s2) := fill_advertising_data c s1 in
  if negb nonempty then Some (s2, NoSched)
  else
    let '(go, s3) := begin_of_advertising_events c s2 in
    if negb go then Some (s3, NoSched)
    else match first_channel c s3 with
         | None => None
         | Some s4 => Some (s4, Sched (current_channel c s4) 0 (buf_type s4))
         end.

(* handle_adv_timeout() *)
Definition handle_adv_timeout (c : cfg) (s : state) : option (state * sched) :=
  let '(fill, s1) :=
    if is_multi c then
      (* selected_ != proposal_ || changed()  -- changed() is not called when the types differ *)
      if negb (Nat.eqb (selected s) (proposal s)) then (true, set_selected s (proposal s))
      else (data_changed s, set_changed s false)
    else (data_changed s, set_changed s false) in
  let '(nonempty, s2) := if fill then fill_advertising_data c s1 else (get_advertising_data c s1, s1) in
  if negb nonempty then Some (s2, NoSched)
  else
    let '(go, s3) := continued_advertising_events c s2 in
    if negb go then Some (s3, NoSched)
    else match next_channel c s3 with
         | None => None
         | Some s4 =>
             let '(d, s5) := next_adv_event c s4 in
             Some (s5, Sched (current_channel c s5) d (buf_type s5))
         end.

(* is_valid_connect_request( receive [, selected_ ] ) *)
Definition valid_connect (c : cfg) (s : state) (p : list N) : bool :=
  match sel_type c s with
  | Some TUndirected => valid_connect_base (c_off c) (c_own c) p
  | Some TDirected => valid_connect_directed (c_off c) (c_own c) (d_addr s) (d_valid s) p
  | _ => false
  end.

(* handle_adv_receive(): does the advertiser report a connection request? *)
Definition accepts (c : cfg) (s : state) (p : list N) : bool :=
  valid_connect c s p && c_filter c (remote_of (c_off c) p).

(* ------------------------------------------------------------------ operations *)
Inductive op :=
| LStart | LStop | Timeout | Rx (p : list N)        (* called by the link layer *)
| Start | StartN (k : N) | Stop                     (* no_auto_start_advertising *)
| AddCh (ch : N) | RmCh (ch : N)                    (* variable_advertising_channel_map *)
| IvalMs (ms : N) | IvalUs (us : N)                 (* variable_advertising_interval *)
| DAddr (a : addr)                                  (* directed_advertising_address *)
| Chg (k : nat)                                     (* change_advertising< k-th type > *)
| DataChanged                                       (* advertising data of the server changed *)
| ConnReq (p : list N) | ScanReq (p : list N).      (* the static predicates *)

Definition lift (r : option (state * sched)) (s : state) : state * out :=
  match r with
  | Some (s', x) => (s', OSched x)
  | None => (s, OFault)
  end.

Definition addr_eqb (a b : addr) : bool :=
  bytes_eqb (abytes a) (abytes b) && Bool.eqb (arandom a) (arandom b).

Definition in_adv_channels (ch : N) : bool := (first_advertising_channel <=? ch) && (ch <=? last_advertising_channel).

Definition step (c : cfg) (s : state) (o : op) : state * out :=
  match o with
  | LStart => lift (handle_start_advertising c s) s
  | LStop => (end_of_advertising_events c s, OSched NoSched)
  | Timeout => lift (handle_adv_timeout c s) s
  | Rx p =>
      if accepts c s p then (s, OAcc (remote_of (c_off c) p))
      else match handle_adv_timeout c s with
           | Some (s', x) => (s', ORej x)
           | None => (s, OFault)
           end
  | Start =>
      if negb (c_manual c) then (s, OBadOp)
      else
        let start := negb (ss_enabled s) in
        let s1 := set_ss s (ss_started s) true 0 in
        if start && ss_started s then lift (handle_start_advertising c s1) s else (s1, OSched NoSched)
  | StartN k =>
      if negb (c_manual c) then (s, OBadOp)
      else if k =? 0 then (s, OFault)
      else
        let start := negb (ss_enabled s) in
        let s1 := set_ss s (ss_started s) true k in
        if start && ss_started s then lift (handle_start_advertising c s1) s else (s1, OSched NoSched)
  | Stop =>
      if negb (c_manual c) then (s, OBadOp) else (set_ss s (ss_started s) false 0, OSched NoSched)
  | AddCh ch =>
      if negb (c_varmap c) then (s, OBadOp)
      else if negb (in_adv_channels ch) then (s, OFault)
      else
        let m := N.lor (ch_map s) (N.shiftl 1 (ch - first_advertising_channel)) in
        (set_map s m (first_channel_index m), OSched NoSched)
  | RmCh ch =>
      if negb (c_varmap c) then (s, OBadOp)
      else if negb (in_adv_channels ch) then (s, OFault)
      else
        let m := N.ldiff (ch_map s) (N.shiftl 1 (ch - first_advertising_channel)) in
        (set_map s m (if m =? 0 then ch_idx s else first_channel_index m), OSched NoSched)
  | IvalMs ms =>
      if negb (c_varival c) then (s, OBadOp)
      else ((if (20 <=? ms) && (ms <=? 10240) then set_ival s (ms * 1000) else s), OSched NoSched)
  | IvalUs us =>
      if negb (c_varival c) then (s, OBadOp)
      else ((if (20000 <=? us) && (us <=? 10240000) then set_ival s us else s), OSched NoSched)
  | DAddr a =>
      if negb (has_directed c) then (s, OBadOp)
      else
        let address_valid := negb (addr_eqb a zero_addr) in
        let start := negb (d_valid s) && address_valid in
        let s1 := set_daddr s a address_valid in
        if start && d_started s then lift (handle_start_advertising c s1) s else (s1, OSched NoSched)
  | Chg k =>
      if is_multi c && Nat.ltb k (length (types_of c)) then (set_proposal s k, OSched NoSched) else (s, OBadOp)
  | DataChanged => (set_changed s true, OSched NoSched)
  | ConnReq p => (s, OBool (valid_connect_base (c_off c) (c_own c) p))
  | ScanReq p => (s, OBool (valid_scan (c_off c) (c_own c) p))
  end.

Fixpoint run (c : cfg) (s : state) (ops : list op) : list (op * out) :=
  match ops with
  | [] => []
  | o :: t => let '(s', r) := step c s o in (o, r) :: run c s' t
  end.

Fixpoint final (c : cfg) (s : state) (ops : list op) : state :=
  match ops with
  | [] => s
  | o :: t => final c (fst (step c s o)) t
  end.
