(* Abstract specification and executable monitors for advertising (properties C24 and the
   advertising.hpp part of C25).

   Both monitors look only at operations and their observed outputs.

   C24  Advertising uses exactly the enabled channels at the configured rate.
   The monitor keeps: the set of enabled channels and the advertising interval (from the
   configuration and the addch / rmch / ival operations), the channel of the last PDU, the number
   of advertisements handed to the radio and not yet answered by a timeout / received PDU, whether
   advertising was stopped, and the PDU budget of start_advertising( count ). For every call of
   schedule_advertisment( channel, .., delay, .. ) it checks
     disabled_channel   the channel is an enabled advertising channel
     stopped            nothing is scheduled after stop_advertising() / a connection, before the next start
     count_bound        not more PDUs than count after start_advertising( count )
     order              a (re)start of advertising and every new advertising event begin on the lowest
                        enabled channel; within an event channels ascend
     once_per_event     within an event no enabled channel is repeated or skipped
     inter_event_delay  delay 0 within an event; interval <= delay <= interval + 10 ms between events
     shape / fault      an output of the wrong kind / an assert of the code failed
   An advertising event is a maximal run of PDUs sent with delay 0; it may be cut short only by
   stop_advertising(), by the count running out or by a connection (the code counts PDUs, which
   the repository's tests pin).
   Usage the code documents as unsupported makes the monitor give up (void, everything accepted
   from there on): a timeout / received PDU while no advertisement is outstanding, a change of the
   channel map while an advertisement is outstanding, advertising with an empty map, a channel
   outside 37..39, start_advertising( 0 ), an operation the option set does not have.

   C25 (advertising.hpp part)  handle_adv_receive() reports a connection request iff
   the PDU is a CONNECT_IND of 34 bytes (in memory and in the length field) addressed to the own
   address and address type, the advertising type in effect is connectable, for directed advertising
   InitA/TxAdd are the configured target, and the initiator passes the connection filter; the
   remote address reported is InitA/TxAdd. The advertising type in effect is the type that is on
   air: the type of the last advertising PDU handed to the radio; change_advertising<>() does not
   change it before the next PDU. Only if the advertiser was (re)started or timed out since without
   handing a PDU to the radio, the type proposed at that moment is allowed as well.  Clause tag: accept_iff; a received PDU on which an assert
   of the code fails: fault.  The static predicates
   is_valid_connect_request / is_valid_scan_request are compared with their specification
   (tag static_iff). *)
From BT Require Import Base.ListX Adv.AdvModel.
Local Open Scope N_scope.

(* ================================================================== C25: what may be accepted *)
Definition pdu_type (p : list N) : N := N.land (byte_at p 0) 15.
Definition tx_add (p : list N) : bool := negb (N.land (byte_at p 0) 64 =? 0).
Definition rx_add (p : list N) : bool := negb (N.land (byte_at p 0) 128 =? 0).
Definition len_field (p : list N) : N := N.land (byte_at p 1) 63.
Definition init_a (off : nat) (p : list N) : list N := slice p off 6.
Definition adv_a (off : nat) (p : list N) : list N := slice p (off + 6) 6.

(* a request of the given type code and payload size, addressed to [own] *)
Definition request_for (code : N) (size : nat) (off : nat) (own : addr) (p : list N) : Prop :=
  pdu_type p = code /\ length p = (off + size)%nat /\ len_field p = N.of_nat size
  /\ adv_a off p = abytes own /\ rx_add p = arandom own.

Definition connect_ind_for := request_for 5 34.
Definition scan_req_for := request_for 3 12.

Definition from_target (off : nat) (target : option addr) (p : list N) : Prop :=
  exists t, target = Some t /\ init_a off p = abytes t /\ tx_add p = arandom t.

Definition initiator (off : nat) (p : list N) : addr := mkaddr (init_a off p) (tx_add p).

(* the property: when may a received PDU be reported as a connection request *)
Definition may_connect (off : nat) (own : addr) (filter : addr -> bool) (target : option addr)
           (t : atype) (p : list N) : Prop :=
  match t with
  | TUndirected => connect_ind_for off own p /\ filter (initiator off p) = true
  | TDirected => connect_ind_for off own p /\ from_target off target p /\ filter (initiator off p) = true
  | TScannable | TNonConn => False
  end.

(* the same as booleans, for the monitor *)
Definition request_for_b (code : N) (size : nat) (off : nat) (own : addr) (p : list N) : bool :=
  (pdu_type p =? code) && Nat.eqb (length p) (off + size) && (len_field p =? N.of_nat size)
  && bytes_eqb (adv_a off p) (abytes own) && Bool.eqb (rx_add p) (arandom own).

Definition from_target_b (off : nat) (target : option addr) (p : list N) : bool :=
  match target with
  | Some t => bytes_eqb (init_a off p) (abytes t) && Bool.eqb (tx_add p) (arandom t)
  | None => false
  end.

Definition may_connect_b (off : nat) (own : addr) (filter : addr -> bool) (target : option addr)
           (t : atype) (p : list N) : bool :=
  match t with
  | TUndirected => request_for_b 5 34 off own p && filter (initiator off p)
  | TDirected => request_for_b 5 34 off own p && from_target_b off target p && filter (initiator off p)
  | TScannable | TNonConn => false
  end.

(* ================================================================== verdicts and tags *)
Inductive verdict := Ok | Bad (tag : nat).
Definition t_disabled_channel := 1%nat.
Definition t_order := 2%nat.
Definition t_once_per_event := 3%nat.
Definition t_inter_event_delay := 4%nat.
Definition t_count_bound := 5%nat.
Definition t_stopped := 6%nat.
Definition t_shape := 7%nat.
Definition t_fault := 8%nat.
Definition t_accept_iff := 9%nat.
Definition t_static_iff := 10%nat.

(* ================================================================== C24 *)
Definition chan_enabled (map ch : N) : bool :=
  (37 <=? ch) && (ch <=? 39) && N.testbit map (ch - 37).
Definition enabled_channels (map : N) : list N := filter (chan_enabled map) [37; 38; 39].
Definition lowest_channel (map : N) : N := hd 0 (enabled_channels map).
Definition next_enabled_after (map l : N) : option N := find (fun ch => l <? ch) (enabled_channels map).

Record mon24 := mkm24 {
  m_void : bool;
  m_map : N;               (* enabled channels: bit 0 = channel 37 *)
  m_ival : N;              (* advertising interval in us *)
  m_last : N;              (* channel of the last PDU *)
  m_pending : N;           (* advertisements handed to the radio and not yet answered *)
  m_on : bool;             (* advertising has not been stopped *)
  m_budget : option N      (* PDUs left of start_advertising( count ) *)
}.

Definition minit24 (c : cfg) : mon24 :=
  mkm24 false 7 (if c_varival c then 100000 else c_ival_ms c * 1000) 0 0 (negb (c_manual c)) None.

Definition void24 (m : mon24) : mon24 :=
  mkm24 true (m_map m) (m_ival m) (m_last m) (m_pending m) (m_on m) (m_budget m).

Definition max_delay : N := 10000.

(* a PDU on [ch] after [delay]; [restart] = it was scheduled by a (re)start of advertising,
   otherwise by a timeout or a received PDU that followed the PDU on m_last *)
Definition judge_pdu (m : mon24) (restart : bool) (ch delay : N) : verdict :=
  if negb (chan_enabled (m_map m) ch) then Bad t_disabled_channel
  else if negb (m_on m) then Bad t_stopped
  else if match m_budget m with Some 0 => true | _ => false end then Bad t_count_bound
  else if restart then (if ch =? lowest_channel (m_map m) then Ok else Bad t_order)
  else
    match next_enabled_after (m_map m) (m_last m) with
    | Some e =>  (* the event is not complete: next enabled channel, at once *)
        if ch <? m_last m then Bad t_order
        else if negb (ch =? e) then Bad t_once_per_event
        else if delay =? 0 then Ok else Bad t_inter_event_delay
    | None =>    (* new event *)
        if negb (ch =? lowest_channel (m_map m)) then Bad t_order
        else if (m_ival m <=? delay) && (delay <=? m_ival m + max_delay) then Ok else Bad t_inter_event_delay
    end.

Definition after_pdu (m : mon24) (ch : N) : mon24 :=
  mkm24 false (m_map m) (m_ival m) ch (m_pending m + 1) (m_on m)
        (match m_budget m with Some b => Some (b - 1) | None => None end).

Definition on_sched (m : mon24) (restart : bool) (x : sched) : verdict * mon24 :=
  match x with
  | NoSched => (Ok, m)
  | Sched ch delay _ => (judge_pdu m restart ch delay, after_pdu m ch)
  end.

Definition answer (m : mon24) : mon24 :=
  mkm24 false (m_map m) (m_ival m) (m_last m) (m_pending m - 1) (m_on m) (m_budget m).
Definition set_on (m : mon24) (on : bool) (b : option N) : mon24 :=
  mkm24 false (m_map m) (m_ival m) (m_last m) (m_pending m) on b.
Definition set_mmap (m : mon24) (map : N) : mon24 :=
  mkm24 false map (m_ival m) (m_last m) (m_pending m) (m_on m) (m_budget m).
Definition set_mival (m : mon24) (v : N) : mon24 :=
  mkm24 false (m_map m) v (m_last m) (m_pending m) (m_on m) (m_budget m).

Definition is_nosched (r : out) : bool := match r with OSched NoSched => true | _ => false end.

Definition mstep24 (c : cfg) (m : mon24) (o : op) (r : out) : verdict * mon24 :=
  if m_void m then (Ok, m)
  else
    (* usage outside the documented preconditions *)
    let unsupported :=
      match o with
      | Timeout | Rx _ => (m_pending m =? 0) || (m_map m =? 0)
      | LStart | DAddr _ => m_map m =? 0
      | Start => (m_map m =? 0) || negb (c_manual c)
      | StartN k => (m_map m =? 0) || (k =? 0) || negb (c_manual c)
      | Stop => negb (c_manual c)
      | AddCh ch | RmCh ch => negb (m_pending m =? 0) || negb (in_adv_channels ch) || negb (c_varmap c)
      | IvalMs _ | IvalUs _ => negb (c_varival c)
      | _ => false
      end in
    if unsupported then (Ok, void24 m)
    else
      match r with
      | OFault => (Bad t_fault, m)
      | OBadOp => (Ok, void24 m)
      | _ =>
        match o, r with
        | LStart, OSched x => on_sched m true x
        | DAddr _, OSched x => on_sched m true x
        | Start, OSched x => on_sched (set_on m true None) true x
        | StartN k, OSched x => on_sched (set_on m true (Some k)) true x
        | Stop, OSched NoSched => (Ok, set_on m false None)
        | LStop, OSched NoSched => (Ok, if c_manual c then set_on m false (m_budget m) else m)
        | Timeout, OSched x => on_sched (answer m) false x
        | Rx _, ORej x => on_sched (answer m) false x
        | Rx _, OAcc _ => (Ok, answer m)
        | AddCh ch, OSched NoSched => (Ok, set_mmap m (N.lor (m_map m) (N.shiftl 1 (ch - 37))))
        | RmCh ch, OSched NoSched => (Ok, set_mmap m (N.ldiff (m_map m) (N.shiftl 1 (ch - 37))))
        | IvalMs ms, OSched NoSched =>
            (Ok, if (20 <=? ms) && (ms <=? 10240) then set_mival m (ms * 1000) else m)
        | IvalUs us, OSched NoSched =>
            (Ok, if (20000 <=? us) && (us <=? 10240000) then set_mival m us else m)
        | Chg _, OSched NoSched => (Ok, m)
        | DataChanged, OSched NoSched => (Ok, m)
        | ConnReq _, OBool _ => (Ok, m)
        | ScanReq _, OBool _ => (Ok, m)
        | _, _ => (Bad t_shape, m)
        end
      end.

(* ================================================================== C25 *)
Definition type_of_code (c : cfg) (code : N) : option atype :=
  find (fun t => pdu_code t =? code) (types_of c).

Record mon25 := mkm25 {
  v_void : bool;
  v_pending : N;
  v_last : option atype;       (* type of the last advertising PDU handed to the radio *)
  v_cands : list atype;        (* types the advertiser may have switched to since, without sending a PDU *)
  v_target : option addr;      (* directed_advertising_address *)
  v_map : N;                   (* enabled advertising channels (only to know when the map is empty) *)
  v_prop : nat                 (* the type proposed by change_advertising (index), used from the next PDU on *)
}.

Definition minit25 (c : cfg) : mon25 := mkm25 false 0 None [] None 7 O.
Definition void25 (m : mon25) : mon25 :=
  mkm25 true (v_pending m) (v_last m) (v_cands m) (v_target m) (v_map m) (v_prop m).

(* a request is judged against the type that is on air: the type of the last advertising PDU handed
   to the radio. Only when the advertiser was (re)started or timed out since WITHOUT handing a PDU to
   the radio (it waits for start_advertising() or for the directed address) may it already have
   switched to the proposed type; those types are allowed as well. *)
Definition in_effect (m : mon25) : list atype :=
  match v_last m with Some t => t :: v_cands m | None => v_cands m end.

Definition prop_types (c : cfg) (m : mon25) : list atype :=
  match nth_error (types_of c) (v_prop m) with Some t => [t] | None => [] end.

(* [handler]: the operation may have run handle_start_advertising / handle_adv_timeout *)
Definition on_sched25 (c : cfg) (handler : bool) (m : mon25) (x : sched) : verdict * mon25 :=
  match x with
  | NoSched =>
      (Ok, if handler
           then mkm25 false (v_pending m) (v_last m) (v_cands m ++ prop_types c m) (v_target m) (v_map m) (v_prop m)
           else m)
  | Sched _ _ code =>
      match type_of_code c code with
      | Some t => (Ok, mkm25 false (v_pending m + 1) (Some t) [] (v_target m) (v_map m) (v_prop m))
      | None => (Bad t_shape, m)
      end
  end.

Definition answer25 (m : mon25) : mon25 :=
  mkm25 false (v_pending m - 1) (v_last m) (v_cands m) (v_target m) (v_map m) (v_prop m).

Definition addr_same (a b : addr) : bool :=
  bytes_eqb (abytes a) (abytes b) && Bool.eqb (arandom a) (arandom b).

Definition mstep25 (c : cfg) (m : mon25) (o : op) (r : out) : verdict * mon25 :=
  if v_void m then (Ok, m)
  else
    match r with
    | OBadOp => (Ok, void25 m)
    | _ =>
      match o, r with
      | Rx p, _ =>
          (* outside the documented usage: nothing outstanding, or advertising with an empty map *)
          if (v_pending m =? 0) || (v_map m =? 0) then (Ok, void25 m)
          else
            let spec t := may_connect_b (c_off c) (c_own c) (c_filter c) (v_target m) t p in
            match r with
            | OAcc a =>
                if existsb spec (in_effect m) && addr_same a (initiator (c_off c) p)
                then (Ok, answer25 m) else (Bad t_accept_iff, m)
            | ORej x =>
                if existsb (fun t => negb (spec t)) (in_effect m)
                then on_sched25 c true (answer25 m) x else (Bad t_accept_iff, m)
            | OFault => (Bad t_fault, m)     (* no received PDU may make the code fail *)
            | _ => (Bad t_shape, m)
            end
      | _, OFault => (Ok, void25 m)          (* the other preconditions are the business of the C24 monitor *)
      | Timeout, OSched x =>
          if v_pending m =? 0 then (Ok, void25 m) else on_sched25 c true (answer25 m) x
      | ConnReq p, OBool b =>
          (if Bool.eqb b (request_for_b 5 34 (c_off c) (c_own c) p) then Ok else Bad t_static_iff, m)
      | ScanReq p, OBool b =>
          (if Bool.eqb b (request_for_b 3 12 (c_off c) (c_own c) p) then Ok else Bad t_static_iff, m)
      | DAddr a, OSched x =>
          on_sched25 c true (mkm25 false (v_pending m) (v_last m) (v_cands m)
                                   (if addr_same a zero_addr then None else Some a) (v_map m) (v_prop m)) x
      | LStart, OSched x => on_sched25 c true m x
      | Start, OSched x => on_sched25 c true m x
      | StartN _, OSched x => on_sched25 c true m x
      | Chg k, OSched NoSched =>
          (* takes effect with the next PDU; the PDU on air keeps its type *)
          (Ok, mkm25 false (v_pending m) (v_last m) (v_cands m) (v_target m) (v_map m) k)
      | AddCh ch, OSched NoSched =>
          (Ok, mkm25 false (v_pending m) (v_last m) (v_cands m) (v_target m) (N.lor (v_map m) (N.shiftl 1 (ch - 37))) (v_prop m))
      | RmCh ch, OSched NoSched =>
          (Ok, mkm25 false (v_pending m) (v_last m) (v_cands m) (v_target m) (N.ldiff (v_map m) (N.shiftl 1 (ch - 37))) (v_prop m))
      | _, OSched x => on_sched25 c false m x
      | _, _ => (Bad t_shape, m)
      end
    end.

(* ================================================================== running a monitor *)
Section Run.
  Variables (M : Type) (mstep : M -> op -> out -> verdict * M).
  (* first violation of a trace: Some (position, tag); None = the property holds on the trace *)
  Fixpoint monitor_from (m : M) (pos : nat) (tr : list (op * out)) : option (nat * nat) :=
    match tr with
    | [] => None
    | (o, r) :: t =>
        match mstep m o r with
        | (Ok, m') => monitor_from m' (S pos) t
        | (Bad tag, _) => Some (pos, tag)
        end
    end.
End Run.
Arguments monitor_from {M} mstep m pos tr.

Definition monitor24 (c : cfg) (tr : list (op * out)) : option (nat * nat) :=
  monitor_from (mstep24 c) (minit24 c) O tr.
Definition monitor25 (c : cfg) (tr : list (op * out)) : option (nat * nat) :=
  monitor_from (mstep25 c) (minit25 c) O tr.

(* ================================================================== well-formed configurations *)
(* the static_asserts of the headers and C++ itself: interval 20 ms .. 10.24 s; an advertising type
   cannot be given twice (it would be a duplicate base class); the two PDU layouts *)
Definition wf_cfg (c : cfg) : Prop :=
  NoDup (c_types c) /\ 20 <= c_ival_ms c <= 10240 /\ (c_off c = 2%nat \/ c_off c = 3%nat).

Definition bytes_ok (p : list N) : Prop := Forall (fun b => b < 256) p.
