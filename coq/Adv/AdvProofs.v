(* Proofs about the advertising model (properties C24 and the advertising.hpp part of C25).

   Part 1 (C24): every trace of the model, for every configuration and every operation sequence,
   is accepted by the C24 monitor of AdvSpec (invariant between the model state and the monitor's
   abstract state: enabled channel set, interval, last channel while an advertisement is
   outstanding, enabled_/count_ against the monitor's on/budget). The stepping function of both
   channel map classes is decided on its whole domain (7 non-empty maps x 3 positions) by
   vm_compute and lifted; as a cycle it enumerates the ascending list of enabled channels
   (var_cycle, all_cycle), and a steady run of the advertiser is exactly that cycle with delay 0
   inside an event and interval + 0..10 ms between events (steady_run).

   Part 2 (C25): the request checks as pure functions of the received byte list are equal to
   their specification (bytes < 256), for both PDU layouts; every trace of the model is accepted
   by the C25 monitor (invariant: the advertising buffer holds a PDU of the type in use whenever one
   is handed to the radio, and the type in use is the type of the last PDU or one proposed since). *)
From BT Require Import Base.ListX Adv.AdvModel Adv.AdvSpec.
From Coq Require Import Lia ZifyBool.
Local Open Scope N_scope.

(* ================================================================== Part 1: C24 *)

Ltac psimpl := cbn [ch_idx ch_map perturb ival_us ss_started ss_enabled ss_count d_addr d_valid d_started
  selected proposal data_changed buf_type set_idx set_ss set_perturb set_dstarted set_buf set_selected
  set_proposal set_changed set_daddr set_map set_ival fst snd negb andb orb].
Tactic Notation "psimpl" "in" hyp(H) := cbn [ch_idx ch_map perturb ival_us ss_started ss_enabled ss_count d_addr d_valid d_started
  selected proposal data_changed buf_type set_idx set_ss set_perturb set_dstarted set_buf set_selected
  set_proposal set_changed set_daddr set_map set_ival fst snd negb andb orb] in H.

(* frame: what C24 looks at *)
Definition same24 (s s' : state) : Prop :=
  ch_idx s' = ch_idx s /\ ch_map s' = ch_map s /\ ival_us s' = ival_us s /\ perturb s' = perturb s /\
  ss_started s' = ss_started s /\ ss_enabled s' = ss_enabled s /\ ss_count s' = ss_count s.

Lemma same24_refl s : same24 s s. Proof. repeat split. Qed.
Lemma same24_trans a b c : same24 a b -> same24 b c -> same24 a c.
Proof. unfold same24. intuition congruence. Qed.

Lemma fill_same c s : same24 s (snd (fill_advertising_data c s)).
Proof.
  unfold fill_advertising_data, same24. destruct (sel_type c s) as [[| | |]|]; try destruct (d_valid s); psimpl; repeat split.
Qed.

(* the effect of begin/continued on enabled_/count_ *)
Definition ss_eff (c : cfg) (s s' : state) (called : bool) : Prop :=
  if c_manual c && called
  then (ss_enabled s', ss_count s') = count_down (ss_enabled s) (ss_count s)
  else ss_enabled s' = ss_enabled s /\ ss_count s' = ss_count s.

Lemma begin_effect c s b s' :
  begin_of_advertising_events c s = (b, s') ->
  ss_eff c s s' true /\ (b = true -> c_manual c = true -> ss_enabled s = true) /\
  ch_idx s' = ch_idx s /\ ch_map s' = ch_map s /\ ival_us s' = ival_us s /\ perturb s' = perturb s /\ buf_type s' = buf_type s.
Proof.
  unfold begin_of_advertising_events, ss_eff. destruct (c_manual c); psimpl.
  - destruct (count_down (ss_enabled s) (ss_count s)) as [en cnt]. intros H; inversion H; subst. psimpl. repeat split; auto.
  - intros H; inversion H; subst. repeat split; auto; discriminate.
Qed.

Lemma continued_effect c s b s' :
  continued_advertising_events c s = (b, s') ->
  ss_eff c s s' true /\ (b = true -> c_manual c = true -> ss_enabled s = true) /\
  ch_idx s' = ch_idx s /\ ch_map s' = ch_map s /\ ival_us s' = ival_us s /\ perturb s' = perturb s /\ buf_type s' = buf_type s.
Proof.
  unfold continued_advertising_events, ss_eff. destruct (c_manual c); psimpl.
  - destruct (count_down (ss_enabled s) (ss_count s)) as [en cnt]. intros H; inversion H; subst. psimpl. repeat split; auto.
    intros HH _. destruct (ss_enabled s); auto.
  - intros H; inversion H; subst. repeat split; auto; discriminate.
Qed.

Lemma ss_eff_frame c s1 s2 s' b :
  ss_enabled s2 = ss_enabled s1 -> ss_count s2 = ss_count s1 -> ss_eff c s2 s' b -> ss_eff c s1 s' b.
Proof. unfold ss_eff. intros -> ->. auto. Qed.

Lemma start_effect c s s' x :
  handle_start_advertising c s = Some (s', x) ->
  ch_map s' = ch_map s /\ ival_us s' = ival_us s /\
  match x with
  | NoSched => ch_idx s' = ch_idx s /\ exists called, ss_eff c s s' called
  | Sched ch d t =>
      ss_eff c s s' true /\ (c_manual c = true -> ss_enabled s = true) /\
      (c_varmap c = true -> ch_map s <> 0) /\
      ch = current_channel c s' /\
      ch_idx s' = (if c_varmap c then first_channel_index (ch_map s) else 37) /\ d = 0
  end.
Proof.
  unfold handle_start_advertising.
  set (s1 := if is_multi c then set_selected s (proposal s) else s).
  assert (E1 : same24 s s1) by (unfold s1, same24; destruct (is_multi c); psimpl; repeat split).
  pose proof (fill_same c s1) as E2. destruct (fill_advertising_data c s1) as [ne s2]. cbn [snd] in E2.
  pose proof (same24_trans _ _ _ E1 E2) as E. destruct E as (Ei & Em & Ev & Ep & Est & Een & Ecn).
  destruct ne; cbn [negb].
  2:{ intros H. inversion H; subst. repeat split; auto. exists false. unfold ss_eff. rewrite andb_false_r. auto. }
  destruct (begin_of_advertising_events c s2) as [go s3] eqn:B.
  apply begin_effect in B. destruct B as (Beff & Bgo & Bi & Bm & Bv & Bp & Bb).
  apply ss_eff_frame with (s1 := s) in Beff; auto.
  destruct go; cbn [negb].
  2:{ intros H. inversion H; subst. repeat split; try congruence. exists true. auto. }
  unfold first_channel. destruct (c_varmap c) eqn:VM.
  - destruct (ch_map s3 =? 0) eqn:Z; [discriminate|].
    intros H. inversion H; subst. psimpl. unfold current_channel. rewrite VM. psimpl.
    repeat split; try congruence.
    + unfold ss_eff in *. psimpl. auto.
    + intros HM. rewrite <- Een. auto.
    + intros _ HZ. rewrite Bm, Em, HZ in Z. discriminate.
  - intros H. inversion H; subst. psimpl. unfold current_channel. rewrite VM. psimpl.
    repeat split; try congruence.
    + unfold ss_eff in *. psimpl. auto.
    + intros HM. rewrite <- Een. auto.
Qed.

Local Opaque first_channel_index var_next.

Lemma timeout_effect c s s' x :
  handle_adv_timeout c s = Some (s', x) ->
  ch_map s' = ch_map s /\ ival_us s' = ival_us s /\
  match x with
  | NoSched => ch_idx s' = ch_idx s /\ exists called, ss_eff c s s' called
  | Sched ch d t =>
      ss_eff c s s' true /\ (c_manual c = true -> ss_enabled s = true) /\
      (c_varmap c = true -> ch_map s <> 0) /\
      ch = current_channel c s' /\
      ch_idx s' = (if c_varmap c then var_next (ch_map s) (ch_idx s)
                   else if ch_idx s =? 39 then 37 else ch_idx s + 1) /\
      ((first_channel_selected c s' = false /\ d = 0) \/
       (first_channel_selected c s' = true /\ current_interval c s <= d <= current_interval c s + 10000))
  end.
Proof.
  unfold handle_adv_timeout.
  set (fs := if is_multi c then _ else _).
  assert (E1 : same24 s (snd fs)).
  { unfold fs, same24. destruct (is_multi c); [destruct (negb (Nat.eqb (selected s) (proposal s)))|]; psimpl; repeat split. }
  destruct fs as [fill s1]. cbn [snd] in E1.
  set (ns := if fill then _ else _).
  assert (E2 : same24 s1 (snd ns)).
  { unfold ns. destruct fill; [apply fill_same | apply same24_refl]. }
  destruct ns as [ne s2]. cbn [snd] in E2.
  pose proof (same24_trans _ _ _ E1 E2) as E. destruct E as (Ei & Em & Ev & Ep & Est & Een & Ecn).
  destruct ne; cbn [negb].
  2:{ intros H. inversion H; subst. repeat split; auto. exists false. unfold ss_eff. rewrite andb_false_r. auto. }
  destruct (continued_advertising_events c s2) as [go s3] eqn:B.
  apply continued_effect in B. destruct B as (Beff & Bgo & Bi & Bm & Bv & Bp & Bb).
  apply ss_eff_frame with (s1 := s) in Beff; auto.
  destruct go; cbn [negb].
  2:{ intros H. inversion H; subst. repeat split; try congruence. exists true. auto. }
  assert (Hp : forall q, (q + 7) mod 11 * 1000 <= 10000).
  { intros q. pose proof (N.mod_upper_bound (q + 7) 11). lia. }
  unfold next_channel. destruct (c_varmap c) eqn:VM.
  - destruct (ch_map s3 =? 0) eqn:Z; [discriminate|].
    unfold next_adv_event, first_channel_selected, current_interval, current_channel. rewrite VM. psimpl.
    destruct (var_next (ch_map s3) (ch_idx s3) =? first_channel_index (ch_map s3)) eqn:F; psimpl;
    intros H; inversion H; subst; psimpl; rewrite ?VM, ?F; psimpl;
    (repeat split; try congruence;
      [ unfold ss_eff in *; psimpl; auto
      | intros HM; rewrite <- Een; auto
      | intros _ HZ; rewrite Bm, Em, HZ in Z; discriminate
      | ]).
    + right. split; auto. unfold max_adv_perturbation, perturbation_stride.
      specialize (Hp (perturb s3)). change (10 + 1) with 11. set (q := (perturb s3 + 7) mod 11) in *. clearbody q. destruct (c_varival c); rewrite ?Bv, ?Ev; lia.
    + left. auto.
  - unfold next_adv_event, first_channel_selected, current_interval, current_channel. rewrite VM. psimpl.
    set (i' := if ch_idx s3 =? last_advertising_channel then first_advertising_channel else ch_idx s3 + 1).
    destruct (i' =? first_advertising_channel) eqn:F; psimpl;
    intros H; inversion H; subst; psimpl; rewrite ?VM, ?F; psimpl;
    (repeat split; try congruence;
      [ unfold ss_eff in *; psimpl; auto
      | intros HM; rewrite <- Een; auto
      | unfold i', last_advertising_channel, first_advertising_channel; rewrite Bi, Ei; reflexivity
      | ]).
    + right. split; auto. unfold max_adv_perturbation, perturbation_stride.
      specialize (Hp (perturb s3)). change (10 + 1) with 11. set (q := (perturb s3 + 7) mod 11) in *. clearbody q. destruct (c_varival c); rewrite ?Bv, ?Ev; lia.
    + left. auto.
Qed.

(* ------------------------------------------------------------------ channel facts *)
Lemma map_cases m : 0 < m < 8 -> m = 1 \/ m = 2 \/ m = 3 \/ m = 4 \/ m = 5 \/ m = 6 \/ m = 7.
Proof. lia. Qed.

Lemma enabled_range map ch : chan_enabled map ch = true -> ch = 37 \/ ch = 38 \/ ch = 39.
Proof. unfold chan_enabled. intros H. apply andb_prop in H as [H _]. apply andb_prop in H as [H1 H2]. lia. Qed.

Local Transparent first_channel_index var_next.
Lemma var_step map idx :
  0 < map < 8 -> chan_enabled map (idx + 37) = true ->
  chan_enabled map (var_next map idx + 37) = true /\
  match next_enabled_after map (idx + 37) with
  | Some e => var_next map idx + 37 = e /\ (var_next map idx =? first_channel_index map) = false /\ idx + 37 < e
  | None => var_next map idx = first_channel_index map
  end.
Proof.
  intros Hm He.
  assert (Hi : idx = 0 \/ idx = 1 \/ idx = 2) by (apply enabled_range in He; lia).
  destruct (map_cases map Hm) as [->|[->|[->|[->|[->|[->| ->]]]]]];
  destruct Hi as [->|[->| ->]]; vm_compute in He; try discriminate He; vm_compute; repeat split; auto; discriminate.
Qed.

Lemma var_first map :
  0 < map < 8 ->
  chan_enabled map (first_channel_index map + 37) = true /\ first_channel_index map + 37 = lowest_channel map.
Proof.
  intros Hm.
  destruct (map_cases map Hm) as [->|[->|[->|[->|[->|[->| ->]]]]]]; vm_compute; auto.
Qed.
Local Opaque first_channel_index var_next.

Lemma all_step idx :
  chan_enabled 7 idx = true ->
  let i' := if idx =? 39 then 37 else idx + 1 in
  chan_enabled 7 i' = true /\
  match next_enabled_after 7 idx with
  | Some e => i' = e /\ (i' =? 37) = false /\ idx < e
  | None => i' = 37
  end.
Proof.
  intros He. destruct (enabled_range _ _ He) as [->|[->| ->]]; vm_compute; repeat split; auto; discriminate.
Qed.

Lemma map_add_lt m ch : m < 8 -> in_adv_channels ch = true -> N.lor m (N.shiftl 1 (ch - 37)) < 8.
Proof.
  intros Hm Hc. unfold in_adv_channels, first_advertising_channel, last_advertising_channel in Hc.
  assert (ch = 37 \/ ch = 38 \/ ch = 39) as [->|[->| ->]] by lia;
  assert (m = 0 \/ m = 1 \/ m = 2 \/ m = 3 \/ m = 4 \/ m = 5 \/ m = 6 \/ m = 7) as [->|[->|[->|[->|[->|[->|[->| ->]]]]]]] by lia;
  vm_compute; reflexivity.
Qed.

Lemma map_rm_lt m ch : m < 8 -> in_adv_channels ch = true -> N.ldiff m (N.shiftl 1 (ch - 37)) < 8.
Proof.
  intros Hm Hc. unfold in_adv_channels, first_advertising_channel, last_advertising_channel in Hc.
  assert (ch = 37 \/ ch = 38 \/ ch = 39) as [->|[->| ->]] by lia;
  assert (m = 0 \/ m = 1 \/ m = 2 \/ m = 3 \/ m = 4 \/ m = 5 \/ m = 6 \/ m = 7) as [->|[->|[->|[->|[->|[->|[->| ->]]]]]]] by lia;
  vm_compute; reflexivity.
Qed.

(* ------------------------------------------------------------------ the C24 invariant *)
Definition budget_ok (s : state) (b : option N) : Prop :=
  match b with None => True | Some k => ss_enabled s = true -> 0 < ss_count s <= k end.

Definition core24 (c : cfg) (s : state) (m : mon24) : Prop :=
  m_map m = (if c_varmap c then ch_map s else 7) /\ m_map m < 8
  /\ m_ival m = current_interval c s
  /\ (if c_manual c then (ss_enabled s = true -> m_on m = true) /\ budget_ok s (m_budget m)
      else m_on m = true /\ m_budget m = None)
  /\ (0 < m_pending m -> m_last m = current_channel c s /\ chan_enabled (m_map m) (m_last m) = true).

Definition inv24 (c : cfg) (s : state) (m : mon24) : Prop := m_void m = true \/ core24 c s m.

Lemma count_down_spec en cnt en' cnt' :
  count_down en cnt = (en', cnt') ->
  (en' = true -> en = true) /\ cnt' <= cnt /\
  (en = true -> 0 < cnt -> (cnt' = cnt - 1 /\ (en' = true -> 0 < cnt'))).
Proof.
  unfold count_down. destruct (cnt =? 0) eqn:Z.
  - intros H; inversion H; subst. repeat split; auto; lia.
  - destruct (cnt - 1 =? 0) eqn:Z1; intros H; inversion H; subst; repeat split; auto; try lia; discriminate.
Qed.

(* begin / continue that sends nothing *)
Lemma budget_nosend c s s' called b :
  c_manual c = true -> ss_eff c s s' called -> budget_ok s b ->
  (ss_enabled s' = true -> ss_enabled s = true) /\ budget_ok s' b.
Proof.
  intros Man E B. unfold ss_eff in E. rewrite Man in E. destruct called; cbn [andb] in E.
  - symmetry in E. apply count_down_spec in E. destruct E as (E1 & E2 & E3). split; auto.
    destruct b as [k|]; unfold budget_ok in *; auto. intros En'. specialize (E1 En'). specialize (B E1). specialize (E3 E1 ltac:(lia)).
    destruct E3 as [E3a E3b]. specialize (E3b En'). lia.
  - destruct E as [Ea Eb]. unfold budget_ok in *. rewrite Ea. destruct b; rewrite ?Eb; auto.
Qed.

(* begin / continue that sends a PDU *)
Lemma budget_send c s s' b :
  c_manual c = true -> ss_eff c s s' true -> ss_enabled s = true -> budget_ok s b ->
  (match b with Some 0 => true | _ => false end) = false /\
  budget_ok s' (match b with Some k => Some (k - 1) | None => None end).
Proof.
  intros Man E En B. unfold ss_eff in E. rewrite Man in E. cbn [andb] in E.
  symmetry in E. apply count_down_spec in E. destruct E as (E1 & E2 & E3).
  destruct b as [k|]; unfold budget_ok in *; auto. specialize (B En). specialize (E3 En ltac:(lia)). destruct E3 as [E3a E3b].
  split.
  - destruct k; auto. lia.
  - intros En'. specialize (E3b En'). lia.
Qed.

Lemma restart_core c s m s' x :
  core24 c s m -> m_map m <> 0 -> handle_start_advertising c s = Some (s', x) ->
  fst (on_sched m true x) = Ok /\ core24 c s' (snd (on_sched m true x)).
Proof.
  intros (Cm & Clt & Ci & Css & Cp) Hnz H. apply start_effect in H. destruct H as (Hm & Hv & H).
  assert (Hint : current_interval c s' = current_interval c s) by (unfold current_interval; rewrite Hv; auto).
  destruct x as [|ch d t]; cbn [on_sched fst snd].
  - destruct H as (Hi & called & Heff). split; auto.
    assert (Hcc : current_channel c s' = current_channel c s) by (unfold current_channel; rewrite Hi; auto).
    unfold core24. rewrite Hm, Hint, Hcc. refine (conj Cm (conj Clt (conj Ci (conj _ Cp)))).
    destruct (c_manual c) eqn:Man; auto. destruct Css as [Css1 Css2].
    destruct (budget_nosend _ _ _ _ _ Man Heff Css2) as [B1 B2]. split; auto.
  - destruct H as (Heff & Hen & Hmz & Hch & Hidx & Hd0).
    assert (Hchan : chan_enabled (m_map m) ch = true /\ ch = lowest_channel (m_map m)).
    { rewrite Hch. unfold current_channel. rewrite Hidx. rewrite Cm in *. destruct (c_varmap c).
      - destruct (var_first (ch_map s)) as [V1 V2]; [lia|]. split; auto.
      - vm_compute. auto. }
    destruct Hchan as [Hc1 Hc2].
    assert (Hon : m_on m = true /\ (match m_budget m with Some 0 => true | _ => false end) = false /\
                  (if c_manual c then (ss_enabled s' = true -> m_on m = true) /\
                       budget_ok s' (match m_budget m with Some k => Some (k - 1) | None => None end)
                   else m_on m = true /\ match m_budget m with Some k => Some (k - 1) | None => None end = None)).
    { destruct (c_manual c) eqn:Man.
      - destruct Css as [Css1 Css2]. specialize (Hen eq_refl).
        destruct (budget_send _ _ _ _ Man Heff Hen Css2) as [B1 B2]. repeat split; auto.
      - destruct Css as [Css1 Css2]. rewrite Css2. repeat split; auto. }
    destruct Hon as (Hon & Hb & Hss).
    split.
    + unfold judge_pdu. rewrite Hc1, Hon, Hb. cbn [negb]. rewrite Hc2, N.eqb_refl. reflexivity.
    + unfold core24, after_pdu. cbn [m_map m_ival m_last m_pending m_on m_budget m_void].
      rewrite Hm, Hint. refine (conj Cm (conj Clt (conj Ci (conj Hss _)))). intros _. split; auto.
Qed.

Lemma continue_core c s m s' x :
  core24 c s m -> m_map m <> 0 -> 0 < m_pending m -> handle_adv_timeout c s = Some (s', x) ->
  fst (on_sched (answer m) false x) = Ok /\ core24 c s' (snd (on_sched (answer m) false x)).
Proof.
  intros (Cm & Clt & Ci & Css & Cp) Hnz Hpend H. apply timeout_effect in H. destruct H as (Hm & Hv & H).
  destruct (Cp Hpend) as [Cl Cle].
  assert (Hint : current_interval c s' = current_interval c s) by (unfold current_interval; rewrite Hv; auto).
  destruct x as [|ch d t]; cbn [on_sched fst snd].
  - destruct H as (Hi & called & Heff). split; auto.
    assert (Hcc : current_channel c s' = current_channel c s) by (unfold current_channel; rewrite Hi; auto).
    unfold core24, answer. cbn [m_map m_ival m_last m_pending m_on m_budget m_void].
    rewrite Hm, Hint, Hcc. refine (conj Cm (conj Clt (conj Ci (conj _ (fun _ => conj Cl Cle))))).
    destruct (c_manual c) eqn:Man; auto. destruct Css as [Css1 Css2].
    destruct (budget_nosend _ _ _ _ _ Man Heff Css2) as [B1 B2]. split; auto.
  - destruct H as (Heff & Hen & Hmz & Hch & Hidx & Hd).
    (* where the stepping function went *)
    assert (Hchan : chan_enabled (m_map m) ch = true /\
              match next_enabled_after (m_map m) (m_last m) with
              | Some e => ch = e /\ first_channel_selected c s' = false /\ m_last m < e
              | None => ch = lowest_channel (m_map m) /\ first_channel_selected c s' = true
              end).
    { rewrite Hch, Cl. rewrite Cl in Cle. unfold current_channel, first_channel_selected in *. rewrite Hidx, Hm. rewrite Cm in *.
      destruct (c_varmap c).
      - unfold first_advertising_channel.
        destruct (var_step (ch_map s) (ch_idx s)) as [V1 V2]; [lia|exact Cle|]. split; auto.
        destruct (next_enabled_after (ch_map s) (ch_idx s + 37)) as [e|].
        + destruct V2 as (V2 & V3 & V4). auto.
        + rewrite V2. destruct (var_first (ch_map s)) as [F1 F2]; [lia|]. rewrite N.eqb_refl. auto.
      - pose proof (all_step (ch_idx s) Cle) as A. cbv zeta in A. destruct A as [A1 A2]. split; auto.
        unfold first_advertising_channel.
        destruct (next_enabled_after 7 (ch_idx s)) as [e|].
        + destruct A2 as (A2 & A3 & A4). auto.
        + rewrite A2. vm_compute. auto. }
    destruct Hchan as [Hc1 Hc2].
    assert (Hon : m_on m = true /\ (match m_budget m with Some 0 => true | _ => false end) = false /\
                  (if c_manual c then (ss_enabled s' = true -> m_on m = true) /\
                       budget_ok s' (match m_budget m with Some k => Some (k - 1) | None => None end)
                   else m_on m = true /\ match m_budget m with Some k => Some (k - 1) | None => None end = None)).
    { destruct (c_manual c) eqn:Man.
      - destruct Css as [Css1 Css2]. specialize (Hen eq_refl).
        destruct (budget_send _ _ _ _ Man Heff Hen Css2) as [B1 B2]. repeat split; auto.
      - destruct Css as [Css1 Css2]. rewrite Css2. repeat split; auto. }
    destruct Hon as (Hon & Hb & Hss).
    split.
    + unfold judge_pdu, answer. cbn [m_map m_ival m_last m_pending m_on m_budget m_void].
      rewrite Hc1, Hon, Hb. cbn [negb].
      destruct (next_enabled_after (m_map m) (m_last m)) as [e|].
      * destruct Hc2 as (-> & Hf & Hlt).
        assert (L : (e <? m_last m) = false) by lia. rewrite L, N.eqb_refl. cbn [negb].
        destruct Hd as [[_ ->]|[Hd _]]; [reflexivity | congruence].
      * destruct Hc2 as (-> & Hf). rewrite N.eqb_refl. cbn [negb].
        destruct Hd as [[Hd _]|[_ Hd]]; [congruence|].
        rewrite Ci. unfold max_delay.
        assert (L : ((current_interval c s <=? d) && (d <=? current_interval c s + 10000)) = true) by lia.
        rewrite L. reflexivity.
    + unfold core24, after_pdu, answer. cbn [m_map m_ival m_last m_pending m_on m_budget m_void].
      rewrite Hm, Hint. refine (conj Cm (conj Clt (conj Ci (conj Hss _)))). intros _. split; auto.
Qed.

Lemma core_frame c s s1 m : core24 c s m -> same24 s s1 -> core24 c s1 m.
Proof.
  intros (Cm & Clt & Ci & Css & Cp) (Ei & Em & Ev & Ep & Est & Een & Ecn).
  unfold core24, current_interval, current_channel, budget_ok in *. rewrite Ei, Em, Ev, Een, Ecn. auto.
Qed.

Lemma start_none c s : handle_start_advertising c s = None -> c_varmap c = true /\ ch_map s = 0.
Proof.
  unfold handle_start_advertising.
  set (s1 := if is_multi c then set_selected s (proposal s) else s).
  assert (E1 : same24 s s1) by (unfold s1, same24; destruct (is_multi c); psimpl; repeat split).
  pose proof (fill_same c s1) as E2. destruct (fill_advertising_data c s1) as [ne s2]. cbn [snd] in E2.
  pose proof (same24_trans _ _ _ E1 E2) as E. destruct E as (Ei & Em & Ev & Ep & Est & Een & Ecn).
  destruct ne; cbn [negb]; [|discriminate].
  destruct (begin_of_advertising_events c s2) as [go s3] eqn:B.
  apply begin_effect in B. destruct B as (Beff & Bgo & Bi & Bm & Bv & Bp & Bb).
  destruct go; cbn [negb]; [|discriminate].
  unfold first_channel. destruct (c_varmap c); [|discriminate].
  destruct (ch_map s3 =? 0) eqn:Z; [|discriminate]. intros _. split; auto. rewrite <- Em, <- Bm. lia.
Qed.

Lemma timeout_none c s : handle_adv_timeout c s = None -> c_varmap c = true /\ ch_map s = 0.
Proof.
  unfold handle_adv_timeout.
  set (fs := if is_multi c then _ else _).
  assert (E1 : same24 s (snd fs)).
  { unfold fs, same24. destruct (is_multi c); [destruct (negb (Nat.eqb (selected s) (proposal s)))|]; psimpl; repeat split. }
  destruct fs as [fill s1]. cbn [snd] in E1.
  set (ns := if fill then _ else _).
  assert (E2 : same24 s1 (snd ns)).
  { unfold ns. destruct fill; [apply fill_same | apply same24_refl]. }
  destruct ns as [ne s2]. cbn [snd] in E2.
  pose proof (same24_trans _ _ _ E1 E2) as E. destruct E as (Ei & Em & Ev & Ep & Est & Een & Ecn).
  destruct ne; cbn [negb]; [|discriminate].
  destruct (continued_advertising_events c s2) as [go s3] eqn:B.
  apply continued_effect in B. destruct B as (Beff & Bgo & Bi & Bm & Bv & Bp & Bb).
  destruct go; cbn [negb]; [|discriminate].
  unfold next_channel. destruct (c_varmap c).
  - destruct (ch_map s3 =? 0) eqn:Z.
    + intros _. split; auto. rewrite <- Em, <- Bm. lia.
    + destruct (next_adv_event c _); discriminate.
  - destruct (next_adv_event c _); discriminate.
Qed.

(* a (re)start: the result of lift (handle_start_advertising c s1) *)
Lemma restart_lift c s0 s1 m1 :
  core24 c s1 m1 -> m_map m1 <> 0 ->
  exists x, snd (lift (handle_start_advertising c s1) s0) = OSched x /\
            fst (on_sched m1 true x) = Ok /\
            core24 c (fst (lift (handle_start_advertising c s1) s0)) (snd (on_sched m1 true x)).
Proof.
  intros C Hnz. destruct (handle_start_advertising c s1) as [[s' x]|] eqn:H.
  - exists x. cbn [lift fst snd]. split; auto. apply restart_core with (s := s1); auto.
  - apply start_none in H. destruct H as [VM Z]. destruct C as (Cm & _). rewrite VM in Cm. congruence.
Qed.

Lemma void_inv c s m : inv24 c s (void24 m).
Proof. left. reflexivity. Qed.

Lemma on_sched_void m b x : m_void (snd (on_sched m b x)) = m_void m \/ m_void (snd (on_sched m b x)) = false.
Proof. destruct x; cbn; auto. Qed.

Ltac msimpl := cbn [m_map m_ival m_last m_pending m_on m_budget m_void set_on set_mmap set_mival answer void24 after_pdu fst snd].

Lemma core_set_on_start c s m st :
  c_manual c = true -> core24 c s m -> core24 c (set_ss s st true 0) (set_on m true None).
Proof.
  intros Man (Cm & Clt & Ci & Css & Cp). unfold core24, current_interval, current_channel, budget_ok in *. psimpl. msimpl.
  refine (conj Cm (conj Clt (conj Ci (conj _ Cp)))). rewrite Man. auto.
Qed.

Lemma core_set_on_startn c s m st k :
  c_manual c = true -> k <> 0 -> core24 c s m -> core24 c (set_ss s st true k) (set_on m true (Some k)).
Proof.
  intros Man Hk (Cm & Clt & Ci & Css & Cp). unfold core24, current_interval, current_channel, budget_ok in *. psimpl. msimpl.
  refine (conj Cm (conj Clt (conj Ci (conj _ Cp)))). rewrite Man. split; auto. intros _. lia.
Qed.

Lemma step24_ok c s m o :
  inv24 c s m ->
  fst (mstep24 c m o (snd (step c s o))) = Ok /\
  inv24 c (fst (step c s o)) (snd (mstep24 c m o (snd (step c s o)))).
Proof.
  intros I.
  destruct (m_void m) eqn:V.
  { unfold mstep24. rewrite V. cbn [fst snd]. split; auto. left; auto. }
  destruct I as [I|C]; [congruence|].
  pose proof C as (Cm & Clt & Ci & Css & Cp).
  unfold mstep24. rewrite V.
  destruct o; cbn [step].
  - (* LStart *)
    destruct (m_map m =? 0) eqn:Z; [cbn [fst snd]; split; auto; apply void_inv|].
    destruct (restart_lift c s s m C ltac:(lia)) as (x & Hr & Hok & Hc).
    rewrite Hr. cbn [fst snd]. split; auto. right; auto.
  - (* LStop *)
    cbn [fst snd]. split; auto. right.
    unfold end_of_advertising_events. destruct (c_manual c) eqn:Man; auto.
    unfold core24, current_interval, current_channel, budget_ok in *. rewrite Man in *. psimpl. msimpl.
    refine (conj Cm (conj Clt (conj Ci (conj _ Cp)))). split; [discriminate|]. destruct (m_budget m); auto. discriminate.
  - (* Timeout *)
    destruct ((m_pending m =? 0) || (m_map m =? 0)) eqn:Z; [cbn [fst snd]; split; auto; apply void_inv|].
    destruct (handle_adv_timeout c s) as [[s' x]|] eqn:H; cbn [lift fst snd].
    + destruct (continue_core c s m s' x C ltac:(lia) ltac:(lia) H) as [Hok Hc]. split; auto. right; auto.
    + apply timeout_none in H. destruct H as [VM Hz]. rewrite VM in Cm. lia.
  - (* Rx *)
    destruct ((m_pending m =? 0) || (m_map m =? 0)) eqn:Z; [cbn [fst snd]; split; auto; apply void_inv|].
    destruct (accepts c s p); cbn [fst snd].
    + split; auto. right. unfold core24, answer in *. msimpl.
      refine (conj Cm (conj Clt (conj Ci (conj Css _)))). intros _. apply Cp. lia.
    + destruct (handle_adv_timeout c s) as [[s' x]|] eqn:H; cbn [fst snd].
      * destruct (continue_core c s m s' x C ltac:(lia) ltac:(lia) H) as [Hok Hc]. split; auto. right; auto.
      * apply timeout_none in H. destruct H as [VM Hz]. rewrite VM in Cm. lia.
  - (* Start *)
    destruct ((m_map m =? 0) || negb (c_manual c)) eqn:Z; [cbn [fst snd]; split; auto; apply void_inv|].
    assert (Man : c_manual c = true) by (destruct (c_manual c); auto; rewrite orb_true_r in Z; discriminate).
    rewrite Man. cbn [negb].
    pose proof (core_set_on_start c s m (ss_started s) Man C) as C1.
    destruct (negb (ss_enabled s) && ss_started s).
    + destruct (restart_lift c s _ _ C1 ltac:(msimpl; lia)) as (x & Hr & Hok & Hc).
      rewrite Hr. cbn [fst snd]. split; auto. right; auto.
    + cbn [fst snd on_sched]. split; auto. right; auto.
  - (* StartN *)
    destruct ((m_map m =? 0) || (k =? 0) || negb (c_manual c)) eqn:Z; [cbn [fst snd]; split; auto; apply void_inv|].
    assert (Man : c_manual c = true) by (destruct (c_manual c); auto; rewrite orb_true_r in Z; discriminate).
    rewrite Man. cbn [negb].
    assert (Hk : (k =? 0) = false) by lia. rewrite Hk.
    pose proof (core_set_on_startn c s m (ss_started s) k Man ltac:(lia) C) as C1.
    destruct (negb (ss_enabled s) && ss_started s).
    + destruct (restart_lift c s _ _ C1 ltac:(msimpl; lia)) as (x & Hr & Hok & Hc).
      rewrite Hr. cbn [fst snd]. split; auto. right; auto.
    + cbn [fst snd on_sched]. split; auto. right; auto.
  - (* Stop *)
    destruct (negb (c_manual c)) eqn:Man; [cbn [fst snd]; split; auto; apply void_inv|].
    cbn [fst snd]. split; auto. right.
    unfold core24, current_interval, current_channel, budget_ok in *. psimpl. msimpl.
    refine (conj Cm (conj Clt (conj Ci (conj _ Cp)))). destruct (c_manual c); [|discriminate]. split; auto.
  - (* AddCh *)
    destruct (negb (m_pending m =? 0) || negb (in_adv_channels ch) || negb (c_varmap c)) eqn:Z;
      [cbn [fst snd]; split; auto; apply void_inv|].
    assert (VM : c_varmap c = true) by (destruct (c_varmap c); auto; rewrite orb_true_r in Z; discriminate).
    assert (Hin : in_adv_channels ch = true) by (destruct (in_adv_channels ch); auto; rewrite VM in Z; cbn in Z; rewrite orb_true_r in Z; discriminate).
    rewrite VM, Hin. cbn [negb fst snd]. split; auto. right.
    unfold core24, current_interval, current_channel, budget_ok in *. rewrite VM in *. psimpl. msimpl.
    unfold first_advertising_channel. rewrite Cm.
    refine (conj eq_refl (conj _ (conj Ci (conj Css _)))).
    + rewrite <- Cm. apply map_add_lt; auto.
    + intros HP. lia.
  - (* RmCh *)
    destruct (negb (m_pending m =? 0) || negb (in_adv_channels ch) || negb (c_varmap c)) eqn:Z;
      [cbn [fst snd]; split; auto; apply void_inv|].
    assert (VM : c_varmap c = true) by (destruct (c_varmap c); auto; rewrite orb_true_r in Z; discriminate).
    assert (Hin : in_adv_channels ch = true) by (destruct (in_adv_channels ch); auto; rewrite VM in Z; cbn in Z; rewrite orb_true_r in Z; discriminate).
    rewrite VM, Hin. cbn [negb fst snd]. split; auto. right.
    unfold core24, current_interval, current_channel, budget_ok in *. rewrite VM in *. psimpl. msimpl.
    unfold first_advertising_channel. rewrite Cm.
    refine (conj eq_refl (conj _ (conj Ci (conj Css _)))).
    + rewrite <- Cm. apply map_rm_lt; auto.
    + intros HP. lia.
  - (* IvalMs *)
    destruct (negb (c_varival c)) eqn:VI; [cbn [fst snd]; split; auto; apply void_inv|].
    cbn [fst snd]. split; auto. right.
    assert (VI' : c_varival c = true) by (destruct (c_varival c); auto; discriminate).
    unfold core24, current_interval, current_channel, budget_ok in *. rewrite VI' in *.
    destruct ((20 <=? ms) && (ms <=? 10240)); psimpl; msimpl; auto.
    all: try refine (conj Cm (conj Clt (conj eq_refl (conj Css Cp)))).
  - (* IvalUs *)
    destruct (negb (c_varival c)) eqn:VI; [cbn [fst snd]; split; auto; apply void_inv|].
    cbn [fst snd]. split; auto. right.
    assert (VI' : c_varival c = true) by (destruct (c_varival c); auto; discriminate).
    unfold core24, current_interval, current_channel, budget_ok in *. rewrite VI' in *.
    destruct ((20000 <=? us) && (us <=? 10240000)); psimpl; msimpl; auto.
    all: try refine (conj Cm (conj Clt (conj eq_refl (conj Css Cp)))).
  - (* DAddr *)
    destruct (m_map m =? 0) eqn:Z; [cbn [fst snd]; split; auto; apply void_inv|].
    destruct (negb (has_directed c)); [cbn [fst snd]; split; auto; apply void_inv|].
    set (s1 := set_daddr s a (negb (addr_eqb a zero_addr))).
    assert (C1 : core24 c s1 m) by (apply core_frame with (s := s); auto; unfold s1, same24; psimpl; repeat split).
    destruct (negb (d_valid s) && negb (addr_eqb a zero_addr) && d_started s).
    + destruct (restart_lift c s _ _ C1 ltac:(lia)) as (x & Hr & Hok & Hc).
      rewrite Hr. cbn [fst snd]. split; auto. right; auto.
    + cbn [fst snd on_sched]. split; auto. right; auto.
  - (* Chg *)
    destruct (is_multi c && Nat.ltb k (length (types_of c))); cbn [fst snd]; split; auto; try apply void_inv.
    right. apply core_frame with (s := s); auto. unfold same24; psimpl; repeat split.
  - (* DataChanged *)
    cbn [fst snd]. split; auto. right. apply core_frame with (s := s); auto. unfold same24; psimpl; repeat split.
  - cbn [fst snd]. split; auto. right; auto.
  - cbn [fst snd]. split; auto. right; auto.
Qed.

Lemma init_inv24 c : inv24 c (init c) (minit24 c).
Proof.
  right. unfold core24, init, minit24, current_interval, current_channel, budget_ok. psimpl. msimpl.
  split; [destruct (c_varmap c); reflexivity|].
  split; [reflexivity|].
  split; [reflexivity|].
  split; [destruct (c_manual c); cbn [negb]; auto; split; auto; discriminate|].
  intros H. exfalso. revert H. apply N.lt_irrefl.
Qed.

Lemma monitor24_from_ok c ops :
  forall s m pos, inv24 c s m -> monitor_from (mstep24 c) m pos (run c s ops) = None.
Proof.
  induction ops as [|o t IH]; intros s m pos I; cbn [run]; [reflexivity|].
  pose proof (step24_ok c s m o I) as H.
  destruct (step c s o) as [s' r]. cbn [fst snd] in H. cbn [monitor_from].
  destruct (mstep24 c m o r) as [v m']. cbn [fst snd] in H. destruct H as [-> I']. apply IH; auto.
Qed.

Theorem monitor24_accepts_model c ops : monitor24 c (run c (init c) ops) = None.
Proof. apply monitor24_from_ok. apply init_inv24. Qed.

(* ------------------------------------------------------------------ the stepping function as a cycle *)
Definition nth_channel (map : N) (k : nat) : N :=
  nth (k mod length (enabled_channels map)) (enabled_channels map) 0.

Lemma iter_plus (A : Type) (f : A -> A) a b x : Nat.iter (a + b) f x = Nat.iter a f (Nat.iter b f x).
Proof. unfold Nat.iter. induction a; simpl; [reflexivity | rewrite IHa; reflexivity]. Qed.

Lemma iter_period (A : Type) (f : A -> A) x L :
  (0 < L)%nat -> Nat.iter L f x = x -> forall k, Nat.iter k f x = Nat.iter (k mod L) f x.
Proof.
  intros HL P k.
  assert (Q : forall q, Nat.iter (q * L) f x = x).
  { induction q; [reflexivity|]. cbn [Nat.mul]. rewrite iter_plus, IHq. auto. }
  pose proof (Nat.div_mod k L ltac:(lia)) as E.
  replace (Nat.iter k f x) with (Nat.iter (k mod L + (k / L) * L) f x) by (f_equal; lia).
  rewrite iter_plus, Q. reflexivity.
Qed.

Local Transparent first_channel_index var_next.
Lemma var_cycle map k :
  0 < map < 8 ->
  Nat.iter k (var_next map) (first_channel_index map) + 37 = nth_channel map k /\
  (Nat.iter k (var_next map) (first_channel_index map) =? first_channel_index map)
    = Nat.eqb (k mod length (enabled_channels map)) 0.
Proof.
  intros Hm. unfold nth_channel.
  destruct (map_cases map Hm) as [->|[->|[->|[->|[->|[->| ->]]]]]];
  match goal with |- context [length (enabled_channels ?m)] =>
    let L := eval vm_compute in (length (enabled_channels m)) in
    change (length (enabled_channels m)) with L;
    rewrite (iter_period N (var_next m) (first_channel_index m) L ltac:(lia) ltac:(vm_compute; reflexivity) k);
    pose proof (Nat.mod_upper_bound k L ltac:(lia)) as B;
    set (r := (k mod L)%nat) in *; clearbody r
  end;
  (destruct r as [|[|[|r]]]; [vm_compute; auto ..| try lia]); try lia; vm_compute; auto.
Qed.
Local Opaque first_channel_index var_next.

Lemma all_cycle k :
  Nat.iter k (fun i => if i =? 39 then 37 else i + 1) 37 = nth_channel 7 k /\
  (Nat.iter k (fun i => if i =? 39 then 37 else i + 1) 37 =? 37) = Nat.eqb (k mod length (enabled_channels 7)) 0.
Proof.
  unfold nth_channel. change (length (enabled_channels 7)) with 3%nat.
  rewrite (iter_period N (fun i => if i =? 39 then 37 else i + 1) 37 3 ltac:(lia) ltac:(vm_compute; reflexivity) k).
  pose proof (Nat.mod_upper_bound k 3 ltac:(lia)) as B. set (r := (k mod 3)%nat) in *. clearbody r.
  destruct r as [|[|[|r]]]; try lia; vm_compute; auto.
Qed.

(* ------------------------------------------------------------------ a steady run *)
Definition steady_cfg (c : cfg) : Prop :=
  c_manual c = false /\ is_multi c = false /\ hd TUndirected (types_of c) <> TDirected.

Lemma fill_steady c s : steady_cfg c -> fst (fill_advertising_data c s) = true.
Proof.
  intros (_ & M & D). unfold fill_advertising_data, sel_type. rewrite M.
  destruct (hd TUndirected (types_of c)); try reflexivity. congruence.
Qed.

Lemma get_steady c s : steady_cfg c -> get_advertising_data c s = true.
Proof.
  intros (_ & M & D). unfold get_advertising_data, sel_type. rewrite M.
  destruct (hd TUndirected (types_of c)); try reflexivity. congruence.
Qed.

Lemma timeout_always c s :
  steady_cfg c -> (c_varmap c = true -> ch_map s <> 0) ->
  exists s' ch d t, handle_adv_timeout c s = Some (s', Sched ch d t).
Proof.
  intros SC Hm. pose proof SC as (Man & Mul & D). unfold handle_adv_timeout. rewrite Mul.
  set (ns := if data_changed s then _ else _).
  assert (E : fst ns = true /\ ch_map (snd ns) = ch_map s).
  { unfold ns. destruct (data_changed s); cbn [fst snd].
    - split; [apply fill_steady; auto|]. pose proof (fill_same c (set_changed s false)) as F. apply F.
    - split; [apply get_steady; auto|reflexivity]. }
  destruct ns as [ne s2]. cbn [fst snd] in E. destruct E as [-> Em]. cbn [negb].
  unfold continued_advertising_events. rewrite Man. cbn [negb].
  unfold next_channel. destruct (c_varmap c).
  - rewrite Em. destruct (ch_map s =? 0) eqn:Z; [specialize (Hm eq_refl); lia|].
    destruct (next_adv_event c _) as [d s5]. eauto.
  - destruct (next_adv_event c _) as [d s5]. eauto.
Qed.

Lemma start_always c s :
  steady_cfg c -> (c_varmap c = true -> ch_map s <> 0) ->
  exists s' ch d t, handle_start_advertising c s = Some (s', Sched ch d t).
Proof.
  intros SC Hm. pose proof SC as (Man & Mul & D). unfold handle_start_advertising. rewrite Mul.
  pose proof (fill_steady c s SC) as F1. pose proof (fill_same c s) as F2.
  destruct (fill_advertising_data c s) as [ne s2]. cbn [fst snd] in *. subst ne. cbn [negb].
  unfold begin_of_advertising_events. rewrite Man. cbn [negb].
  unfold first_channel. destruct (c_varmap c).
  - destruct F2 as (_ & Em & _). rewrite Em. destruct (ch_map s =? 0) eqn:Z; [specialize (Hm eq_refl); lia|]. eauto.
  - eauto.
Qed.

Definition all_next (i : N) : N := if i =? 39 then 37 else i + 1.

(* the advertiser is j PDUs into its cycle *)
Definition at_pos (c : cfg) (M I : N) (s : state) (j : nat) : Prop :=
  current_interval c s = I /\
  if c_varmap c then ch_map s = M /\ 0 < M < 8 /\ ch_idx s = Nat.iter j (var_next M) (first_channel_index M)
  else M = 7 /\ ch_idx s = Nat.iter j all_next 37.

Definition pdu_at (M I : N) (k : nat) (r : out) : Prop :=
  exists d t, r = OSched (Sched (nth_channel M k) d t) /\
    let L := length (enabled_channels M) in
    ((k mod L <> 0)%nat -> d = 0) /\ ((k mod L = 0)%nat -> (0 < k)%nat -> I <= d <= I + 10000).

Lemma steady_timeout c M I s j :
  steady_cfg c -> at_pos c M I s j ->
  exists s' r, step c s Timeout = (s', r) /\ pdu_at M I (S j) r /\ at_pos c M I s' (S j).
Proof.
  intros SC (Hi & Hp).
  assert (Hm : c_varmap c = true -> ch_map s <> 0).
  { intros V. rewrite V in Hp. lia. }
  destruct (timeout_always c s SC Hm) as (s' & ch & d & t & H).
  cbn [step]. rewrite H. cbn [lift]. exists s', (OSched (Sched ch d t)). split; auto.
  apply timeout_effect in H. destruct H as (Em & Ev & Heff & Hen & Hmz & Hch & Hidx & Hd).
  assert (Hint : current_interval c s' = I) by (unfold current_interval in *; rewrite Ev; auto).
  unfold at_pos, pdu_at. rewrite Hint. rewrite Hi in Hd.
  unfold current_channel, first_channel_selected in *. rewrite Em in *.
  destruct (c_varmap c).
  - destruct Hp as (HM & Hlt & Hj). rewrite HM in *.
    assert (Hidx' : ch_idx s' = Nat.iter (S j) (var_next M) (first_channel_index M)) by (rewrite Hidx, Hj; reflexivity).
    destruct (var_cycle M (S j) Hlt) as [V1 V2]. rewrite <- Hidx' in V1, V2.
    split; [|auto].
    exists d, t. unfold first_advertising_channel in Hch. rewrite Hch, V1. split; auto. cbv zeta.
    rewrite V2 in Hd. split.
    + intros Hk. destruct Hd as [[_ ->]|[Hd _]]; auto. apply Nat.eqb_eq in Hd. contradiction.
    + intros Hk _. destruct Hd as [[Hd _]|[_ Hd]]; auto. apply Nat.eqb_neq in Hd. contradiction.
  - destruct Hp as (HM & Hj). subst M.
    assert (Hidx' : ch_idx s' = Nat.iter (S j) all_next 37) by (rewrite Hidx, Hj; reflexivity).
    destruct (all_cycle (S j)) as [V1 V2]. fold all_next in V1, V2. rewrite <- Hidx' in V1, V2.
    split; [|auto].
    exists d, t. rewrite Hch, V1. split; auto. cbv zeta.
    unfold first_advertising_channel in Hd. rewrite V2 in Hd. split.
    + intros Hk. destruct Hd as [[_ ->]|[Hd _]]; auto. apply Nat.eqb_eq in Hd. contradiction.
    + intros Hk _. destruct Hd as [[Hd _]|[_ Hd]]; auto. apply Nat.eqb_neq in Hd. contradiction.
Qed.

Lemma steady_timeouts c M I n :
  steady_cfg c -> forall s j, at_pos c M I s j ->
  forall k, (k < n)%nat -> pdu_at M I (S j + k) (nth k (map snd (run c s (repeat Timeout n))) OFault).
Proof.
  intros SC. induction n as [|n IH]; intros s j P k Hk; [lia|].
  destruct (steady_timeout c M I s j SC P) as (s' & r & E & Hr & P').
  cbn [repeat run]. rewrite E. cbn [map snd nth].
  destruct k as [|k].
  - rewrite Nat.add_0_r. auto.
  - replace (S j + S k)%nat with (S (S j) + k)%nat by lia. apply IH; auto. lia.
Qed.

Theorem steady_run c s n :
  steady_cfg c -> (c_varmap c = true -> 0 < ch_map s < 8) ->
  let M := if c_varmap c then ch_map s else 7 in
  let I := current_interval c s in
  let outs := map snd (run c s (LStart :: repeat Timeout n)) in
  (exists t, nth 0 outs OFault = OSched (Sched (nth_channel M 0) 0 t)) /\
  forall k, (0 < k <= n)%nat -> pdu_at M I k (nth k outs OFault).
Proof.
  intros SC Hm M I outs.
  assert (Hm' : c_varmap c = true -> ch_map s <> 0) by (intros V; specialize (Hm V); lia).
  destruct (start_always c s SC Hm') as (s1 & ch & d & t & H).
  unfold outs. cbn [run step]. rewrite H. cbn [lift map snd nth].
  apply start_effect in H. destruct H as (Em & Ev & Heff & Hen & Hmz & Hch & Hidx & Hd0).
  assert (P : at_pos c M I s1 0).
  { unfold at_pos, M, I, current_interval in *. rewrite Ev. split; auto.
    destruct (c_varmap c); [rewrite Em; repeat split; auto; apply Hm; auto| auto]. }
  split.
  - exists t. rewrite Hd0, Hch. unfold current_channel. rewrite Hidx. unfold M, nth_channel.
    destruct (c_varmap c).
    + destruct (var_cycle (ch_map s) 0 (Hm eq_refl)) as [V1 _]. cbn [Nat.iter nat_rect] in V1.
      unfold first_advertising_channel, nth_channel in *. rewrite V1. reflexivity.
    + reflexivity.
  - intros k Hk. destruct k as [|k]; [lia|]. cbn [nth].
    pose proof (steady_timeouts c M I n SC s1 0%nat P k ltac:(lia)) as Q. exact Q.
Qed.

(* ================================================================== Part 2: C25 *)

(* ------------------------------------------------------------------ bytes *)
Lemma byte_at_lt p i : bytes_ok p -> byte_at p i < 256.
Proof.
  unfold bytes_ok, byte_at. intros H. revert i. induction H as [|b t Hb Ht IH]; intros [|i]; cbn [nth]; try lia. apply IH.
Qed.

Lemma bytes_eqb_eq a b : bytes_eqb a b = true <-> a = b.
Proof.
  revert b. induction a as [|x a IH]; intros [|y b]; cbn [bytes_eqb]; split; intros H; try discriminate; auto.
  - apply andb_prop in H as [H1 H2]. apply N.eqb_eq in H1. apply IH in H2. congruence.
  - inversion H; subst. rewrite N.eqb_refl. cbn. apply IH. reflexivity.
Qed.

(* ------------------------------------------------------------------ the 16 bit header *)
Lemma land_low b0 b1 m : b0 < 256 -> N.land 255 m = m -> N.land (b0 + 256 * b1) m = N.land b0 m.
Proof.
  intros Hb Hm. rewrite <- Hm. rewrite N.land_assoc.
  change 255 with (N.ones 8). rewrite N.land_ones. change (2 ^ 8) with 256.
  assert (E : (b0 + 256 * b1) mod 256 = b0).
  { replace (b0 + 256 * b1) with (b0 + b1 * 256) by lia.
    rewrite N.mod_add by lia. apply N.mod_small. lia. }
  rewrite E. rewrite N.land_assoc, N.land_ones. change (2 ^ 8) with 256.
  rewrite (N.mod_small b0 256) by lia. reflexivity.
Qed.

Lemma shiftr8 b0 b1 : b0 < 256 -> N.shiftr (b0 + 256 * b1) 8 = b1.
Proof.
  intros Hb. rewrite N.shiftr_div_pow2. change (2 ^ 8) with 256.
  replace (b0 + 256 * b1) with (b1 * 256 + b0) by lia.
  rewrite N.div_add_l by lia. rewrite N.div_small by lia. lia.
Qed.

Lemma hdr_type p : bytes_ok p -> N.land (hdr p) 15 = pdu_type p.
Proof. intros H. unfold hdr, pdu_type. apply land_low; [apply byte_at_lt; auto|reflexivity]. Qed.
Lemma hdr_rx p : bytes_ok p -> negb (N.land (hdr p) header_rxaddr_field =? 0) = rx_add p.
Proof. intros H. unfold hdr, rx_add, header_rxaddr_field. rewrite land_low; [reflexivity|apply byte_at_lt; auto|reflexivity]. Qed.
Lemma hdr_tx p : bytes_ok p -> negb (N.land (hdr p) header_txaddr_field =? 0) = tx_add p.
Proof. intros H. unfold hdr, tx_add, header_txaddr_field. rewrite land_low; [reflexivity|apply byte_at_lt; auto|reflexivity]. Qed.
Lemma hdr_len p : bytes_ok p -> N.land (N.shiftr (hdr p) 8) 63 = len_field p.
Proof. intros H. unfold hdr, len_field. rewrite shiftr8; [reflexivity|apply byte_at_lt; auto]. Qed.

(* ------------------------------------------------------------------ the static predicates *)
Lemma eqb_sym_bool a b : Bool.eqb a b = Bool.eqb b a.
Proof. destruct a, b; reflexivity. Qed.

Lemma valid_connect_base_spec off own p :
  bytes_ok p -> valid_connect_base off own p = request_for_b 5 34 off own p.
Proof.
  intros H. unfold valid_connect_base, request_for_b, adv_a, connect_request_size, connect_request_code, address_length.
  rewrite (hdr_type p H), (hdr_rx p H), (hdr_len p H), (eqb_sym_bool (arandom own)).
  destruct (Nat.eqb (length p) (off + 34)); cbn [negb]; [|rewrite andb_false_r; reflexivity].
  destruct (pdu_type p =? 5), (len_field p =? N.of_nat 34); cbn [andb]; reflexivity.
Qed.

Lemma valid_scan_spec off own p :
  bytes_ok p -> valid_scan off own p = request_for_b 3 12 off own p.
Proof.
  intros H. unfold valid_scan, request_for_b, adv_a, scan_request_size, scan_request_code, address_length.
  rewrite (hdr_type p H), (hdr_rx p H), (hdr_len p H), (eqb_sym_bool (arandom own)).
  destruct (Nat.eqb (length p) (off + 12)); cbn [negb]; [|rewrite andb_false_r; reflexivity].
  destruct (pdu_type p =? 3), (len_field p =? N.of_nat 12); cbn [andb]; reflexivity.
Qed.

Lemma eqb_bool_eq a b : Bool.eqb a b = true <-> a = b.
Proof. destruct a, b; cbn; split; intros; auto; discriminate. Qed.

Lemma request_for_b_spec code size off own p :
  request_for_b code size off own p = true <-> request_for code size off own p.
Proof.
  unfold request_for_b, request_for. rewrite !andb_true_iff, N.eqb_eq, Nat.eqb_eq, N.eqb_eq, bytes_eqb_eq, eqb_bool_eq. tauto.
Qed.

Theorem connect_request_iff off own p :
  bytes_ok p -> (valid_connect_base off own p = true <-> connect_ind_for off own p).
Proof. intros H. rewrite valid_connect_base_spec by auto. apply request_for_b_spec. Qed.

Theorem scan_request_iff off own p :
  bytes_ok p -> (valid_scan off own p = true <-> scan_req_for off own p).
Proof. intros H. rewrite valid_scan_spec by auto. apply request_for_b_spec. Qed.

(* ------------------------------------------------------------------ handle_adv_receive *)
Definition target_of (s : state) : option addr := if d_valid s then Some (d_addr s) else None.

Lemma remote_is_initiator off p : bytes_ok p -> remote_of off p = initiator off p.
Proof. intros H. unfold remote_of, initiator, init_a, address_length. rewrite (hdr_tx p H). reflexivity. Qed.

Lemma valid_connect_directed_spec off own s p :
  bytes_ok p ->
  valid_connect_directed off own (d_addr s) (d_valid s) p =
  request_for_b 5 34 off own p && from_target_b off (target_of s) p.
Proof.
  intros H. unfold valid_connect_directed, from_target_b, target_of, init_a, address_length.
  rewrite (valid_connect_base_spec off own p H), (hdr_tx p H), (eqb_sym_bool (arandom (d_addr s))).
  destruct (request_for_b 5 34 off own p); cbn [negb andb]; [|reflexivity].
  destruct (d_valid s); [rewrite andb_true_r; reflexivity|].
  rewrite andb_false_r. reflexivity.
Qed.

Theorem accepts_spec c s p :
  bytes_ok p ->
  accepts c s p = match sel_type c s with
                  | Some t => may_connect_b (c_off c) (c_own c) (c_filter c) (target_of s) t p
                  | None => false
                  end.
Proof.
  intros H. unfold accepts, valid_connect. rewrite (remote_is_initiator (c_off c) p H).
  destruct (sel_type c s) as [[| | |]|]; cbn [may_connect_b andb]; auto.
  - rewrite valid_connect_base_spec by auto. reflexivity.
  - rewrite valid_connect_directed_spec by auto. reflexivity.
Qed.

Lemma from_target_b_spec off target p : from_target_b off target p = true <-> from_target off target p.
Proof.
  unfold from_target_b, from_target. destruct target as [t|].
  - rewrite andb_true_iff, bytes_eqb_eq, eqb_bool_eq. split.
    + intros [A B]. exists t. auto.
    + intros (t' & E & A & B). inversion E; subst. auto.
  - split; [discriminate|]. intros (t' & E & _). discriminate.
Qed.

Lemma may_connect_b_spec off own filter target t p :
  may_connect_b off own filter target t p = true <-> may_connect off own filter target t p.
Proof.
  destruct t; cbn [may_connect_b may_connect]; unfold connect_ind_for.
  - rewrite andb_true_iff, request_for_b_spec. tauto.
  - rewrite !andb_true_iff, request_for_b_spec, from_target_b_spec. tauto.
  - split; [discriminate|tauto].
  - split; [discriminate|tauto].
Qed.

Theorem accepts_iff c s p :
  bytes_ok p ->
  (accepts c s p = true <->
   exists t, sel_type c s = Some t /\ may_connect (c_off c) (c_own c) (c_filter c) (target_of s) t p).
Proof.
  intros H. rewrite accepts_spec by auto. destruct (sel_type c s) as [t|].
  - rewrite may_connect_b_spec. split; [intros M; exists t; auto|intros (t' & E & M); inversion E; subst; auto].
  - split; [discriminate|intros (t' & E & _); discriminate].
Qed.

(* ------------------------------------------------------------------ C25: frame *)
Definition same25 (s s' : state) : Prop :=
  d_addr s' = d_addr s /\ d_valid s' = d_valid s /\ d_started s' = d_started s /\
  selected s' = selected s /\ proposal s' = proposal s /\ buf_type s' = buf_type s /\ ch_map s' = ch_map s.

Lemma same25_refl s : same25 s s. Proof. repeat split. Qed.
Lemma same25_trans a b c : same25 a b -> same25 b c -> same25 a c.
Proof. unfold same25. intuition congruence. Qed.

Lemma begin_same25 c s : same25 s (snd (begin_of_advertising_events c s)).
Proof.
  unfold begin_of_advertising_events, same25. destruct (c_manual c); [destruct (count_down _ _)|]; psimpl; repeat split.
Qed.
Lemma continued_same25 c s : same25 s (snd (continued_advertising_events c s)).
Proof.
  unfold continued_advertising_events, same25. destruct (c_manual c); [destruct (count_down _ _)|]; psimpl; repeat split.
Qed.
Lemma first_channel_same25 c s s' : first_channel c s = Some s' -> same25 s s'.
Proof.
  unfold first_channel, same25. destruct (c_varmap c); [destruct (ch_map s =? 0); [discriminate|]|];
    intros H; inversion H; subst; psimpl; repeat split.
Qed.
Lemma next_channel_same25 c s s' : next_channel c s = Some s' -> same25 s s'.
Proof.
  unfold next_channel, same25. destruct (c_varmap c); [destruct (ch_map s =? 0); [discriminate|]|];
    intros H; inversion H; subst; psimpl; repeat split.
Qed.
Lemma next_adv_event_same25 c s : same25 s (snd (next_adv_event c s)).
Proof.
  unfold next_adv_event, same25. destruct (negb (first_channel_selected c s)); psimpl; repeat split.
Qed.

(* ------------------------------------------------------------------ the advertising type in use *)
Definition ty_at (c : cfg) (k : nat) : option atype :=
  if is_multi c then nth_error (types_of c) k else Some (hd TUndirected (types_of c)).

Lemma sel_type_at c s : sel_type c s = ty_at c (selected s).
Proof. reflexivity. Qed.

(* the advertising buffer holds a PDU of the type in use, or directed advertising waits for its address *)
Definition j_ok (c : cfg) (s : state) : Prop :=
  (exists t, sel_type c s = Some t /\ buf_type s = pdu_code t) \/
  (sel_type c s = Some TDirected /\ d_valid s = false /\ d_started s = true).

Definition in_range (c : cfg) (s : state) : Prop :=
  is_multi c = true -> (selected s < length (types_of c))%nat /\ (proposal s < length (types_of c))%nat.

Lemma ty_at_some c k : (is_multi c = true -> (k < length (types_of c))%nat) -> exists t, ty_at c k = Some t.
Proof.
  unfold ty_at. destruct (is_multi c); intros H; [|eauto].
  destruct (nth_error (types_of c) k) eqn:E; eauto. apply nth_error_None in E. specialize (H eq_refl). lia.
Qed.

(* fill_advertising_data *)
Lemma fill_effect c s b s' :
  fill_advertising_data c s = (b, s') ->
  d_addr s' = d_addr s /\ d_valid s' = d_valid s /\ selected s' = selected s /\ proposal s' = proposal s /\
  (sel_type c s <> None -> j_ok c s') /\
  (b = true -> exists t, sel_type c s' = Some t /\ buf_type s' = pdu_code t).
Proof.
  unfold fill_advertising_data, j_ok. rewrite !sel_type_at.
  destruct (ty_at c (selected s)) as [[| | |]|] eqn:T; try destruct (d_valid s) eqn:V;
    intros H; inversion H; subst; psimpl; rewrite ?sel_type_at; psimpl; rewrite ?T;
    (repeat split; auto; try congruence; try discriminate);
    try (intros _; left; eexists; split; [reflexivity|reflexivity]);
    try (intros _; eexists; split; [reflexivity|reflexivity]).
Qed.

Definition sched_code_ok (c : cfg) (s' : state) (x : sched) : Prop :=
  match x with
  | NoSched => True
  | Sched _ _ code => exists t, sel_type c s' = Some t /\ code = pdu_code t
  end.

Lemma start_effect25 c s s' x :
  in_range c s -> handle_start_advertising c s = Some (s', x) ->
  d_addr s' = d_addr s /\ d_valid s' = d_valid s /\ proposal s' = proposal s /\
  selected s' = (if is_multi c then proposal s else selected s) /\
  j_ok c s' /\ sched_code_ok c s' x.
Proof.
  intros R. unfold handle_start_advertising.
  set (s1 := if is_multi c then set_selected s (proposal s) else s).
  assert (E1 : d_addr s1 = d_addr s /\ d_valid s1 = d_valid s /\ proposal s1 = proposal s /\
               selected s1 = (if is_multi c then proposal s else selected s)).
  { unfold s1. destruct (is_multi c); psimpl; auto. }
  assert (N1 : sel_type c s1 <> None).
  { rewrite sel_type_at. destruct E1 as (_ & _ & _ & ->).
    destruct (ty_at_some c (if is_multi c then proposal s else selected s)) as [t ->]; [|discriminate].
    intros M. rewrite M. apply R; auto. }
  destruct E1 as (A1 & A2 & A3 & A4).
  destruct (fill_advertising_data c s1) as [ne s2] eqn:F. apply fill_effect in F.
  destruct F as (F1 & F2 & F3 & F4 & F5 & F6). specialize (F5 N1).
  destruct ne; cbn [negb].
  2:{ intros H; inversion H; subst. cbn [sched_code_ok]. repeat split; auto; congruence. }
  specialize (F6 eq_refl).
  pose proof (begin_same25 c s2) as B. destruct (begin_of_advertising_events c s2) as [go s3]. cbn [snd] in B.
  assert (J3 : j_ok c s3 /\ exists t, sel_type c s3 = Some t /\ buf_type s3 = pdu_code t).
  { destruct B as (B1 & B2 & B3 & B4 & B5 & B6 & B7). unfold j_ok in *. rewrite !sel_type_at in *. rewrite B2, B3, B4, B6. auto. }
  destruct go; cbn [negb].
  2:{ intros H; inversion H; subst. destruct B as (B1 & B2 & B3 & B4 & B5 & B6 & B7). cbn [sched_code_ok].
      repeat split; try congruence. apply J3. }
  destruct (first_channel c s3) as [s4|] eqn:FC; [|discriminate].
  apply first_channel_same25 in FC. destruct (same25_trans _ _ _ B FC) as (C1 & C2 & C3 & C4 & C5 & C6 & C7).
  intros H; inversion H; subst. cbn [sched_code_ok].
  destruct F6 as (t & T1 & T2).
  assert (J4 : exists t, sel_type c s' = Some t /\ buf_type s' = pdu_code t).
  { exists t. rewrite sel_type_at in *. rewrite C4, C6. auto. }
  repeat split; try congruence.
  all: try (left; auto; fail).
  all: try (destruct J4 as (t' & U1 & U2); exists t'; auto; fail).
Qed.

Lemma timeout_effect25 c s s' x :
  in_range c s -> j_ok c s -> handle_adv_timeout c s = Some (s', x) ->
  d_addr s' = d_addr s /\ d_valid s' = d_valid s /\ proposal s' = proposal s /\
  selected s' = (if is_multi c then proposal s else selected s) /\
  j_ok c s' /\ sched_code_ok c s' x.
Proof.
  intros R J. unfold handle_adv_timeout.
  set (fs := if is_multi c then _ else _).
  assert (E1 : d_addr (snd fs) = d_addr s /\ d_valid (snd fs) = d_valid s /\ proposal (snd fs) = proposal s /\
               selected (snd fs) = (if is_multi c then proposal s else selected s) /\
               d_started (snd fs) = d_started s /\ buf_type (snd fs) = buf_type s /\
               (fst fs = false -> selected (snd fs) = selected s)).
  { unfold fs. destruct (is_multi c); [destruct (Nat.eqb (selected s) (proposal s)) eqn:Q|]; psimpl; repeat split; auto.
    - apply Nat.eqb_eq in Q. auto.
    - discriminate. }
  destruct fs as [fill s1]. cbn [fst snd] in E1. destruct E1 as (A1 & A2 & A3 & A4 & A5 & A6 & A7).
  assert (N1 : sel_type c s1 <> None).
  { rewrite sel_type_at, A4.
    destruct (ty_at_some c (if is_multi c then proposal s else selected s)) as [t ->]; [|discriminate].
    intros M. rewrite M. apply R; auto. }
  set (ns := if fill then _ else _).
  assert (E2 : d_addr (snd ns) = d_addr s1 /\ d_valid (snd ns) = d_valid s1 /\ selected (snd ns) = selected s1 /\
               proposal (snd ns) = proposal s1 /\ j_ok c (snd ns) /\
               (fst ns = true -> exists t, sel_type c (snd ns) = Some t /\ buf_type (snd ns) = pdu_code t)).
  { unfold ns. destruct fill.
    - destruct (fill_advertising_data c s1) as [b s2] eqn:F. apply fill_effect in F. cbn [fst snd].
      destruct F as (F1 & F2 & F3 & F4 & F5 & F6). repeat split; auto.
    - cbn [fst snd]. specialize (A7 eq_refl).
      assert (J1 : j_ok c s1).
      { unfold j_ok in *. rewrite !sel_type_at in *. rewrite A7, A2, A5, A6. auto. }
      repeat split; auto. unfold get_advertising_data. intros G.
      destruct J1 as [J1|(J1 & J2 & J3)]; auto. rewrite J1, J2 in G. discriminate. }
  destruct ns as [ne s2]. cbn [fst snd] in E2. destruct E2 as (F1 & F2 & F3 & F4 & F5 & F6).
  destruct ne; cbn [negb].
  2:{ intros H; inversion H; subst. cbn [sched_code_ok]. repeat split; auto; congruence. }
  specialize (F6 eq_refl).
  pose proof (continued_same25 c s2) as B. destruct (continued_advertising_events c s2) as [go s3]. cbn [snd] in B.
  assert (J3 : j_ok c s3 /\ exists t, sel_type c s3 = Some t /\ buf_type s3 = pdu_code t).
  { destruct B as (B1 & B2 & B3 & B4 & B5 & B6 & B7). unfold j_ok in *. rewrite !sel_type_at in *. rewrite B2, B3, B4, B6. auto. }
  destruct go; cbn [negb].
  2:{ intros H; inversion H; subst. destruct B as (B1 & B2 & B3 & B4 & B5 & B6 & B7). cbn [sched_code_ok].
      repeat split; try congruence. apply J3. }
  destruct (next_channel c s3) as [s4|] eqn:NC; [|discriminate].
  apply next_channel_same25 in NC.
  pose proof (next_adv_event_same25 c s4) as NA. destruct (next_adv_event c s4) as [d s5]. cbn [snd] in NA.
  destruct (same25_trans _ _ _ (same25_trans _ _ _ B NC) NA) as (C1 & C2 & C3 & C4 & C5 & C6 & C7).
  intros H; inversion H; subst. cbn [sched_code_ok].
  destruct F6 as (t & T1 & T2).
  assert (J4 : exists t, sel_type c s' = Some t /\ buf_type s' = pdu_code t).
  { exists t. rewrite sel_type_at in *. rewrite C4, C6. auto. }
  repeat split; try congruence.
  all: try (left; auto; fail).
  all: try (destruct J4 as (t' & U1 & U2); exists t'; auto; fail).
Qed.

(* ------------------------------------------------------------------ the C25 invariant *)
Definition eff (c : cfg) (m : mon25) (k : nat) : Prop :=
  exists t, ty_at c k = Some t /\ (v_last m = Some t \/ In t (v_cands m)).

Definition pre25 (c : cfg) (s : state) (m : mon25) : Prop :=
  v_map m = (if c_varmap c then ch_map s else 7) /\
  v_target m = target_of s /\ in_range c s /\
  (0 < v_pending m -> v_last m <> None) /\
  (v_prop m = proposal s /\ (v_last m <> None -> eff c m (selected s))).

Definition core25 (c : cfg) (s : state) (m : mon25) : Prop :=
  pre25 c s m /\ (v_last m <> None -> j_ok c s).

Definition inv25 (c : cfg) (s : state) (m : mon25) : Prop := v_void m = true \/ core25 c s m.

Lemma pdu_code_inj a b : pdu_code a = pdu_code b -> a = b.
Proof. destruct a, b; cbn; intros H; try reflexivity; discriminate. Qed.

Lemma find_code l t : In t l -> find (fun t' => pdu_code t' =? pdu_code t) l = Some t.
Proof.
  induction l as [|h l IH]; intros H; [destruct H|]. cbn [find].
  destruct (pdu_code h =? pdu_code t) eqn:E.
  - apply N.eqb_eq in E. apply pdu_code_inj in E. congruence.
  - destruct H as [->|H]; [rewrite N.eqb_refl in E; discriminate|auto].
Qed.

Lemma types_of_nonempty c : types_of c <> [].
Proof. unfold types_of. destruct (c_types c); discriminate. Qed.

Lemma ty_at_in c k t : ty_at c k = Some t -> In t (types_of c).
Proof.
  unfold ty_at. destruct (is_multi c).
  - apply nth_error_In.
  - intros H; inversion H. pose proof (types_of_nonempty c). destruct (types_of c); [congruence|]. left; auto.
Qed.

Lemma type_of_code_at c k t : ty_at c k = Some t -> type_of_code c (pdu_code t) = Some t.
Proof. intros H. unfold type_of_code. apply find_code. eapply ty_at_in; eauto. Qed.

Ltac vsimpl := cbn [v_void v_pending v_last v_cands v_target v_map v_prop answer25 void25 fst snd].

(* more candidates never hurt the invariant *)
Lemma core25_grow c s m l :
  core25 c s m ->
  core25 c s (mkm25 false (v_pending m) (v_last m) (v_cands m ++ l) (v_target m) (v_map m) (v_prop m)).
Proof.
  intros ((PM & PT & PR & PP & PV & PE) & J). unfold core25, pre25, eff in *. vsimpl.
  refine (conj (conj PM (conj PT (conj PR (conj PP (conj PV _))))) J).
  intros L. destruct (PE L) as (t & E1 & [E2|E2]); exists t; split; auto. right. apply in_or_app. auto.
Qed.

(* after handle_start_advertising / handle_adv_timeout *)
Lemma after_handler c s m s' x :
  pre25 c s m ->
  d_addr s' = d_addr s -> d_valid s' = d_valid s -> proposal s' = proposal s ->
  selected s' = (if is_multi c then proposal s else selected s) ->
  ch_map s' = ch_map s ->
  j_ok c s' -> sched_code_ok c s' x ->
  fst (on_sched25 c true m x) = Ok /\ core25 c s' (snd (on_sched25 c true m x)).
Proof.
  intros (PM & PT & PR & PP & PV & PE) A1 A2 A3 A4 A5 J SC.
  assert (PM' : v_map m = (if c_varmap c then ch_map s' else 7)) by (rewrite A5; auto).
  assert (TT : target_of s' = target_of s) by (unfold target_of; rewrite A1, A2; auto).
  assert (R' : in_range c s').
  { intros M. specialize (PR M). rewrite A3, A4, M. tauto. }
  assert (PV' : v_prop m = proposal s') by congruence.
  destruct x as [|ch d code]; cbn [on_sched25 sched_code_ok] in *.
  - cbn [fst snd]. split; auto. split; [|auto]. unfold pre25, eff. vsimpl.
    refine (conj PM' (conj _ (conj R' (conj PP (conj PV' _))))); [congruence|].
    intros L. rewrite A4. destruct (is_multi c) eqn:M.
    + (* the advertiser switched to the proposed type *)
      destruct (ty_at_some c (proposal s)) as [t T]; [intros _; apply PR; auto|].
      exists t. split; auto. right. apply in_or_app. right.
      unfold prop_types. rewrite PV. unfold ty_at in T. rewrite M in T. rewrite T. left; auto.
    + destruct (PE L) as (t & E1 & [E2|E2]); exists t; split; auto. right. apply in_or_app. auto.
  - destruct SC as (t & T1 & ->). rewrite sel_type_at in T1.
    rewrite (type_of_code_at c _ t T1). cbn [fst snd]. split; auto.
    split; [|auto]. unfold pre25, eff. vsimpl.
    refine (conj PM' (conj _ (conj R' (conj _ (conj PV' _))))); [congruence|discriminate|].
    intros _. exists t; auto.
Qed.

Lemma pre25_answer c s m : pre25 c s m -> 0 < v_pending m -> pre25 c s (answer25 m).
Proof.
  intros (PM & PT & PR & PP & PE) H. unfold pre25, eff in *. vsimpl. refine (conj PM (conj PT (conj PR (conj _ PE)))). auto.
Qed.

Lemma addr_same_refl a : addr_same a a = true.
Proof.
  unfold addr_same. rewrite (proj2 (bytes_eqb_eq _ _) eq_refl). destruct (arandom a); reflexivity.
Qed.

Lemma existsb_in (A : Type) (f : A -> bool) l x : In x l -> f x = true -> existsb f l = true.
Proof. intros. apply existsb_exists. eauto. Qed.

Definition op_bytes_ok (o : op) : Prop :=
  match o with Rx p | ConnReq p | ScanReq p => bytes_ok p | _ => True end.

Lemma in_effect_sel c s m t :
  pre25 c s m -> v_last m <> None -> sel_type c s = Some t -> In t (in_effect m).
Proof.
  intros (PM & PT & PR & PP & PV & PE) L T. destruct (PE L) as (t' & E1 & E2). rewrite sel_type_at in T.
  assert (t' = t) by congruence. subst. unfold in_effect. destruct (v_last m) as [l|]; [|congruence].
  destruct E2 as [E2|E2]; [left; congruence|right; auto].
Qed.

Lemma core25_frame c s s1 m : core25 c s m -> same25 s s1 -> core25 c s1 m.
Proof.
  intros ((PM & PT & PR & PP & PE) & J) (E1 & E2 & E3 & E4 & E5 & E6 & E7).
  unfold core25, pre25, in_range, j_ok, target_of in *. rewrite !sel_type_at in *.
  rewrite E1, E2, E3, E4, E5, E6, E7. repeat split; auto; tauto.
Qed.

Lemma pre25_frame c s s1 m : pre25 c s m -> same25 s s1 -> pre25 c s1 m.
Proof.
  intros (PM & PT & PR & PP & PE) (E1 & E2 & E3 & E4 & E5 & E6 & E7).
  unfold pre25, in_range, target_of in *. rewrite E1, E2, E4, E5, E7. repeat split; auto; tauto.
Qed.

(* a (re)start *)
Lemma restart25 c s0 s1 m1 :
  pre25 c s1 m1 ->
  match lift (handle_start_advertising c s1) s0 with
  | (s', OSched x) => fst (on_sched25 c true m1 x) = Ok /\ core25 c s' (snd (on_sched25 c true m1 x))
  | (_, OFault) => True
  | _ => False
  end.
Proof.
  intros P. destruct (handle_start_advertising c s1) as [[s' x]|] eqn:H; cbn [lift]; auto.
  pose proof P as (PM & PT & PR & PP & PE).
  pose proof (start_effect _ _ _ _ H) as (Em & _).
  apply start_effect25 in H; auto. destruct H as (A1 & A2 & A3 & A4 & J & SC).
  apply after_handler with (s := s1); auto.
Qed.

Lemma void25_inv c s m : inv25 c s (void25 m).
Proof. left; reflexivity. Qed.

Lemma step25_ok c s m o :
  op_bytes_ok o -> inv25 c s m ->
  fst (mstep25 c m o (snd (step c s o))) = Ok /\
  inv25 c (fst (step c s o)) (snd (mstep25 c m o (snd (step c s o)))).
Proof.
  intros OB I.
  destruct (v_void m) eqn:V.
  { unfold mstep25. rewrite V. cbn [fst snd]. split; auto. left; auto. }
  destruct I as [I|C]; [congruence|].
  pose proof C as (P & J). pose proof P as (PM & PT & PR & PP & PE).
  unfold mstep25. rewrite V.
  destruct o; cbn [step].
  - (* LStart *)
    pose proof (restart25 c s s m P) as H.
    destruct (lift (handle_start_advertising c s) s) as [s' [x| | | | |]]; try contradiction; cbn [fst snd].
    + destruct H as [H1 H2]. split; auto. right; auto.
    + split; auto. apply void25_inv.
  - (* LStop *)
    cbn [fst snd on_sched25]. split; auto. right. apply core25_frame with (s := s); auto.
    unfold end_of_advertising_events, same25. destruct (c_manual c); psimpl; repeat split.
  - (* Timeout *)
    destruct (handle_adv_timeout c s) as [[s' x]|] eqn:H; cbn [lift fst snd]; [|split; auto; apply void25_inv].
    destruct (v_pending m =? 0) eqn:Z; cbn [fst snd]; [split; auto; apply void25_inv|].
    assert (L : v_last m <> None) by (apply PP; lia).
    pose proof (timeout_effect _ _ _ _ H) as (Em & _).
    apply timeout_effect25 in H; auto. destruct H as (A1 & A2 & A3 & A4 & J' & SC).
    destruct (after_handler c s (answer25 m) s' x (pre25_answer c s m P ltac:(lia)) A1 A2 A3 A4 Em J' SC) as [H1 H2].
    split; auto. right; auto.
  - (* Rx *)
    cbn [op_bytes_ok] in OB.
    assert (RXB : forall r', match r' with OBadOp => False | _ => True end ->
              (match r' with OBadOp => (Ok, void25 m) | _ =>
                 if (v_pending m =? 0) || (v_map m =? 0) then (Ok, void25 m) else
                 match r' with
                 | OAcc a => if existsb (fun t => may_connect_b (c_off c) (c_own c) (c_filter c) (v_target m) t p) (in_effect m)
                                && addr_same a (initiator (c_off c) p) then (Ok, answer25 m) else (Bad t_accept_iff, m)
                 | ORej x => if existsb (fun t => negb (may_connect_b (c_off c) (c_own c) (c_filter c) (v_target m) t p)) (in_effect m)
                             then on_sched25 c true (answer25 m) x else (Bad t_accept_iff, m)
                 | OFault => (Bad t_fault, m)
                 | _ => (Bad t_shape, m)
                 end end) =
              (if (v_pending m =? 0) || (v_map m =? 0) then (Ok, void25 m) else
                 match r' with
                 | OAcc a => if existsb (fun t => may_connect_b (c_off c) (c_own c) (c_filter c) (v_target m) t p) (in_effect m)
                                && addr_same a (initiator (c_off c) p) then (Ok, answer25 m) else (Bad t_accept_iff, m)
                 | ORej x => if existsb (fun t => negb (may_connect_b (c_off c) (c_own c) (c_filter c) (v_target m) t p)) (in_effect m)
                             then on_sched25 c true (answer25 m) x else (Bad t_accept_iff, m)
                 | OFault => (Bad t_fault, m)
                 | _ => (Bad t_shape, m)
                 end)).
    { intros r' Hr. destruct r'; auto. contradiction. }
    destruct (accepts c s p) eqn:ACC.
    + cbn [fst snd]. destruct ((v_pending m =? 0) || (v_map m =? 0)) eqn:Z; cbn [fst snd]; [split; auto; apply void25_inv|].
      assert (L : v_last m <> None) by (apply PP; lia).
      rewrite accepts_spec in ACC by auto. destruct (sel_type c s) as [t|] eqn:T; [|discriminate].
      rewrite (remote_is_initiator _ _ OB), addr_same_refl, andb_true_r.
      rewrite (existsb_in _ _ _ t (in_effect_sel c s m t P L T)); [|rewrite PT; auto].
      cbn [fst snd]. split; auto. right. split; [apply pre25_answer; auto; lia|auto].
    + destruct (handle_adv_timeout c s) as [[s' x]|] eqn:H; cbn [fst snd].
      * destruct ((v_pending m =? 0) || (v_map m =? 0)) eqn:Z; cbn [fst snd]; [split; auto; apply void25_inv|].
        assert (L : v_last m <> None) by (apply PP; lia).
        rewrite accepts_spec in ACC by auto.
        assert (EX : existsb (fun t => negb (may_connect_b (c_off c) (c_own c) (c_filter c) (v_target m) t p)) (in_effect m) = true).
        { destruct (sel_type c s) as [t|] eqn:T.
          - apply existsb_in with (x := t); [eapply in_effect_sel; eauto|]. rewrite PT, ACC. reflexivity.
          - exfalso. rewrite sel_type_at in T. destruct (ty_at_some c (selected s)) as [t E]; [apply PR|congruence]. }
        rewrite EX.
        pose proof (timeout_effect _ _ _ _ H) as (Em & _).
        apply timeout_effect25 in H; auto. destruct H as (A1 & A2 & A3 & A4 & J' & SC).
        destruct (after_handler c s (answer25 m) s' x (pre25_answer c s m P ltac:(lia)) A1 A2 A3 A4 Em J' SC) as [H1 H2].
        split; auto. right; auto.
      * (* the code fails an assert only with an empty channel map *)
        apply timeout_none in H. destruct H as [VM Hz]. rewrite VM in PM.
        assert (Z : (v_pending m =? 0) || (v_map m =? 0) = true) by (rewrite PM, Hz; apply orb_true_r).
        rewrite Z. cbn [fst snd]. split; auto. apply void25_inv.
  - (* Start *)
    destruct (negb (c_manual c)); cbn [fst snd]; [split; auto; apply void25_inv|].
    set (s1 := set_ss s (ss_started s) true 0).
    assert (S1 : same25 s s1) by (unfold s1, same25; psimpl; repeat split).
    destruct (negb (ss_enabled s) && ss_started s).
    + pose proof (restart25 c s s1 m (pre25_frame _ _ _ _ P S1)) as H.
      destruct (lift (handle_start_advertising c s1) s) as [s' [x| | | | |]]; try contradiction; cbn [fst snd].
      * destruct H as [H1 H2]. split; auto. right; auto.
      * split; auto. apply void25_inv.
    + cbn [fst snd on_sched25]. split; auto. right. apply core25_frame with (s := s); auto. apply core25_grow; auto.
  - (* StartN *)
    destruct (negb (c_manual c)); cbn [fst snd]; [split; auto; apply void25_inv|].
    destruct (k =? 0); cbn [fst snd]; [split; auto; apply void25_inv|].
    set (s1 := set_ss s (ss_started s) true k).
    assert (S1 : same25 s s1) by (unfold s1, same25; psimpl; repeat split).
    destruct (negb (ss_enabled s) && ss_started s).
    + pose proof (restart25 c s s1 m (pre25_frame _ _ _ _ P S1)) as H.
      destruct (lift (handle_start_advertising c s1) s) as [s' [x| | | | |]]; try contradiction; cbn [fst snd].
      * destruct H as [H1 H2]. split; auto. right; auto.
      * split; auto. apply void25_inv.
    + cbn [fst snd on_sched25]. split; auto. right. apply core25_frame with (s := s); auto. apply core25_grow; auto.
  - (* Stop *)
    destruct (negb (c_manual c)); cbn [fst snd on_sched25]; split; auto; try apply void25_inv.
    right. apply core25_frame with (s := s); auto. unfold same25; psimpl; repeat split.
  - (* AddCh *)
    destruct (c_varmap c) eqn:VM; cbn [negb fst snd]; [|split; auto; apply void25_inv].
    destruct (negb (in_adv_channels ch)); cbn [fst snd]; [split; auto; apply void25_inv|].
    split; auto. right.
    unfold core25, pre25, in_range, eff, target_of, j_ok in *. rewrite !sel_type_at in *. vsimpl. psimpl.
    rewrite VM in *. rewrite PM. unfold first_advertising_channel.
    refine (conj (conj eq_refl (conj PT (conj PR (conj PP PE)))) J).
  - (* RmCh *)
    destruct (c_varmap c) eqn:VM; cbn [negb fst snd]; [|split; auto; apply void25_inv].
    destruct (negb (in_adv_channels ch)); cbn [fst snd]; [split; auto; apply void25_inv|].
    split; auto. right.
    unfold core25, pre25, in_range, eff, target_of, j_ok in *. rewrite !sel_type_at in *. vsimpl. psimpl.
    rewrite VM in *. rewrite PM. unfold first_advertising_channel.
    refine (conj (conj eq_refl (conj PT (conj PR (conj PP PE)))) J).
  - (* IvalMs *)
    destruct (negb (c_varival c)); cbn [fst snd on_sched25]; split; auto; try apply void25_inv.
    right. apply core25_frame with (s := s); auto.
    destruct ((20 <=? ms) && (ms <=? 10240)); unfold same25; psimpl; repeat split.
  - (* IvalUs *)
    destruct (negb (c_varival c)); cbn [fst snd on_sched25]; split; auto; try apply void25_inv.
    right. apply core25_frame with (s := s); auto.
    destruct ((20000 <=? us) && (us <=? 10240000)); unfold same25; psimpl; repeat split.
  - (* DAddr *)
    destruct (negb (has_directed c)); cbn [fst snd]; [split; auto; apply void25_inv|].
    set (valid := negb (addr_eqb a zero_addr)).
    set (s1 := set_daddr s a valid).
    set (m1 := mkm25 false (v_pending m) (v_last m) (v_cands m) (if addr_same a zero_addr then None else Some a) (v_map m) (v_prop m)).
    assert (P1 : pre25 c s1 m1).
    { unfold pre25, in_range, eff, target_of, s1, m1, valid in *. vsimpl. psimpl.
      refine (conj PM (conj _ (conj PR (conj PP PE)))).
      change (addr_same a zero_addr) with (addr_eqb a zero_addr). destruct (addr_eqb a zero_addr); reflexivity. }
    destruct (negb (d_valid s) && valid && d_started s) eqn:ST.
    + pose proof (restart25 c s s1 m1 P1) as H.
      destruct (lift (handle_start_advertising c s1) s) as [s' [x| | | | |]]; try contradiction; cbn [fst snd].
      * destruct H as [H1 H2]. split; auto. right; auto.
      * split; auto. apply void25_inv.
    + cbn [fst snd on_sched25]. split; auto. right.
      assert (C1 : core25 c s1 m1).
      { split; auto.
        unfold m1. vsimpl. intros L. specialize (J L). unfold j_ok, s1 in *. rewrite !sel_type_at in *. psimpl.
        destruct J as [J|(J1 & J2 & J3)]; auto.
        rewrite J2, J3 in ST. cbn [negb andb] in ST. rewrite andb_true_r in ST. unfold valid in *. rewrite ST. auto. }
      apply (core25_grow c s1 m1 (prop_types c m1) C1).
  - (* Chg *)
    destruct (is_multi c && Nat.ltb k (length (types_of c))) eqn:G; cbn [fst snd]; [|split; auto; apply void25_inv].
    apply andb_prop in G as [G1 G2]. apply Nat.ltb_lt in G2.
    split; auto. right. destruct PE as [PV PE].
    unfold core25, pre25, in_range, eff, target_of, j_ok in *. rewrite !sel_type_at in *. vsimpl. psimpl.
    refine (conj (conj PM (conj PT (conj _ (conj PP (conj eq_refl PE))))) J).
    intros M. specialize (PR M). tauto.
  - (* DataChanged *)
    cbn [fst snd on_sched25]. split; auto. right. apply core25_frame with (s := s); auto.
    unfold same25; psimpl; repeat split.
  - (* ConnReq *)
    cbn [op_bytes_ok] in OB. cbn [fst snd]. rewrite valid_connect_base_spec by auto.
    rewrite (proj2 (eqb_bool_eq _ _) eq_refl). split; auto. right; auto.
  - (* ScanReq *)
    cbn [op_bytes_ok] in OB. cbn [fst snd]. rewrite valid_scan_spec by auto.
    rewrite (proj2 (eqb_bool_eq _ _) eq_refl). split; auto. right; auto.
Qed.

Lemma multi_length c : is_multi c = true -> (2 <= length (types_of c))%nat.
Proof.
  unfold is_multi, types_of. intros H. apply Nat.leb_le in H. destruct (c_types c); cbn in *; lia.
Qed.

Lemma init_inv25 c : inv25 c (init c) (minit25 c).
Proof.
  right. unfold core25, pre25, in_range, minit25, init, target_of. vsimpl. psimpl.
  split; [|intros H; congruence].
  refine (conj _ (conj eq_refl (conj _ (conj _ (conj eq_refl _))))).
  - destruct (c_varmap c); reflexivity.
  - intros M. apply multi_length in M. lia.
  - intros H. exfalso. revert H. apply N.lt_irrefl.
  - intros H; congruence.
Qed.

Lemma monitor25_from_ok c ops :
  Forall op_bytes_ok ops ->
  forall s m pos, inv25 c s m -> monitor_from (mstep25 c) m pos (run c s ops) = None.
Proof.
  induction 1 as [|o t Ho Ht IH]; intros s m pos I; cbn [run]; [reflexivity|].
  pose proof (step25_ok c s m o Ho I) as H.
  destruct (step c s o) as [s' r]. cbn [fst snd] in H. cbn [monitor_from].
  destruct (mstep25 c m o r) as [v m']. cbn [fst snd] in H. destruct H as [-> I']. apply IH; auto.
Qed.

Theorem monitor25_accepts_model c ops :
  Forall op_bytes_ok ops -> monitor25 c (run c (init c) ops) = None.
Proof. intros H. apply monitor25_from_ok; auto. apply init_inv25. Qed.

(* ------------------------------------------------------------------ what the Rx operation reports *)
Lemma rx_acc_iff c s p : (exists a, snd (step c s (Rx p)) = OAcc a) <-> accepts c s p = true.
Proof.
  cbn [step]. destruct (accepts c s p).
  - split; auto. intros _. eexists. reflexivity.
  - split; [|discriminate]. intros [a H]. destruct (handle_adv_timeout c s) as [[s' x]|]; discriminate.
Qed.

Lemma rx_acc_remote c s p a :
  bytes_ok p -> snd (step c s (Rx p)) = OAcc a -> a = initiator (c_off c) p /\ fst (step c s (Rx p)) = s.
Proof.
  intros B. cbn [step]. destruct (accepts c s p).
  - cbn [fst snd]. intros H; inversion H. rewrite remote_is_initiator by auto. auto.
  - destruct (handle_adv_timeout c s) as [[s' x]|]; discriminate.
Qed.

Lemma not_connectable_rejects c s p t :
  bytes_ok p -> sel_type c s = Some t -> t = TScannable \/ t = TNonConn -> accepts c s p = false.
Proof.
  intros B T [-> | ->]; rewrite accepts_spec by auto; rewrite T; reflexivity.
Qed.

(* the perturbation added to the interval between two events *)
Lemma perturbation_range p : (p + perturbation_stride) mod (max_adv_perturbation + 1) <= max_adv_perturbation.
Proof.
  unfold perturbation_stride, max_adv_perturbation. pose proof (N.mod_upper_bound (p + 7) (10 + 1)). lia.
Qed.
