(* C39 part 3: inside the environment [env_run] the specification monitor accepts every trace of the
   model (simulation relation [sim] between model state and monitor state). *)
From BT Require Import Base.ListX Boot.BootModel Boot.BootSpec Boot.BootBase Boot.BootSafe.
From Coq Require Import Lia ZifyBool.
Local Open Scope N_scope.

(* ------------------------------------------------------------------ the environment
   No Stop Flash / Get Version / Get Sizes / Start Flash (the procedures that free both page buffers
   and reset used_buffer_ / next_buffer_) while a page is being flashed and not yet reported; no Read
   Request on the progress characteristic.  (The handler reports every flash operation at most once:
   built into the EndFlash operation.) *)
Definition is_flashing (b : fbuf) : bool := match bst b with Flashing => true | _ => false end.

Definition frees_all (v : list N) : bool :=
  match v with
  | [] => false
  | op0 :: _ => let op := op0 mod 256 in (op =? 0) || (op =? 2) || (op =? 4) || (op =? 3)
  end.

Definition no_flashing (k : ctl) : bool := negb (is_flashing (buf0 k)) && negb (is_flashing (buf1 k)).

Definition env_ok (s : state) (x : op) : bool :=
  match x with
  | Rd ChProg => false
  | WCp v | WCpCmd v => if frees_all v then no_flashing (sc s) else true
  | _ => true
  end.

Fixpoint env_run (c : cfg) (o : oracle) (s : state) (ops : list op) : bool :=
  match ops with
  | [] => true
  | x :: t => env_ok s x && env_run c o (fst (step c o s x)) t
  end.

(* ------------------------------------------------------------------ the simulation relation *)
Definition other (i : nat) : nat := ((i + 1) mod 2)%nat.

(* (check sum, consecutive number) of the buffers being flashed, oldest first:
   [cur] is the buffer next_buffer_ points to, [oth] the other one *)
Definition donev (cur oth : fbuf) : list (N * N) :=
  (if is_flashing oth then [(bcrc oth, bcons oth)] else []) ++
  (if is_flashing cur then [(bcrc cur, bcons cur)] else []).

Definition nflash (cur oth : fbuf) : N :=
  (if is_flashing oth then 1 else 0) + (if is_flashing cur then 1 else 0).

Definition cur_rel (cur : fbuf) (co sa : N) (m : mon) : Prop :=
  chain m = bcrc cur /\ kpage m = bcons cur /\ co = bcons cur /\
  match bst cur with
  | Filling => expd m = placed (baddr cur) (bdata cur) /\ sa = baddr cur + bptr cur
  | _ => expd m = []
  end.

(* used_buffer_ points to the oldest buffer being flashed, else to the one that will be flashed next *)
Definition used_rel (nb ub : nat) (fm : bool) (cur oth : fbuf) : Prop :=
  (if is_flashing oth then ub = other nb
   else if is_flashing cur then ub = nb
   else fm = true -> ub = (if bempty cur then other nb else nb)) /\
  (fm = true -> bempty cur = true -> is_flashing oth = false).

Record simv (fl : N) (qp : bool) (nb ub : nat) (fm : bool) (cur oth : fbuf) (co sa : N) (m : mon) : Prop := mksim {
  sim_nb : (nb < 2)%nat;
  sim_sess : wp m = if fm then Some sa else None;
  sim_cur : fm = true -> cur_rel cur co sa m;
  sim_done : done m = donev cur oth;
  sim_used : used_rel nb ub fm cur oth;
  sim_cnt : fl + (if qp then 1 else 0) <= nflash cur oth
}.

(* [fl]: flash operations the handler has not reported yet, [qp]: progress notification queued *)
Definition simf (fl : N) (qp : bool) (k : ctl) (m : mon) : Prop :=
  simv fl qp (nextb k) (usedb k) (flashm k) (getb k (nextb k)) (getb k (other (nextb k)))
       (consec k) (start_a k) m.

Definition sim (s : state) (m : mon) : Prop := simf (flashing (sh s)) (qprog (sq s)) (sc s) m.

(* ------------------------------------------------------------------ small facts *)
Lemma eqb_list_refl x : eqb_list x x = true.
Proof. induction x as [|a t IH]; cbn; [reflexivity|]. rewrite N.eqb_refl, IH. reflexivity. Qed.

Lemma eqb_plist_refl x : eqb_plist x x = true.
Proof. induction x as [|[a b] t IH]; cbn; [reflexivity|]. rewrite !N.eqb_refl, IH. reflexivity. Qed.

Lemma map_seq_shift (A : Type) (f : nat -> A) n : forall s,
  map f (seq s n) = map (fun i => f (s + i)%nat) (seq 0 n).
Proof.
  induction n as [|n IH]; intros s; cbn [seq map]; [reflexivity|].
  f_equal; [f_equal; lia|].
  rewrite (IH (S s)), <- seq_shift, map_map. apply map_ext. intros i. f_equal. lia.
Qed.

Lemma addrs_app a n1 n2 : addrs a (n1 + n2) = addrs a n1 ++ addrs (a + N.of_nat n1) n2.
Proof.
  unfold addrs. rewrite seq_app, map_app. f_equal. cbn [plus].
  rewrite map_seq_shift. apply map_ext. intros i. lia.
Qed.

Lemma addrs_length a n : length (addrs a n) = n.
Proof. unfold addrs. rewrite map_length, seq_length. reflexivity. Qed.

Lemma combine_app2 (A B : Type) (a1 : list A) : forall (b1 : list B) a2 b2,
  length a1 = length b1 -> combine (a1 ++ a2) (b1 ++ b2) = combine a1 b1 ++ combine a2 b2.
Proof.
  induction a1 as [|x t IH]; intros [|y u] a2 b2 H; cbn in *; try discriminate; [reflexivity|].
  f_equal. apply IH. lia.
Qed.

Lemma placed_app a x y : placed a (x ++ y) = placed a x ++ placed (a + len x) y.
Proof.
  unfold placed, len. rewrite app_length, addrs_app.
  rewrite combine_app2 by apply addrs_length. reflexivity.
Qed.

Lemma placed_nil a : placed a [] = [].
Proof. reflexivity. Qed.

Lemma do_calls_app c d cl1 : forall m rest cl2,
  do_calls c d m rest (cl1 ++ cl2) =
  match do_calls c d m rest cl1 with
  | RBad t => RBad t
  | ROk m' rest' => do_calls c d m' rest' cl2
  end.
Proof.
  induction cl1 as [|x t IH]; intros m rest cl2; cbn [app do_calls]; [reflexivity|].
  destruct (do_call c d m rest x); [reflexivity|apply IH].
Qed.

Lemma firstn_firstn_len (A : Type) n (v : list A) : firstn (length (firstn n v)) v = firstn n v.
Proof.
  rewrite firstn_length. destruct (Nat.le_ge_cases n (length v)).
  - rewrite Nat.min_l by assumption. reflexivity.
  - rewrite Nat.min_r by assumption. rewrite !firstn_all2; auto.
Qed.

Lemma skipn_firstn_len (A : Type) n (v : list A) : skipn (length (firstn n v)) v = skipn n v.
Proof.
  rewrite firstn_length. destruct (Nat.le_ge_cases n (length v)).
  - rewrite Nat.min_l by assumption. reflexivity.
  - rewrite Nat.min_r by assumption. rewrite !skipn_all2; auto.
Qed.

Lemma other_other i : (i < 2)%nat -> other (other i) = i.
Proof. intros H. destruct i as [|[|]]; cbn; try reflexivity; lia. Qed.

Lemma other_lt i : (other i < 2)%nat.
Proof. unfold other. apply Nat.mod_upper_bound. lia. Qed.

Lemma other_neq i : (i < 2)%nat -> other i <> i.
Proof. intros H. destruct i as [|[|]]; cbn; lia. Qed.

Lemma no_flashing_getb k i : no_flashing k = true -> is_flashing (getb k i) = false.
Proof.
  unfold no_flashing. intros H. apply andb_true_iff in H. destruct H as [A B].
  apply negb_true_iff in A, B. destruct i; assumption.
Qed.

(* ------------------------------------------------------------------ buffer selection *)
Lemma getb_setb_cur k i b : getb (setb k i b) i = b.
Proof. destruct i; reflexivity. Qed.

Lemma getb_setb_oth k i b : (i < 2)%nat -> getb (setb k i b) (other i) = getb k (other i).
Proof. intros H. destruct i as [|[|]]; cbn; try reflexivity; lia. Qed.

Lemma getb_setb_oth' k i b : (i < 2)%nat -> getb (setb k (other i) b) i = getb k i.
Proof. intros H. destruct i as [|[|]]; cbn; try reflexivity; lia. Qed.

(* the fields sim looks at *)
Definition kview (k : ctl) := (nextb k, usedb k, flashm k, buf0 k, buf1 k, consec k, start_a k).

Lemma simf_frame fl qp k k' m : kview k' = kview k -> simf fl qp k m -> simf fl qp k' m.
Proof.
  intros Hv H. destruct k, k'. unfold kview in Hv. cbn in Hv. inversion Hv; subst; clear Hv. exact H.
Qed.

Lemma nflash_zero cur oth : is_flashing cur = false -> is_flashing oth = false -> nflash cur oth = 0.
Proof. intros A B. unfold nflash. rewrite A, B. reflexivity. Qed.

Lemma donev_nil cur oth : is_flashing cur = false -> is_flashing oth = false -> donev cur oth = [].
Proof. intros A B. unfold donev. rewrite A, B. reflexivity. Qed.

(* the session ends, buffers and indices unchanged *)
Lemma simv_end fl qp nb ub fm cur oth co sa co' sa' m :
  simv fl qp nb ub fm cur oth co sa m -> simv fl qp nb ub false cur oth co' sa' (end_session m).
Proof.
  intros [S1 S2 S3 S4 S5 S6]. constructor; try assumption; try reflexivity; try discriminate.
  destruct S5 as [U1 U2]. split; [|discriminate].
  destruct (is_flashing oth); [assumption|]. destruct (is_flashing cur); [assumption|discriminate].
Qed.

(* no buffer is being flashed before and after, the session ends *)
Lemma simv_reset fl qp nb ub fm cur oth co sa nb' ub' cur' oth' co' sa' m :
  is_flashing cur = false -> is_flashing oth = false ->
  is_flashing cur' = false -> is_flashing oth' = false -> (nb' < 2)%nat ->
  simv fl qp nb ub fm cur oth co sa m -> simv fl qp nb' ub' false cur' oth' co' sa' (end_session m).
Proof.
  intros A B A' B' Hn [S1 S2 S3 S4 S5 S6].
  rewrite (donev_nil _ _ A B) in S4. rewrite (nflash_zero _ _ A B) in S6.
  constructor; try assumption; try reflexivity; try discriminate.
  - cbn [done end_session]. rewrite S4, (donev_nil _ _ A' B'). reflexivity.
  - unfold used_rel. rewrite A', B'. split; discriminate.
  - rewrite (nflash_zero _ _ A' B'). assumption.
Qed.

(* ------------------------------------------------------------------ flash_buffer::write_data *)
Lemma len_firstn_min n (v : list N) : len (firstn n v) = N.of_nat (Nat.min n (length v)).
Proof. unfold len. rewrite firstn_length. reflexivity. Qed.

Lemma write_data_sim c o hm fl qp nb ub cur oth co sa m v b' m2 n cl :
  wf_cfg c -> binv c cur -> bst cur = Filling -> v <> [] ->
  simv fl qp nb ub true cur oth co sa m ->
  write_data c o hm cur v = Some (b', m2, n, cl) ->
  exists m1, do_calls c true m v cl = ROk m1 (skipn n v) /\
    simv (fl + count_sf cl) qp nb ub true b' oth co (amod c (sa + N.of_nat n)) m1 /\
    (bst b' = Filling -> skipn n v = []).
Proof.
  intros [Hp Hlt] Hb Hst Hv [S1 S2 S3 S4 S5 S6] H.
  destruct (Hb Hst) as (Hptr & Hlen & Hin).
  destruct (S3 eq_refl) as (C1 & C2 & C3 & C4). rewrite Hst in C4. destruct C4 as [C4 C5].
  unfold write_data in H. rewrite Hst in H.
  assert (bptr cur =? page c = false) as E by lia. rewrite E in H. clear E.
  set (n0 := Nat.min (N.to_nat (page c - bptr cur)) (length v)) in *.
  assert (Hn0 : (1 <= n0 <= length v)%nat).
  { destruct v; [contradiction|]. unfold n0. cbn [length]. lia. }
  assert (Hn1 : bptr cur + N.of_nat n0 <= page c) by (unfold n0; lia).
  set (chunk := firstn n0 v) in *.
  assert (Hlc : length chunk = n0) by (unfold chunk; rewrite firstn_length; lia).
  set (r := o_crc_upd o chunk (bcrc cur) mod two32) in *.
  assert (Hlenb : len (bdata cur) = bptr cur) by (unfold len; rewrite Hlen; lia).
  assert (Hsa : amod c (sa + N.of_nat n0) = sa + N.of_nat n0).
  { apply amod_small. destruct Hin. lia. }
  assert (Hfc : is_flashing cur = false) by (unfold is_flashing; rewrite Hst; reflexivity).
  assert (Hec : bempty cur = false) by (unfold bempty; rewrite Hst; reflexivity).
  (* the monitor's reaction to the CCk call *)
  assert (Hck : do_call c true m v (CCk chunk (bcrc cur) r) =
                ROk (mkm (Some (sa + N.of_nat n0)) (placed (baddr cur) (bdata cur ++ chunk)) r (kpage m) (done m)) (skipn n0 v)).
  { cbn [do_call]. rewrite S2. cbn [negb].
    unfold chunk at 1 2. rewrite firstn_firstn_len, eqb_list_refl. cbn [negb].
    rewrite C1, N.eqb_refl. cbn [negb].
    unfold chunk at 3. rewrite skipn_firstn_len.
    rewrite placed_app, Hlenb, C4, <- C5. unfold len. rewrite Hlc. reflexivity. }
  cbn [bptr] in H.
  destruct (bptr cur + N.of_nat n0 =? page c) eqn:E2.
  - (* the page is complete: flush *)
    unfold flush in H. cbn [bst bptr baddr bdata bcrc bcons] in H.
    assert (bptr cur + N.of_nat n0 =? 0 = false) as E0 by lia. rewrite E0 in H. clear E0.
    assert (page c =? bptr cur + N.of_nat n0 = true) as E3 by lia. rewrite E3 in H. clear E3.
    cbn [app] in H. inversion H; subst b' m2 n cl; clear H.
    rewrite app_nil_r.
    eexists. split.
    + cbn [do_calls]. rewrite Hck. cbn [do_call wp].
      assert (len (bdata cur ++ chunk) =? page c = true) as ->.
      { rewrite len_app, Hlenb. unfold len. rewrite Hlc. lia. }
      cbn [expd]. rewrite eqb_plist_refl. cbn [andb]. reflexivity.
    + split; [|cbn; discriminate].
      assert (Hcs : count_sf [CCk chunk (bcrc cur) r; CSf (baddr cur) (bdata cur ++ chunk)] = 1) by reflexivity.
      rewrite Hcs, Hsa.
      constructor; cbn [wp expd chain kpage done].
      * assumption.
      * reflexivity.
      * intros _. unfold cur_rel. cbn. auto.
      * rewrite S4. unfold donev. rewrite Hfc. cbn [is_flashing bst bcrc bcons].
        rewrite app_nil_r. rewrite C2. reflexivity.
      * destruct S5 as [U1 U2]. unfold used_rel in *. rewrite Hfc, Hec in U1.
        cbn [is_flashing bst bempty]. split; [|discriminate].
        destruct (is_flashing oth); [assumption|]. apply U1. reflexivity.
      * unfold nflash in *. rewrite Hfc in S6. cbn [is_flashing bst]. lia.
  - (* the value fits into the page *)
    inversion H; subst b' m2 n cl; clear H.
    assert (Hall : n0 = length v) by (unfold n0 in *; lia).
    eexists. split.
    + cbn [do_calls]. rewrite Hck. reflexivity.
    + split; [|intros _; rewrite Hall; apply skipn_all].
      assert (Hcs : count_sf [CCk chunk (bcrc cur) r] = 0) by reflexivity.
      rewrite Hcs, N.add_0_r, Hsa.
      constructor; cbn [wp expd chain kpage done].
      * assumption.
      * reflexivity.
      * intros _. unfold cur_rel. cbn. repeat split; try assumption. lia.
      * rewrite S4. unfold donev. rewrite Hfc. reflexivity.
      * destruct S5 as [U1 U2]. unfold used_rel in *. rewrite Hfc, Hec in U1.
        cbn [is_flashing bst bempty]. split; [assumption|discriminate].
      * unfold nflash in *. rewrite Hfc in S6. cbn [is_flashing bst]. assumption.
Qed.

(* ------------------------------------------------------------------ find_next_buffer *)
Lemma find_next_sim c o k h fl qp m rest rc k2 cl2 :
  wf_cfg c -> flashm k = true -> bst (getb k (nextb k)) <> Filling ->
  simf fl qp k m ->
  find_next c o k h (start_a k) = Some (rc, k2, cl2) ->
  exists m2, do_calls c true m rest cl2 = ROk m2 rest /\ simf fl qp k2 m2 /\ count_sf cl2 = 0 /\
             flashm k2 = true.
Proof.
  intros [Hp Hlt] Hfm Hnf Hs H. unfold find_next in H.
  destruct (page_acceptable c (start_a k)); cbn [negb] in H.
  2:{ inversion H; subst. exists m. split; [reflexivity|]. split; [assumption|]. split; [reflexivity|assumption]. }
  set (nb := nextb k) in *. set (nx := ((nb + 1) mod 2)%nat) in *. change nx with (other nb) in *.
  destruct (bempty (getb k (other nb))) eqn:Ee; cbn [negb] in H.
  2:{ inversion H; subst. exists m. split; [reflexivity|]. split; [assumption|]. split; [reflexivity|assumption]. }
  unfold set_start in H.
  assert (Hidle : bst (getb k (other nb)) = Idle).
  { unfold bempty in Ee. destruct (bst (getb k (other nb))); congruence. }
  rewrite Hidle in H. inversion H; subst rc k2 cl2; clear H.
  unfold simf in Hs. fold nb in Hs. rewrite Hfm in Hs.
  destruct Hs as [S1 S2 S3 S4 S5 S6].
  destruct (S3 eq_refl) as (C1 & C2 & C3 & C4).
  set (cur := getb k nb) in *. set (oth := getb k (other nb)) in *.
  assert (Hexp : expd m = []).
  { destruct (bst cur); try assumption. contradiction. }
  assert (Hfo : is_flashing oth = false) by (unfold is_flashing; rewrite Hidle; reflexivity).
  set (sa := start_a k) in *. set (p := sa mod page c).
  assert (Hpsa : p <= sa) by (apply N.mod_le; lia).
  eexists. split.
  { cbn [do_calls do_call]. rewrite S2. reflexivity. }
  split; [|split; [reflexivity|]].
  2:{ ksimpl. destruct (other nb); assumption. }
  unfold simf.
  assert (E1 : nextb (set_nextb (setb (set_consec k ((consec k + 1) mod 65536)) (other nb)
                 (mkb Filling (sa - p) p (bcrc cur) (read_range c o (hmemory h) (sa - p) (N.to_nat p))
                      ((consec k + 1) mod 65536))) (other nb)) = other nb) by reflexivity.
  rewrite E1.
  match goal with |- simv _ _ _ ?u ?f ?cu ?ot ?co ?st _ =>
    replace u with (usedb k) by (destruct (other nb); reflexivity);
    replace f with true by (destruct (other nb); ksimpl; congruence);
    replace co with ((consec k + 1) mod 65536) by (destruct (other nb); reflexivity);
    replace st with sa by (destruct (other nb); reflexivity);
    replace cu with (mkb Filling (sa - p) p (bcrc cur) (read_range c o (hmemory h) (sa - p) (N.to_nat p))
                      ((consec k + 1) mod 65536))
      by (destruct (other nb); reflexivity);
    replace ot with cur
      by (unfold cur; rewrite (other_other nb S1); destruct nb as [|[|]]; try reflexivity; lia)
  end.
  constructor; cbn [wp expd chain kpage done].
  - apply other_lt.
  - reflexivity.
  - intros _. unfold cur_rel. cbn [bst bcrc bcons baddr bdata bptr chain kpage expd].
    rewrite Hexp, C2, <- C3. cbn [app]. repeat split; try assumption; try reflexivity. lia.
  - rewrite S4. unfold donev. rewrite Hfo. cbn [is_flashing bst app]. rewrite app_nil_r. reflexivity.
  - destruct S5 as [U1 U2]. unfold used_rel in *. rewrite Hfo in U1. cbn [is_flashing bst bempty].
    rewrite (other_other nb S1). split; [|discriminate].
    destruct (is_flashing cur) eqn:Efc; [assumption|]. intros _.
    assert (bempty cur = true) as Hbe.
    { unfold bempty. unfold is_flashing in Efc. destruct (bst cur); try reflexivity; try discriminate. contradiction. }
    rewrite Hbe in U1. apply U1. reflexivity.
  - unfold nflash in *. rewrite Hfo in S6. cbn [is_flashing bst]. lia.
Qed.

(* ------------------------------------------------------------------ the write loop *)
Lemma count_sf_app a b : count_sf (a ++ b) = count_sf a + count_sf b.
Proof. unfold count_sf. rewrite filter_app, app_length. lia. Qed.

Lemma opcode_not_read c k : cinv c k -> flashm k = true -> opcode k <> 8.
Proof. intros (_ & _ & Hr & _) Hf E. destruct (Hr E) as (Hf' & _). congruence. Qed.

(* the controller after flash_buffer::write_data on the current buffer *)
Lemma simf_after_write fl qp k b sa' m :
  (nextb k < 2)%nat ->
  simv fl qp (nextb k) (usedb k) (flashm k) b (getb k (other (nextb k))) (consec k) sa' m ->
  simf fl qp (set_start_a (setb k (nextb k) b) sa') m.
Proof.
  intros Hn H. unfold simf.
  pose proof (setb_fields k (nextb k) b) as (F1 & F2 & F3 & F4 & F5 & F6 & F7 & _).
  assert (E1 : nextb (set_start_a (setb k (nextb k) b) sa') = nextb k) by (ksimpl; assumption).
  assert (E2 : usedb (set_start_a (setb k (nextb k) b) sa') = usedb k) by (ksimpl; assumption).
  assert (E3 : flashm (set_start_a (setb k (nextb k) b) sa') = flashm k) by (ksimpl; assumption).
  assert (E4 : consec (set_start_a (setb k (nextb k) b) sa') = consec k) by (ksimpl; assumption).
  assert (E5 : start_a (set_start_a (setb k (nextb k) b) sa') = sa') by reflexivity.
  assert (E6 : forall i, getb (set_start_a (setb k (nextb k) b) sa') i = getb (setb k (nextb k) b) i)
    by (intros i; destruct i; reflexivity).
  rewrite E1, E2, E3, E4, E5, !E6, getb_setb_cur, getb_setb_oth by assumption. exact H.
Qed.

Lemma wloop_sim c o : wf_cfg c ->
  forall fuel k h fl qp m v rc k' h' cl,
    cinv c k -> flashm k = true -> bst (getb k (nextb k)) = Filling -> (length v < fuel)%nat ->
    simf fl qp k m ->
    wloop fuel c o k h v = Some (rc, k', h', cl) ->
    exists m' rest, do_calls c true m v cl = ROk m' rest /\ simf (fl + count_sf cl) qp k' m' /\
                    (rc = 0 -> rest = []) /\ flashm k' = true.
Proof.
  intros Hwf. induction fuel as [|f IH]; intros k h fl qp m v rc k' h' cl Hk Hfm Hfill Hfuel Hs H; [lia|].
  destruct v as [|x t].
  { cbn [wloop] in H. inversion H; subst. exists m, []. cbn [do_calls].
    split; [reflexivity|]. split; [|split; [reflexivity|assumption]].
    replace (fl + count_sf []) with fl by (cbn; lia). assumption. }
  cbn [wloop] in H.
  destruct (write_data c o (hmemory h) (getb k (nextb k)) (x :: t)) as [[[[b m2] n] cl1]|] eqn:Ew; [|discriminate].
  pose proof (binv_getb c k (nextb k) Hk) as Hb.
  assert (Hne : x :: t <> []) by discriminate.
  pose proof Hs as Hs0. unfold simf in Hs0. rewrite Hfm in Hs0.
  pose proof (sim_nb _ _ _ _ _ _ _ _ _ _ Hs0) as Hnb.
  destruct (write_data_sim _ _ _ _ _ _ _ _ _ _ _ _ _ _ _ _ _ Hwf Hb Hfill Hne Hs0 Ew) as (m1 & Hd1 & Hs1 & Hfill1).
  destruct (write_data_spec _ _ _ _ _ _ _ _ _ Hwf Hb Hne Ew) as (Hb' & _ & Hn & _ & _).
  set (k1 := set_start_a (setb k (nextb k) b) (amod c (start_a k + N.of_nat n))) in *.
  assert (Hsim1 : simf (fl + count_sf cl1) qp k1 m1).
  { unfold k1. apply simf_after_write; [assumption|]. rewrite Hfm. assumption. }
  pose proof (setb_fields k (nextb k) b) as (F1 & F2 & F3 & F4 & F5 & _).
  assert (Hfm1 : flashm k1 = true) by (unfold k1; ksimpl; congruence).
  assert (Hk1 : cinv c k1).
  { pose proof (cinv_setb c k (nextb k) b Hk Hb') as (C0 & C1 & C2 & C3).
    apply cinv_intro; unfold k1; ksimpl; try assumption.
    - rewrite F1. eapply opcode_not_read; eassumption.
    - apply amod_lt. }
  destruct (skipn n (x :: t)) as [|y v'] eqn:Esk.
  { inversion H; subst. exists m1, []. split; [assumption|]. split; [assumption|]. split; [reflexivity|assumption]. }
  assert (Hsklen : (length (y :: v') < length (x :: t))%nat).
  { rewrite <- Esk. apply skipn_length_lt; [lia|discriminate]. }
  destruct (find_next c o k1 (set_hmem h m2) (start_a k1)) as [[[rc2 k2] cl2]|] eqn:Efn; [|discriminate].
  assert (Hnf1 : bst (getb k1 (nextb k1)) <> Filling).
  { unfold k1. ksimpl. rewrite F5.
    replace (getb (set_start_a (setb k (nextb k) b) (amod c (start_a k + N.of_nat n))) (nextb k)) with b.
    - intros E. apply Hfill1 in E. discriminate.
    - destruct (nextb k); reflexivity. }
  destruct (find_next_sim c o k1 (set_hmem h m2) _ _ m1 (y :: v') rc2 k2 cl2 Hwf Hfm1 Hnf1 Hsim1 Efn)
    as (m2' & Hd2 & Hsim2 & Hcs2 & Hfm2).
  destruct (find_next_spec c o k1 (set_hmem h m2) (start_a k1) Hwf Hk1 ltac:(apply Hk1))
    as (rc2' & k2' & cl2' & Efn' & Hk2 & _ & _ & _ & Hrc0 & _).
  rewrite Efn in Efn'. inversion Efn'; subst rc2' k2' cl2'; clear Efn'.
  destruct (rc2 =? 0) eqn:Erc.
  - apply N.eqb_eq in Erc.
    destruct (wloop f c o k2 (set_hmem h m2) (y :: v')) as [[[[rc3 k3] h3] cl3]|] eqn:Ew3; [|discriminate].
    inversion H; subst rc k' h' cl; clear H.
    destruct (IH k2 (set_hmem h m2) (fl + count_sf cl1) qp m2' (y :: v') rc3 k3 h3 cl3 Hk2 Hfm2 (Hrc0 Erc)
                 ltac:(cbn [length] in *; lia) Hsim2 Ew3) as (m3 & rest3 & Hd3 & Hsim3 & Hr3 & Hfm3).
    exists m3, rest3. split.
    + rewrite do_calls_app, Hd1, do_calls_app, Hd2. assumption.
    + split; [|split; assumption].
      rewrite !count_sf_app, Hcs2. replace (fl + (count_sf cl1 + (0 + count_sf cl3))) with (fl + count_sf cl1 + count_sf cl3) by lia.
      assumption.
  - apply N.eqb_neq in Erc. inversion H; subst rc k' h' cl; clear H.
    exists m2', (y :: v'). split.
    + rewrite do_calls_app, Hd1. assumption.
    + split; [|split; [intros E; contradiction|assumption]].
      rewrite count_sf_app, Hcs2. replace (fl + (count_sf cl1 + 0)) with (fl + count_sf cl1) by lia. assumption.
Qed.

(* ------------------------------------------------------------------ bootloader_write_data *)
Definition wstatus (req : bool) (rc : N) : status :=
  if req then (if rc =? 0 then SOk else SErr rc) else SNone.

Lemma data_step_ok c m v cl m' rest rc req sa :
  wp m = Some sa -> do_calls c true m v cl = ROk m' rest -> (rc = 0 -> rest = []) ->
  data_step c m v (mkout (wstatus req rc) cl) req = (Ok, m').
Proof.
  intros Hw Hd Hr. unfold data_step. rewrite Hw. cbn [ocalls ost]. rewrite Hd.
  unfold wstatus. destruct req.
  - destruct (rc =? 0) eqn:E.
    + apply N.eqb_eq in E. rewrite (Hr E). reflexivity.
    + reflexivity.
  - reflexivity.
Qed.

Lemma bfree_size_zero c b : binv c b -> bfree_size c b =? 0 = true -> bst b <> Filling.
Proof.
  intros Hb H E. destruct (Hb E) as (Hp & _). unfold bfree_size in H. rewrite E in H. lia.
Qed.

Lemma bfree_size_nonzero c b : bfree_size c b =? 0 = false -> bst b = Filling.
Proof. unfold bfree_size. destruct (bst b); try reflexivity; discriminate. Qed.

Lemma write_data_char_sim c o k h fl qp m v rc k' h' cl req :
  wf_cfg c -> cinv c k -> simf fl qp k m ->
  write_data_char c o k h v = Some (rc, k', h', cl) ->
  exists m', data_step c m v (mkout (wstatus req rc) cl) req = (Ok, m') /\
             simf (fl + count_sf cl) qp k' m'.
Proof.
  intros Hwf Hk Hs H. unfold write_data_char in H.
  pose proof Hs as Hs0. unfold simf in Hs0.
  destruct (flashm k) eqn:Hfm; cbn [negb] in H.
  2:{ inversion H; subst. exists m. split.
      - unfold data_step. rewrite (sim_sess _ _ _ _ _ _ _ _ _ _ Hs0). cbn [ocalls ost].
        unfold wstatus. destruct req; reflexivity.
      - replace (fl + count_sf []) with fl by (cbn; lia). assumption. }
  pose proof (sim_sess _ _ _ _ _ _ _ _ _ _ Hs0) as Hwp. cbn iota in Hwp.
  destruct v as [|x t].
  { inversion H; subst. exists m. split.
    - eapply data_step_ok; [eassumption|reflexivity|reflexivity].
    - replace (fl + count_sf []) with fl by (cbn; lia). assumption. }
  destruct (bfree_size c (getb k (nextb k)) =? 0) eqn:Efree.
  - pose proof (bfree_size_zero c _ (binv_getb c k (nextb k) Hk) Efree) as Hnf.
    destruct (find_next c o k h (start_a k)) as [[[rc1 k1] cl1]|] eqn:Efn; [|discriminate].
    destruct (find_next_sim c o k h _ _ m (x :: t) rc1 k1 cl1 Hwf Hfm Hnf Hs Efn)
      as (m1 & Hd1 & Hsim1 & Hcs1 & Hfm1).
    destruct (find_next_spec c o k h (start_a k) Hwf Hk ltac:(apply Hk))
      as (rc1' & k1' & cl1' & Efn' & Hk1 & _ & _ & _ & Hrc0 & _).
    rewrite Efn in Efn'. inversion Efn'; subst rc1' k1' cl1'; clear Efn'.
    destruct (rc1 =? 0) eqn:Erc.
    + apply N.eqb_eq in Erc.
      destruct (wloop (S (length (x :: t))) c o k1 h (x :: t)) as [[[[rc3 k3] h3] cl3]|] eqn:Ew; [|discriminate].
      inversion H; subst rc k' h' cl; clear H.
      destruct (wloop_sim c o Hwf _ k1 h fl qp m1 (x :: t) rc3 k3 h3 cl3 Hk1 Hfm1 (Hrc0 Erc) (Nat.lt_succ_diag_r _) Hsim1 Ew)
        as (m3 & rest3 & Hd3 & Hsim3 & Hr3 & _).
      exists m3. split.
      * eapply data_step_ok; [eassumption| |eassumption]. rewrite do_calls_app, Hd1. assumption.
      * rewrite count_sf_app, Hcs1. replace (fl + (0 + count_sf cl3)) with (fl + count_sf cl3) by lia. assumption.
    + apply N.eqb_neq in Erc. inversion H; subst rc k' h' cl; clear H.
      exists m1. split.
      * eapply data_step_ok; [eassumption|eassumption|]. intros E; contradiction.
      * rewrite Hcs1. replace (fl + 0) with fl by lia. assumption.
  - pose proof (bfree_size_nonzero c _ Efree) as Hfill.
    destruct (wloop_sim c o Hwf _ k h fl qp m (x :: t) rc k' h' cl Hk Hfm Hfill (Nat.lt_succ_diag_r _) Hs H)
      as (m3 & rest3 & Hd3 & Hsim3 & Hr3 & _).
    exists m3. split; [|assumption]. eapply data_step_ok; eassumption.
Qed.

(* ------------------------------------------------------------------ Flush *)
Lemma flush_sim c o hm fl qp nb ub cur oth co sa m ok b' m2 cl :
  wf_cfg c -> binv c cur -> simv fl qp nb ub true cur oth co sa m ->
  flush c o hm cur = (ok, b', m2, cl) ->
  if ok then
    exists m', do_calls c false m [] cl = ROk m' [] /\ simv (fl + 1) qp nb ub true b' oth co sa m' /\
               count_sf cl = 1 /\ existsb is_sf cl = true
  else cl = [].
Proof.
  intros [Hp Hlt] Hb [S1 S2 S3 S4 S5 S6] H. unfold flush in H.
  destruct (bst cur) eqn:Hst; try (inversion H; subst; reflexivity).
  destruct (bptr cur =? 0) eqn:E0; [inversion H; subst; reflexivity|].
  inversion H; subst ok b' m2 cl; clear H.
  destruct (Hb Hst) as (Hptr & Hlen & Hin).
  destruct (S3 eq_refl) as (C1 & C2 & C3 & C4). rewrite Hst in C4. destruct C4 as [C4 C5].
  assert (Hlenb : len (bdata cur) = bptr cur) by (unfold len; rewrite Hlen; lia).
  assert (Hra : amod c (baddr cur + bptr cur) = baddr cur + bptr cur).
  { apply amod_small. destruct Hin. lia. }
  assert (Hfc : is_flashing cur = false) by (unfold is_flashing; rewrite Hst; reflexivity).
  assert (Hec : bempty cur = false) by (unfold bempty; rewrite Hst; reflexivity).
  assert (page c =? bptr cur = false) as Ep by lia. rewrite Ep. rewrite Hra.
  set (rest := read_range c o hm (baddr cur + bptr cur) (N.to_nat (page c - bptr cur))).
  eexists. split.
  { cbn [app do_calls do_call]. rewrite S2. cbn [wp expd].
    assert (len (bdata cur ++ rest) =? page c = true) as ->.
    { rewrite len_app, Hlenb. unfold rest. rewrite len_read_range. lia. }
    rewrite C4, (placed_app (baddr cur) (bdata cur) rest), Hlenb, eqb_plist_refl. cbn [andb chain kpage]. reflexivity. }
  split; [|split; reflexivity].
  constructor; cbn [wp expd chain kpage done].
  - assumption.
  - reflexivity.
  - intros _. unfold cur_rel. cbn. auto.
  - rewrite S4. unfold donev. rewrite Hfc. cbn [is_flashing bst bcrc bcons].
    rewrite app_nil_r, C1, C2. reflexivity.
  - destruct S5 as [U1 U2]. unfold used_rel in *. rewrite Hfc, Hec in U1.
    cbn [is_flashing bst bempty]. split; [|discriminate].
    destruct (is_flashing oth); [assumption|]. apply U1. reflexivity.
  - unfold nflash in *. rewrite Hfc in S6. cbn [is_flashing bst]. lia.
Qed.

(* ------------------------------------------------------------------ frame lemmas on the controller *)
Lemma getb_eq k k' i : buf0 k' = buf0 k -> buf1 k' = buf1 k -> getb k' i = getb k i.
Proof. intros A B. destruct i; cbn [getb]; assumption. Qed.

Lemma simf_end fl qp k k' m :
  nextb k' = nextb k -> usedb k' = usedb k -> buf0 k' = buf0 k -> buf1 k' = buf1 k -> flashm k' = false ->
  simf fl qp k m -> simf fl qp k' (end_session m).
Proof.
  intros E1 E2 E3 E4 E5 H. unfold simf in *. rewrite E1, E2, E5, !(getb_eq k k') by assumption.
  eapply simv_end. eassumption.
Qed.

Lemma simf_reset fl qp k k' m :
  no_flashing k = true -> no_flashing k' = true -> (nextb k' < 2)%nat -> flashm k' = false ->
  simf fl qp k m -> simf fl qp k' (end_session m).
Proof.
  intros N1 N2 Hn E5 H. unfold simf in *. rewrite E5.
  eapply simv_reset; try eassumption; apply no_flashing_getb; assumption.
Qed.

Lemma fl_plus_0 fl : fl + count_sf [] = fl.
Proof. cbn. lia. Qed.

(* ------------------------------------------------------------------ bootloader_write_control_point *)
Lemma cp_step_end c m op0 t r req :
  op0 mod 256 <> 3 -> op0 mod 256 <> 5 -> op0 mod 256 <= 8 ->
  cp_step c m (op0 :: t) r req = (Ok, end_session m).
Proof.
  intros H3 H5 H8. unfold cp_step. cbv zeta.
  assert (op0 mod 256 =? 3 = false) as -> by lia.
  assert (op0 mod 256 =? 5 = false) as -> by lia.
  assert (op0 mod 256 <=? 8 = true) as -> by lia. reflexivity.
Qed.

Lemma cp_step_other c m op0 t r req : 8 < op0 mod 256 -> cp_step c m (op0 :: t) r req = (Ok, m).
Proof.
  intros H8. unfold cp_step. cbv zeta.
  assert (op0 mod 256 =? 3 = false) as -> by lia.
  assert (op0 mod 256 =? 5 = false) as -> by lia.
  assert (op0 mod 256 <=? 8 = false) as -> by lia. reflexivity.
Qed.

Lemma cp_step_3_rejected c m op0 t code cl req :
  op0 mod 256 = 3 -> code <> 0 -> existsb is_rm cl = false ->
  cp_step c m (op0 :: t) (mkout (wstatus req code) cl) req = (Ok, end_session m).
Proof.
  intros H3 Hc Hrm. unfold cp_step. cbv zeta. rewrite H3. cbn [N.eqb Pos.eqb ost ocalls].
  unfold wstatus. destruct req.
  - assert (code =? 0 = false) as -> by lia. reflexivity.
  - rewrite Hrm. reflexivity.
Qed.

Lemma cp_step_5_rejected c m op0 t code req :
  op0 mod 256 = 5 -> code <> 0 ->
  cp_step c m (op0 :: t) (mkout (wstatus req code) []) req = (Ok, end_session m).
Proof.
  intros H5 Hc. unfold cp_step. cbv zeta. rewrite H5. cbn [N.eqb Pos.eqb ost ocalls].
  unfold wstatus. destruct req.
  - assert (code =? 0 = false) as -> by lia. reflexivity.
  - reflexivity.
Qed.

Lemma wstatus_accepted req cl (f : call -> bool) :
  existsb f cl = true ->
  match wstatus req 0 with SOk => true | SNone => existsb f cl | _ => false end = true.
Proof. intros H. unfold wstatus. destruct req; cbn; [reflexivity|assumption]. Qed.

Lemma no_flashing_free_all k : no_flashing (free_all k) = true.
Proof. reflexivity. Qed.

Lemma write_cp_sim c o k h fl qp m v code ntf k' h' cl req :
  wf_cfg c -> cinv c k -> simf fl qp k m -> (frees_all v = true -> no_flashing k = true) ->
  write_cp c o k h v = Some (code, ntf, k', h', cl) ->
  exists m', cp_step c m v (mkout (wstatus req code) cl) req = (Ok, m') /\
             simf (fl + count_sf cl) qp k' m'.
Proof.
  intros Hwf Hk Hsim Henv H. pose proof Hk as (H0 & H1 & H2 & H3).
  unfold write_cp in H. destruct v as [|op0 t].
  { inversion H; subst. exists m. split; [reflexivity|]. rewrite fl_plus_0. assumption. }
  set (op := op0 mod 256) in *. set (v := op0 :: t) in *.
  assert (Hfr : frees_all v = ((op =? 0) || (op =? 2) || (op =? 4) || (op =? 3))) by reflexivity.
  (* the branches that end the session and leave buffers and indices alone *)
  assert (Hend : forall kk cll codee ntff hh,
            op <> 3 -> op <> 5 -> op <= 8 -> count_sf cll = 0 ->
            nextb kk = nextb k -> usedb kk = usedb k -> buf0 kk = buf0 k -> buf1 kk = buf1 k -> flashm kk = false ->
            Some (codee, ntff, kk, hh, cll) = Some (code, ntf, k', h', cl) ->
            exists m', cp_step c m v (mkout (wstatus req code) cl) req = (Ok, m') /\
                       simf (fl + count_sf cl) qp k' m').
  { intros kk cll codee ntff hh N3 N5 N8 Hcs E1 E2 E3 E4 E5 Heq. inversion Heq; subst.
    exists (end_session m). split; [apply cp_step_end; assumption|].
    rewrite Hcs, N.add_0_r. eapply simf_end; eassumption. }
  destruct ((op =? 0) || (op =? 2) || (op =? 4)) eqn:E024.
  { assert (Hop : op <> 3 /\ op <> 5 /\ op <= 8) by lia. destruct Hop as (N3 & N5 & N8).
    destruct (length v =? 1)%nat; cbn [negb] in H.
    - inversion H; subst code ntf k' h' cl; clear H.
      exists (end_session m). split; [apply cp_step_end; assumption|].
      rewrite fl_plus_0. eapply simf_reset; try eassumption; try reflexivity.
      + apply Henv. rewrite Hfr. reflexivity.
      + ksimpl. lia.
    - eapply Hend; try eassumption; reflexivity. }
  destruct (op =? 1) eqn:E1.
  { assert (Hop : op <> 3 /\ op <> 5 /\ op <= 8) by lia. destruct Hop as (N3 & N5 & N8).
    destruct (length v =? 1 + 2 * asz c)%nat; cbn [negb] in H; [|eapply Hend; try eassumption; reflexivity].
    destruct (read_address c v 1) as [s|]; [|discriminate].
    destruct (read_address c v (1 + asz c)) as [e|]; [|discriminate].
    destruct ((e <? s) || negb (acceptable (regions c) s e)); eapply Hend; try eassumption; reflexivity. }
  destruct (op =? 3) eqn:E3.
  { assert (Hop3 : op = 3) by lia.
    assert (Hnf : no_flashing k = true) by (apply Henv; rewrite Hfr; reflexivity).
    destruct (length v =? 1 + asz c)%nat; cbn [negb] in H.
    2:{ inversion H; subst code ntf k' h' cl; clear H.
        exists (end_session m). split; [apply cp_step_3_rejected; [assumption|discriminate|reflexivity]|].
        rewrite fl_plus_0. eapply simf_end; try eassumption; reflexivity. }
    destruct (read_address c v 1) as [s|] eqn:Hs; [|discriminate].
    set (r := o_crc_addr o s mod two32) in *.
    destruct (page_acceptable c s) eqn:Eacc; cbn [negb] in H.
    2:{ inversion H; subst code ntf k' h' cl; clear H.
        exists (end_session m). split; [apply cp_step_3_rejected; [assumption|discriminate|reflexivity]|].
        replace (fl + count_sf [CCs s r]) with fl by (cbn; lia).
        eapply simf_reset; try eassumption; try reflexivity. ksimpl. lia. }
    ksimpl. unfold set_start in H. cbn [bst bfree] in H.
    inversion H; subst code ntf k' h' cl; clear H.
    set (p := s mod page c) in *.
    assert (Hps : p <= s) by (apply N.mod_le; destruct Hwf; lia).
    eexists. split.
    { unfold cp_step, v. cbv zeta. fold op. rewrite E3. cbn [ost ocalls].
      rewrite (wstatus_accepted req _ is_rm) by reflexivity.
      fold v. rewrite Hs. rewrite N.eqb_refl. cbn [do_calls do_call wp]. reflexivity. }
    replace (fl + count_sf [CCs s r; CRm (s - p) (read_range c o (hmemory h) (s - p) (N.to_nat p))]) with fl by (cbn; lia).
    unfold simf in *. ksimpl. cbn [other Nat.add Nat.modulo Nat.divmod fst snd Nat.sub].
    destruct Hsim as [S1 S2 S3 S4 S5 S6].
    pose proof (no_flashing_getb k (nextb k) Hnf) as Hfc.
    pose proof (no_flashing_getb k (other (nextb k)) Hnf) as Hfo.
    rewrite (donev_nil _ _ Hfc Hfo) in S4. rewrite (nflash_zero _ _ Hfc Hfo) in S6.
    constructor; cbn [wp expd chain kpage done].
    - lia.
    - reflexivity.
    - intros _. unfold cur_rel. cbn [bst bcrc bcons baddr bdata bptr app].
      repeat split; try reflexivity. lia.
    - rewrite S4. reflexivity.
    - unfold used_rel. cbn. split; [reflexivity|discriminate].
    - cbn. assumption. }
  destruct (op =? 5) eqn:E5.
  { assert (Hop5 : op = 5) by lia. ksimpl.
    destruct (flashm k) eqn:Hfm; cbn [negb] in H.
    2:{ inversion H; subst code ntf k' h' cl; clear H.
        exists (end_session m). split; [apply cp_step_5_rejected; [assumption|discriminate]|].
        rewrite fl_plus_0. eapply simf_end; try eassumption; reflexivity. }
    replace (getb (set_opcode k op) (nextb k)) with (getb k (nextb k)) in H by (destruct (nextb k); reflexivity).
    destruct (flush c o (hmemory h) (getb k (nextb k))) as [[[ok b] m2] cl2] eqn:Ef.
    pose proof Hsim as Hs0. unfold simf in Hs0. rewrite Hfm in Hs0.
    pose proof (flush_sim _ _ _ _ _ _ _ _ _ _ _ _ _ _ _ _ Hwf (binv_getb c k (nextb k) Hk) Hs0 Ef) as Hfl.
    destruct ok.
    - inversion H; subst code ntf k' h' cl; clear H.
      destruct Hfl as (m' & Hd & Hsv & Hcs & Hex).
      exists m'. split.
      + unfold cp_step, v. cbv zeta. fold op. rewrite E3, E5. cbn [ost ocalls].
        rewrite (wstatus_accepted req _ is_sf) by assumption. rewrite Hd. reflexivity.
      + rewrite Hcs. unfold simf.
        pose proof (setb_fields (set_opcode k op) (nextb k) b) as (F1 & F2 & F3 & F4 & F5 & F6 & F7 & _).
        ksimpl. rewrite F5, F6, F4, F7, F2, getb_setb_cur.
        rewrite getb_setb_oth by (apply (sim_nb _ _ _ _ _ _ _ _ _ _ Hs0)).
        replace (getb (set_opcode k op) (other (nextb k))) with (getb k (other (nextb k)))
          by (destruct (other (nextb k)); reflexivity).
        rewrite Hfm. assumption.
    - subst cl2. inversion H; subst code ntf k' h' cl; clear H.
      exists (end_session m). split; [apply cp_step_5_rejected; [assumption|discriminate]|].
      rewrite fl_plus_0. eapply simf_end; try eassumption; reflexivity. }
  destruct (op =? 6) eqn:E6.
  { assert (Hop : op <> 3 /\ op <> 5 /\ op <= 8) by lia. destruct Hop as (N3 & N5 & N8).
    destruct (length v =? 1 + asz c)%nat; cbn [negb] in H; [|eapply Hend; try eassumption; reflexivity].
    destruct (read_address c v 1) as [s|]; [|discriminate].
    eapply Hend; try eassumption; reflexivity. }
  destruct (op =? 7) eqn:E7.
  { assert (Hop : op <> 3 /\ op <> 5 /\ op <= 8) by lia. destruct Hop as (N3 & N5 & N8).
    destruct (length v =? 1)%nat; cbn [negb] in H; eapply Hend; try eassumption; reflexivity. }
  destruct (op =? 8) eqn:E8.
  { assert (Hop : op <> 3 /\ op <> 5 /\ op <= 8) by lia. destruct Hop as (N3 & N5 & N8).
    destruct (length v =? 1 + 2 * asz c)%nat; cbn [negb] in H; [|eapply Hend; try eassumption; reflexivity].
    destruct (read_address c v 1) as [s|]; [|discriminate].
    destruct (read_address c v (1 + asz c)) as [e|]; [|discriminate].
    destruct ((e <? s) || negb (acceptable (regions c) s e)); [eapply Hend; try eassumption; reflexivity|].
    destruct (s =? e); cbn [negb] in H; eapply Hend; try eassumption; reflexivity. }
  (* invalid opcode: only the opcode member changes *)
  inversion H; subst code ntf k' h' cl; clear H.
  exists m. split; [apply cp_step_other; fold op; lia|].
  rewrite fl_plus_0. eapply simf_frame; [|eassumption]. reflexivity.
Qed.

(* ------------------------------------------------------------------ the handler's flash counter *)
Ltac break_in H :=
  repeat match type of H with
         | context [match ?x with _ => _ end] => let E := fresh "E" in destruct x eqn:E
         end.

Lemma find_next_hnd c o k h a rc k' cl : find_next c o k h a = Some (rc, k', cl) -> True.
Proof. trivial. Qed.

Lemma wloop_flashing c o : forall fuel k h v rc k' h' cl,
  wloop fuel c o k h v = Some (rc, k', h', cl) -> flashing h' = flashing h.
Proof.
  induction fuel as [|f IH]; intros k h v rc k' h' cl H; destruct v as [|x t]; cbn [wloop] in H;
    try discriminate; try (inversion H; subst; reflexivity).
  destruct (write_data c o (hmemory h) (getb k (nextb k)) (x :: t)) as [[[[b m] n] cl1]|]; [|discriminate].
  destruct (skipn n (x :: t)) as [|y v'].
  - inversion H; subst. reflexivity.
  - destruct (find_next c o _ _ _) as [[[rc2 k2] cl2]|]; [|discriminate].
    destruct (rc2 =? 0).
    + destruct (wloop f c o k2 (set_hmem h m) (y :: v')) as [[[[rc3 k3] h3] cl3]|] eqn:Ew; [|discriminate].
      inversion H; subst. apply IH in Ew. rewrite Ew. reflexivity.
    + inversion H; subst. reflexivity.
Qed.

Lemma write_data_char_flashing c o k h v rc k' h' cl :
  write_data_char c o k h v = Some (rc, k', h', cl) -> flashing h' = flashing h.
Proof.
  unfold write_data_char. intros H.
  destruct (negb (flashm k)); [inversion H; subst; reflexivity|].
  destruct v as [|x t]; [inversion H; subst; reflexivity|].
  destruct (bfree_size c (getb k (nextb k)) =? 0).
  - destruct (find_next c o k h (start_a k)) as [[[rc1 k1] cl1]|]; [|discriminate].
    destruct (rc1 =? 0).
    + destruct (wloop _ c o k1 h (x :: t)) as [[[[rc3 k3] h3] cl3]|] eqn:Ew; [|discriminate].
      inversion H; subst. eapply wloop_flashing; eassumption.
    + inversion H; subst. reflexivity.
  - eapply wloop_flashing; eassumption.
Qed.

Lemma write_cp_flashing c o k h v code ntf k' h' cl :
  write_cp c o k h v = Some (code, ntf, k', h', cl) -> flashing h' = flashing h.
Proof.
  unfold write_cp. intros H. break_in H; try discriminate; inversion H; subst; reflexivity.
Qed.

(* ------------------------------------------------------------------ notifications *)
Lemma simv_session fl qp nb ub fm cur oth co sa m a :
  simv fl qp nb ub fm cur oth co sa m -> wp m = Some a -> fm = true.
Proof. intros [S1 S2 S3 S4 S5 S6] H. rewrite S2 in H. destruct fm; [reflexivity|discriminate]. Qed.

Lemma read_cp_ntf c o k n fl qp m b cl :
  simf fl qp k m -> read_cp c o k n = Some (b, cl) -> cp_ntf_step m b = (Ok, m).
Proof.
  intros Hs H. unfold cp_ntf_step. destruct (wp m) as [a|] eqn:Hw; [|reflexivity].
  unfold simf in Hs. pose proof (simv_session _ _ _ _ _ _ _ _ _ _ _ Hs Hw) as Hfm.
  destruct (sim_cur _ _ _ _ _ _ _ _ _ _ Hs Hfm) as (C1 & C2 & _).
  unfold read_cp in H. destruct (n <? 20)%nat; [discriminate|].
  destruct (opcode k =? 0) eqn:E0; [inversion H; subst; reflexivity|].
  destruct (opcode k =? 1) eqn:E1.
  { inversion H; subst. assert (opcode k =? 3 = false) as -> by lia.
    assert (opcode k =? 5 = false) as -> by lia. reflexivity. }
  destruct (opcode k =? 2) eqn:E2.
  { inversion H; subst. cbn [app]. assert (opcode k =? 3 = false) as -> by lia.
    assert (opcode k =? 5 = false) as -> by lia. reflexivity. }
  destruct (opcode k =? 3) eqn:E3.
  { inversion H; subst. cbn [app skipn]. rewrite E3, C1, eqb_list_refl. reflexivity. }
  destruct (opcode k =? 4) eqn:E4.
  { inversion H; subst. assert (opcode k =? 5 = false) as -> by lia. rewrite E3. reflexivity. }
  destruct (opcode k =? 5) eqn:E5.
  { inversion H; subst. rewrite E3, E5, C1, C2, eqb_list_refl. reflexivity. }
  destruct (opcode k =? 8) eqn:E8; inversion H; subst; rewrite E3, E5; reflexivity.
Qed.

Lemma simv_no_session fl qp nb ub cur oth co sa co' sa' m :
  simv fl qp nb ub false cur oth co sa m -> simv fl qp nb ub false cur oth co' sa' m.
Proof. intros [S1 S2 S3 S4 S5 S6]. constructor; try assumption. discriminate. Qed.

Lemma read_data_sim c o k h n fl qp m b k' h' cl :
  cinv c k -> simf fl qp k m -> read_data c o k h n = (b, k', h', cl) ->
  simf fl qp k' m /\ count_sf cl = 0 /\ flashing h' = flashing h.
Proof.
  intros Hk Hs H. unfold read_data in H.
  destruct (opcode k =? 8) eqn:E8.
  2:{ inversion H; subst. split; [assumption|split; reflexivity]. }
  apply N.eqb_eq in E8. destruct Hk as (_ & _ & Hr & _). destruct (Hr E8) as (Hfm & _).
  assert (Hgen : forall kk, nextb kk = nextb k -> usedb kk = usedb k -> flashm kk = flashm k ->
                            buf0 kk = buf0 k -> buf1 kk = buf1 k -> simf fl qp kk m).
  { intros kk A1 A2 A3 A4 A5. unfold simf in *. rewrite A1, A2, A3, !(getb_eq k kk) by assumption.
    rewrite Hfm in *. eapply simv_no_session. eassumption. }
  destruct (rderr h).
  - inversion H; subst. split; [apply Hgen; reflexivity|]. split; reflexivity.
  - match type of H with (if ?x then _ else _) = _ => destruct x end;
      inversion H; subst; (split; [apply Hgen; reflexivity|]); split; reflexivity.
Qed.

Lemma le32_length x : length (le32 x) = 4%nat.
Proof. reflexivity. Qed.

Lemma progress_step_ok m crc k t z :
  done m = (crc, k) :: t ->
  progress_step m (le32 crc ++ le16 k ++ [z]) = (Ok, mkm (wp m) (expd m) (chain m) (kpage m) t).
Proof.
  intros H. unfold progress_step. rewrite H.
  assert (firstn 6 (le32 crc ++ le16 k ++ [z]) = le32 crc ++ le16 k) as -> by reflexivity.
  rewrite eqb_list_refl. reflexivity.
Qed.

Lemma simf_after_progress fl qp k i b' m :
  simv fl qp (nextb k) (other i) (flashm k) (getb (setb k i b') (nextb k))
       (getb (setb k i b') (other (nextb k))) (consec k) (start_a k) m ->
  simf fl qp (set_usedb (setb k i b') ((i + 1) mod 2)%nat) m.
Proof.
  intros H. unfold simf.
  pose proof (setb_fields k i b') as (F1 & F2 & F3 & F4 & F5 & F6 & F7 & _).
  assert (E1 : nextb (set_usedb (setb k i b') ((i + 1) mod 2)%nat) = nextb k) by (cbn [nextb set_usedb]; assumption).
  assert (E2 : usedb (set_usedb (setb k i b') ((i + 1) mod 2)%nat) = other i) by reflexivity.
  assert (E3 : flashm (set_usedb (setb k i b') ((i + 1) mod 2)%nat) = flashm k) by (cbn [flashm set_usedb]; assumption).
  assert (E4 : consec (set_usedb (setb k i b') ((i + 1) mod 2)%nat) = consec k) by (cbn [consec set_usedb]; assumption).
  assert (E5 : start_a (set_usedb (setb k i b') ((i + 1) mod 2)%nat) = start_a k) by (cbn [start_a set_usedb]; assumption).
  assert (E6 : forall j, getb (set_usedb (setb k i b') ((i + 1) mod 2)%nat) j = getb (setb k i b') j)
    by (intros j; destruct j; reflexivity).
  rewrite E1, E2, E3, E4, E5, !E6. exact H.
Qed.

Lemma progress_sim k n fl m b k' :
  simf fl true k m -> progress_data k n = Some (b, k') ->
  exists m', progress_step m b = (Ok, m') /\ simf fl false k' m'.
Proof.
  intros Hs H. unfold progress_data in H. destruct (n <? 7)%nat; [discriminate|].
  injection H as Hb Hk'. subst b k'.
  unfold simf in Hs. destruct Hs as [S1 S2 S3 S4 S5 S6]. cbn iota in S6.
  set (nb := nextb k) in *. set (cur := getb k nb) in *. set (oth := getb k (other nb)) in *.
  destruct S5 as [U1 U2].
  destruct (is_flashing oth) eqn:Efo.
  - (* the other buffer is the oldest one being flashed *)
    assert (Hdone : done m = (bcrc oth, bcons oth) :: (if is_flashing cur then [(bcrc cur, bcons cur)] else [])).
    { rewrite S4. unfold donev. rewrite Efo. reflexivity. }
    rewrite U1. fold oth. cbn [bfree bcrc bcons].
    eexists. split; [apply progress_step_ok; eassumption|].
    apply simf_after_progress. fold nb.
    rewrite (getb_setb_oth' k nb (bfree oth) S1), getb_setb_cur, (other_other nb S1). fold cur.
    assert (Hec : flashm k = true -> bempty cur = false).
    { intros Hf. destruct (bempty cur) eqn:E; [|reflexivity]. pose proof (U2 Hf eq_refl). discriminate. }
    constructor; cbn [wp expd chain kpage done].
    + assumption.
    + assumption.
    + assumption.
    + unfold donev. cbn [is_flashing bfree bst app]. reflexivity.
    + unfold used_rel. cbn [is_flashing bfree bst]. split; [|reflexivity].
      destruct (is_flashing cur); [reflexivity|]. intros Hf. rewrite (Hec Hf). reflexivity.
    + unfold nflash in *. rewrite Efo in S6. cbn [is_flashing bfree bst]. lia.
  - destruct (is_flashing cur) eqn:Efc.
    + (* the current buffer is the only one being flashed *)
      assert (Hdone : done m = [(bcrc cur, bcons cur)]).
      { rewrite S4. unfold donev. rewrite Efo, Efc. reflexivity. }
      rewrite U1. fold cur. cbn [bfree bcrc bcons].
      eexists. split; [apply progress_step_ok; eassumption|].
      apply simf_after_progress. fold nb.
      rewrite getb_setb_cur, (getb_setb_oth k nb (bfree cur) S1). fold oth.
      assert (Hstc : bst cur = Flashing).
      { unfold is_flashing in Efc. destruct (bst cur); try discriminate. reflexivity. }
      constructor; cbn [wp expd chain kpage done].
      * assumption.
      * assumption.
      * intros Hf. destruct (S3 Hf) as (C1 & C2 & C3 & C4). rewrite Hstc in C4.
        unfold cur_rel. cbn [bfree bst bcrc bcons]. auto.
      * unfold donev. rewrite Efo. reflexivity.
      * unfold used_rel. rewrite Efo. cbn [is_flashing bfree bst bempty]. split; [reflexivity|reflexivity].
      * unfold nflash in *. rewrite Efo, Efc in S6. rewrite Efo. cbn [is_flashing bfree bst]. lia.
    + exfalso. unfold nflash in S6. rewrite Efo, Efc in S6. lia.
Qed.

(* dequeue_indication_or_confirmation and the progress entry *)
Lemma dequeue_qprog q ch q' : dequeue q = (ch, q') ->
  match ch with
  | Some ChProg => qprog q = true /\ qprog q' = false
  | _ => qprog q' = qprog q
  end.
Proof.
  unfold dequeue. cbv zeta. intros H.
  assert (Hpick : forall i, qready q i = true ->
            match i with
            | O => (Some ChCp, mkq false (qdata q) (qprog q) 1 (qout q))
            | S O => (Some ChData, mkq (qcp q) false (qprog q) 2 true)
            | _ => (Some ChProg, mkq (qcp q) (qdata q) false 0 (qout q))
            end = (ch, q') ->
            match ch with
            | Some ChProg => qprog q = true /\ qprog q' = false
            | _ => qprog q' = qprog q
            end).
  { intros i Hr Hp. destruct i as [|[|i]]; inversion Hp; subst; cbn in *; auto. }
  destruct (qready q (qnext q)) eqn:R0; [eapply Hpick; eassumption|].
  destruct (qready q ((qnext q + 1) mod 3)%nat) eqn:R1; [eapply Hpick; eassumption|].
  destruct (qready q ((qnext q + 2) mod 3)%nat) eqn:R2; [eapply Hpick; eassumption|].
  inversion H; subst. reflexivity.
Qed.

(* ------------------------------------------------------------------ one step *)
Definition mstep_inner (c : cfg) (m : mon) (x : op) (r : out) : verdict * mon :=
  match x with
  | WCp v => cp_step c m v r true
  | WCpCmd v => cp_step c m v r false
  | WData v => data_step c m v r true
  | WDataCmd v => data_step c m v r false
  | EndFlash | Run | Hvc | SetErr _ =>
      match ost r with SNone => (Ok, m) | _ => (Bad t_shape, m) end
  | Out =>
      match ost r with
      | SNone => (Ok, m)
      | SNtf ChProg b => progress_step m b
      | SNtf ChCp b => cp_ntf_step m b
      | SInd ChData _ => (Ok, m)
      | _ => (Bad t_shape, m)
      end
  | Rd ch =>
      match ost r, ch with
      | SVal b, ChProg => progress_step m b
      | SVal _, _ => (Ok, m)
      | _, _ => (Bad t_shape, m)
      end
  end.

Lemma mstep_safe c m x r : out_safe c r -> mstep c m x r = mstep_inner c m x r.
Proof.
  intros [Hf Hc]. unfold mstep, mstep_inner. rewrite Hc. cbn [negb].
  destruct r as [st cl]. cbn [ost ocalls] in *. destruct st; try reflexivity. congruence.
Qed.

Lemma wstatus_true code : (if code =? 0 then SOk else SErr code) = wstatus true code.
Proof. reflexivity. Qed.

Lemma step_sim c o s m x : wf_cfg c -> inv c s -> sim s m -> env_ok s x = true ->
  exists m', mstep c m x (snd (step c o s x)) = (Ok, m') /\ sim (fst (step c o s x)) m'.
Proof.
  intros Hwf Hi Hs Henv.
  destruct (step_safe c o s x Hwf Hi) as (_ & Hsafe).
  rewrite (mstep_safe c m x _ Hsafe). clear Hsafe.
  unfold sim in *. destruct s as [k h q]. cbn [sc sh sq] in *. unfold inv in Hi. cbn [sc] in Hi.
  destruct x; cbn [step sc sh sq mstep_inner].
  - (* WCp *)
    destruct (write_cp_spec c o k h v Hwf Hi) as (code & ntf & k' & h' & cl & Hw & _).
    rewrite Hw. cbn [fst snd].
    destruct (write_cp_sim c o k h _ _ m v code ntf k' h' cl true Hwf Hi Hs
                ltac:(cbn [env_ok sc] in Henv; intros E; rewrite E in Henv; exact Henv) Hw) as (m' & Hc & Hsim).
    exists m'. split; [exact Hc|]. cbn [sc sh sq started set_flashing flashing].
    rewrite (write_cp_flashing _ _ _ _ _ _ _ _ _ _ Hw).
    destruct ntf; exact Hsim.
  - (* WCpCmd *)
    destruct (write_cp_spec c o k h v Hwf Hi) as (code & ntf & k' & h' & cl & Hw & _).
    rewrite Hw. cbn [fst snd].
    destruct (write_cp_sim c o k h _ _ m v code ntf k' h' cl false Hwf Hi Hs
                ltac:(cbn [env_ok sc] in Henv; intros E; rewrite E in Henv; exact Henv) Hw) as (m' & Hc & Hsim).
    exists m'. split; [exact Hc|]. cbn [sc sh sq started set_flashing flashing].
    rewrite (write_cp_flashing _ _ _ _ _ _ _ _ _ _ Hw).
    destruct ntf; exact Hsim.
  - (* WData *)
    destruct (write_data_char_spec c o k h v Hwf Hi) as (code & k' & h' & cl & Hw & _).
    rewrite Hw. cbn [fst snd].
    destruct (write_data_char_sim c o k h _ _ m v code k' h' cl true Hwf Hi Hs Hw) as (m' & Hc & Hsim).
    exists m'. split; [exact Hc|]. cbn [sc sh sq started set_flashing flashing].
    rewrite (write_data_char_flashing _ _ _ _ _ _ _ _ _ Hw). exact Hsim.
  - (* WDataCmd *)
    destruct (write_data_char_spec c o k h v Hwf Hi) as (code & k' & h' & cl & Hw & _).
    rewrite Hw. cbn [fst snd].
    destruct (write_data_char_sim c o k h _ _ m v code k' h' cl false Hwf Hi Hs Hw) as (m' & Hc & Hsim).
    exists m'. split; [exact Hc|]. cbn [sc sh sq started set_flashing flashing].
    rewrite (write_data_char_flashing _ _ _ _ _ _ _ _ _ Hw). exact Hsim.
  - (* EndFlash *)
    destruct (flashing h =? 0) eqn:E0; cbn [fst snd ost sc sh sq].
    + exists m. split; [reflexivity|assumption].
    + exists m. split; [reflexivity|]. cbn [flashing set_flashing qprog queue_prog].
      unfold simf in *. destruct Hs as [S1 S2 S3 S4 S5 S6]. constructor; try assumption.
      destruct (qprog q); lia.
  - (* Run *)
    cbn [fst snd ost sc sh sq]. exists m. split; [reflexivity|].
    cbn [flashing set_datareq set_cpreq].
    destruct (cpreq h), (datareq h); exact Hs.
  - (* Out *)
    destruct (dequeue q) as [[ch|] q'] eqn:Ed.
    2:{ cbn [fst snd ost sc sh sq]. exists m. split; [reflexivity|assumption]. }
    pose proof (dequeue_qprog q _ q' Ed) as Hq.
    destruct ch; cbn [read_value sc sh sq].
    + (* control point notification *)
      destruct (read_cp_spec c o k (att_mtu - 3) ltac:(cbn; lia)) as (b & cl & Hr & _).
      rewrite Hr. cbn [fst snd ost sc sh sq]. exists m. split.
      * eapply read_cp_ntf; eassumption.
      * rewrite Hq. exact Hs.
    + (* data indication *)
      destruct (read_data c o k h (att_mtu - 3)) as [[[b k'] h'] cl] eqn:Er.
      cbn [fst snd ost sc sh sq]. exists m. split; [reflexivity|].
      destruct (read_data_sim c o k h _ _ _ m b k' h' cl Hi Hs Er) as (Hsim & _ & Hfl).
      rewrite Hq, Hfl. exact Hsim.
    + (* progress notification *)
      destruct Hq as [Hq1 Hq2]. rewrite Hq1 in Hs.
      destruct (progress_data_spec c k (att_mtu - 3) ltac:(cbn; lia) Hi) as (b & k' & Hp & _).
      rewrite Hp. cbn [fst snd ost sc sh sq].
      destruct (progress_sim k _ _ m b k' Hs Hp) as (m' & Hps & Hsim).
      exists m'. split; [exact Hps|]. rewrite Hq2. exact Hsim.
  - (* Hvc *)
    cbn [fst snd ost sc sh sq]. exists m. split; [reflexivity|exact Hs].
  - (* SetErr *)
    cbn [fst snd ost sc sh sq]. exists m. split; [reflexivity|exact Hs].
  - (* Rd *)
    destruct ch; cbn [read_value sc sh sq].
    + destruct (read_cp_spec c o k (att_mtu - 1) ltac:(cbn; lia)) as (b & cl & Hr & _).
      rewrite Hr. cbn [fst snd ost sc sh sq]. exists m. split; [reflexivity|exact Hs].
    + destruct (read_data c o k h (att_mtu - 1)) as [[[b k'] h'] cl] eqn:Er.
      cbn [fst snd ost sc sh sq]. exists m. split; [reflexivity|].
      destruct (read_data_sim c o k h _ _ _ m b k' h' cl Hi Hs Er) as (Hsim & _ & Hfl).
      rewrite Hfl. exact Hsim.
    + cbn [env_ok] in Henv. discriminate.
Qed.

(* ------------------------------------------------------------------ all traces inside the environment *)
Lemma sim_init : sim init minit.
Proof.
  unfold sim, simf, init, cinit, minit. cbn.
  constructor; cbn; try reflexivity; try discriminate; try lia.
  unfold used_rel. cbn. split; discriminate.
Qed.

Lemma monitor_accepts_from c o : wf_cfg c -> forall ops s m pos,
  inv c s -> sim s m -> env_run c o s ops = true ->
  monitor_from c m pos (run c o s ops) = None.
Proof.
  intros Hwf. induction ops as [|x t IH]; intros s m pos Hi Hs He; [reflexivity|].
  cbn [env_run] in He. apply andb_true_iff in He. destruct He as [He1 He2].
  rewrite run_cons. cbn [monitor_from].
  destruct (step_sim c o s m x Hwf Hi Hs He1) as (m' & Hm & Hs').
  rewrite Hm. apply IH; try assumption.
  apply (step_safe c o s x Hwf Hi).
Qed.

Theorem monitor_accepts_in_environment c o ops :
  wf_cfg c -> env_run c o init ops = true -> monitor c (run c o init ops) = None.
Proof.
  intros Hwf He. unfold monitor. apply monitor_accepts_from; try assumption.
  - apply inv_init.
  - apply sim_init.
Qed.
