(* C39 part 2: for all operation sequences no step faults (no read beyond the written value, no
   assert) and every handler call range lies inside one white-listed region.  Invariant [inv]. *)
From BT Require Import Base.ListX Boot.BootModel Boot.BootSpec Boot.BootBase.
From Coq Require Import Lia ZifyBool.
Local Open Scope N_scope.

(* while a Read procedure is active: flash mode is off and [start_a, end_a) is white-listed *)
Definition rinv (c : cfg) (k : ctl) : Prop :=
  opcode k = 8 ->
  flashm k = false /\ start_a k <= end_a k /\ end_a k < aspace c /\
  acceptable (regions c) (start_a k) (end_a k) = true.

Definition cinv (c : cfg) (k : ctl) : Prop :=
  binv c (buf0 k) /\ binv c (buf1 k) /\ rinv c k /\ start_a k < aspace c.

Definition inv (c : cfg) (s : state) : Prop := cinv c (sc s).

Ltac ksimpl :=
  cbn [opcode start_a end_a errc csum flashm nextb usedb consec buf0 buf1
       set_opcode set_start_a set_end_a set_errc set_csum set_flashm set_nextb set_usedb set_consec
       setb getb free_all request_error] in *.

Lemma binv_getb c k i : cinv c k -> binv c (getb k i).
Proof. intros (H0 & H1 & _). destruct i; assumption. Qed.

(* a controller whose opcode is not Read *)
Lemma cinv_intro c k :
  binv c (buf0 k) -> binv c (buf1 k) -> opcode k <> 8 -> start_a k < aspace c -> cinv c k.
Proof.
  intros B0 B1 Hop Hs. unfold cinv. split; [assumption|]. split; [assumption|].
  split; [intros E; contradiction|assumption].
Qed.

Lemma cinv_setb c k i b : cinv c k -> binv c b -> cinv c (setb k i b).
Proof.
  intros (H0 & H1 & H2 & H3) Hb. destruct i; (split; [|split; [|split]]); ksimpl; assumption.
Qed.

Lemma getb_setb_same k i b : getb (setb k i b) i = b.
Proof. destruct i; reflexivity. Qed.

(* fields not touched by setb *)
Lemma setb_fields k i b :
  opcode (setb k i b) = opcode k /\ start_a (setb k i b) = start_a k /\ end_a (setb k i b) = end_a k /\
  flashm (setb k i b) = flashm k /\ nextb (setb k i b) = nextb k /\ usedb (setb k i b) = usedb k /\
  consec (setb k i b) = consec k /\ csum (setb k i b) = csum k /\ errc (setb k i b) = errc k.
Proof. destruct i; repeat split. Qed.

Definition same_proc (k k' : ctl) : Prop :=
  opcode k' = opcode k /\ flashm k' = flashm k /\ end_a k' = end_a k.

Lemma same_proc_refl k : same_proc k k.
Proof. unfold same_proc. auto. Qed.

Lemma cinv_make c k :
  binv c (buf0 k) -> binv c (buf1 k) -> rinv c k -> start_a k < aspace c -> cinv c k.
Proof. unfold cinv. auto. Qed.

Lemma same_proc_trans k1 k2 k3 : same_proc k1 k2 -> same_proc k2 k3 -> same_proc k1 k3.
Proof. unfold same_proc. intuition congruence. Qed.

(* ------------------------------------------------------------------ find_next_buffer *)
Lemma find_next_spec c o k h a :
  wf_cfg c -> cinv c k -> a < aspace c ->
  exists rc k' cl, find_next c o k h a = Some (rc, k', cl) /\
    cinv c k' /\ forallb (call_ok c) cl = true /\ same_proc k k' /\ start_a k' = start_a k /\
    (rc = 0 -> bst (getb k' (nextb k')) = Filling) /\
    (rc <> 0 -> k' = k /\ cl = []).
Proof.
  intros Hwf Hk Ha. unfold find_next.
  destruct (page_acceptable c a) eqn:Eacc; cbn [negb].
  2:{ exists e_invalid_offset, k, []. split; [reflexivity|]. split; [assumption|]. split; [reflexivity|].
      split; [apply same_proc_refl|]. split; [reflexivity|]. split; [discriminate|]. auto. }
  set (nx := ((nextb k + 1) mod 2)%nat).
  destruct (bempty (getb k nx)) eqn:Ee; cbn [negb].
  2:{ exists e_buffer_overrun, k, []. split; [reflexivity|]. split; [assumption|]. split; [reflexivity|].
      split; [apply same_proc_refl|]. split; [reflexivity|]. split; [discriminate|]. auto. }
  assert (Hidle : bst (getb k nx) = Idle).
  { unfold bempty in Ee. destruct (bst (getb k nx)); congruence. }
  destruct (set_start_some c o (hmemory h) (getb k nx) a (bcrc (getb k (nextb k))) ((consec k + 1) mod 65536) Hidle)
    as [[b cl] Hs].
  rewrite Hs.
  destruct (set_start_spec _ _ _ _ _ _ _ _ _ Hwf Ha Eacc Hs) as (Hb & Hcl & Hst & Hptr).
  eexists 0, _, cl. split; [reflexivity|].
  destruct Hk as (H0 & H1 & H2 & H3).
  assert (Hc : cinv c (setb (set_consec k ((consec k + 1) mod 65536)) nx b)).
  { apply cinv_setb; [|assumption]. apply cinv_make; ksimpl; assumption. }
  pose proof (setb_fields (set_consec k ((consec k + 1) mod 65536)) nx b) as (F1 & F2 & F3 & F4 & F5 & _).
  ksimpl.
  split.
  { destruct Hc as (C0 & C1 & C2 & C3). apply cinv_make; ksimpl; assumption. }
  split; [assumption|].
  split; [unfold same_proc; ksimpl; auto|].
  split; [ksimpl; assumption|].
  split; [|intros Hn; contradiction].
  intros _. clearbody nx. destruct nx; ksimpl; assumption.
Qed.

(* ------------------------------------------------------------------ the write loop *)
Lemma skipn_length_lt (A : Type) (n : nat) (v : list A) : (1 <= n)%nat -> v <> [] -> (length (skipn n v) < length v)%nat.
Proof. intros Hn Hv. rewrite skipn_length. destruct v; [contradiction|]. cbn [length]. lia. Qed.

Lemma wloop_spec c o : wf_cfg c ->
  forall fuel k h v,
    cinv c k -> opcode k <> 8 -> bst (getb k (nextb k)) = Filling -> (length v < fuel)%nat ->
    exists rc k' h' cl, wloop fuel c o k h v = Some (rc, k', h', cl) /\
      cinv c k' /\ forallb (call_ok c) cl = true /\ same_proc k k'.
Proof.
  intros Hwf. induction fuel as [|f IH]; intros k h v Hk Hop Hfill Hfuel; [lia|].
  destruct v as [|x t].
  { cbn [wloop]. exists 0, k, h, []. split; [reflexivity|]. split; [assumption|]. split; [reflexivity|apply same_proc_refl]. }
  cbn [wloop].
  pose proof (binv_getb c k (nextb k) Hk) as Hb.
  destruct (Hb Hfill) as (Hptr & _ & _).
  destruct (write_data_some c o (hmemory h) (getb k (nextb k)) (x :: t) Hfill Hptr) as [[[[b m] n] cl] Hw].
  rewrite Hw.
  assert (Hne : x :: t <> []) by discriminate.
  destruct (write_data_spec _ _ _ _ _ _ _ _ _ Hwf Hb Hne Hw) as (Hb' & Hcl & Hn & Hst & Hfl).
  set (k1 := set_start_a (setb k (nextb k) b) (amod c (start_a k + N.of_nat n))).
  pose proof (setb_fields k (nextb k) b) as (F1 & F2 & F3 & F4 & F5 & _).
  assert (Hk1 : cinv c k1).
  { pose proof (cinv_setb c k (nextb k) b Hk Hb') as (C0 & C1 & C2 & C3).
    apply cinv_intro; unfold k1; ksimpl; try assumption.
    - congruence.
    - apply amod_lt. }
  assert (Hsp1 : same_proc k k1) by (unfold k1, same_proc; ksimpl; auto).
  destruct (skipn n (x :: t)) as [|y v'] eqn:Esk.
  { eexists 0, k1, _, cl. split; [reflexivity|]. split; [assumption|]. split; assumption. }
  assert (Hsklen : (length (y :: v') < length (x :: t))%nat).
  { rewrite <- Esk. apply skipn_length_lt; [lia|discriminate]. }
  destruct (find_next_spec c o k1 (set_hmem h m) (start_a k1) Hwf Hk1 ltac:(apply Hk1))
    as (rc & k2 & cl2 & Hfn & Hk2 & Hcl2 & Hsp2 & _ & Hrc0 & _).
  rewrite Hfn.
  destruct (rc =? 0) eqn:Erc.
  - apply N.eqb_eq in Erc.
    destruct (IH k2 (set_hmem h m) (y :: v') Hk2) as (rc3 & k3 & h3 & cl3 & Hw3 & Hk3 & Hcl3 & Hsp3).
    + destruct Hsp1 as (A & _), Hsp2 as (B & _). congruence.
    + auto.
    + cbn [length] in *. lia.
    + rewrite Hw3. eexists rc3, k3, h3, _. split; [reflexivity|].
      split; [assumption|]. split.
      * rewrite !forallb_app. rewrite Hcl, Hcl2, Hcl3. reflexivity.
      * eapply same_proc_trans; [eassumption|]. eapply same_proc_trans; eassumption.
  - eexists rc, k2, _, _. split; [reflexivity|]. split; [assumption|]. split.
    + rewrite forallb_app, Hcl, Hcl2. reflexivity.
    + eapply same_proc_trans; eassumption.
Qed.

(* ------------------------------------------------------------------ bootloader_write_data *)
Lemma write_data_char_spec c o k h v : wf_cfg c -> cinv c k ->
  exists rc k' h' cl, write_data_char c o k h v = Some (rc, k', h', cl) /\
    cinv c k' /\ forallb (call_ok c) cl = true /\ same_proc k k'.
Proof.
  intros Hwf Hk. unfold write_data_char.
  destruct (flashm k) eqn:Efl; cbn [negb].
  2:{ exists e_no_operation, k, h, []. split; [reflexivity|]. split; [assumption|]. split; [reflexivity|apply same_proc_refl]. }
  assert (Hop : opcode k <> 8).
  { intros E. destruct Hk as (_ & _ & Hr & _). destruct (Hr E) as (Hf & _). congruence. }
  destruct v as [|x t].
  { exists 0, k, h, []. split; [reflexivity|]. split; [assumption|]. split; [reflexivity|apply same_proc_refl]. }
  destruct (bfree_size c (getb k (nextb k)) =? 0) eqn:Efree.
  - destruct (find_next_spec c o k h (start_a k) Hwf Hk ltac:(apply Hk))
      as (rc & k1 & cl & Hfn & Hk1 & Hcl & Hsp & _ & Hrc0 & _).
    rewrite Hfn. destruct (rc =? 0) eqn:Erc.
    + apply N.eqb_eq in Erc.
      destruct (wloop_spec c o Hwf (S (length (x :: t))) k1 h (x :: t) Hk1) as (rc3 & k3 & h3 & cl3 & Hw & Hk3 & Hcl3 & Hsp3).
      * destruct Hsp as (A & _). congruence.
      * auto.
      * lia.
      * rewrite Hw. eexists rc3, k3, h3, _. split; [reflexivity|]. split; [assumption|]. split.
        -- rewrite forallb_app, Hcl, Hcl3. reflexivity.
        -- eapply same_proc_trans; eassumption.
    + eexists rc, k1, h, cl. split; [reflexivity|]. split; [assumption|]. split; assumption.
  - apply wloop_spec; try assumption; try lia.
    unfold bfree_size in Efree. destruct (bst (getb k (nextb k))); try reflexivity; discriminate.
Qed.

Lemma flush_binv c o m b ok b' m' cl :
  0 < page c -> binv c b -> flush c o m b = (ok, b', m', cl) ->
  binv c b' /\ forallb (call_ok c) cl = true.
Proof.
  intros Hp Hb H. destruct (bst b) eqn:Est.
  - unfold flush in H. rewrite Est in H. inversion H; subst. split; [assumption|reflexivity].
  - destruct (Hb Est) as (P1 & P2 & P3).
    eapply flush_spec in H; try eassumption; try lia. destruct H as (Q1 & Q2 & _). split; assumption.
  - unfold flush in H. rewrite Est in H. inversion H; subst. split; [assumption|reflexivity].
Qed.

(* ------------------------------------------------------------------ bootloader_write_control_point *)
Lemma nat_eqb_false_neq (a b : nat) : (a =? b)%nat = false -> a <> b.
Proof. apply Nat.eqb_neq. Qed.

Lemma cinv_free_all c k : cinv c k -> cinv c (free_all k).
Proof.
  intros (H0 & H1 & H2 & H3). apply cinv_make; ksimpl; try apply binv_free; assumption.
Qed.

Lemma write_cp_spec c o k h v : wf_cfg c -> cinv c k ->
  exists code ntf k' h' cl, write_cp c o k h v = Some (code, ntf, k', h', cl) /\
    cinv c k' /\ forallb (call_ok c) cl = true.
Proof.
  intros Hwf Hk. pose proof Hk as (H0 & H1 & H2 & H3).
  unfold write_cp. destruct v as [|op0 t].
  { eexists _, _, _, _, _. split; [reflexivity|]. split; [assumption|reflexivity]. }
  set (op := op0 mod 256). set (v := op0 :: t).
  (* Get Version / Get Sizes / Stop Flash *)
  destruct ((op =? 0) || (op =? 2) || (op =? 4)) eqn:E024.
  { assert (Hop : op <> 8) by lia.
    destruct (length v =? 1)%nat; cbn [negb];
      (eexists _, _, _, _, _; split; [reflexivity|]; split; [|reflexivity]);
      apply cinv_intro; ksimpl; try apply binv_free; try assumption; lia. }
  (* Get CRC *)
  destruct (op =? 1) eqn:E1.
  { destruct (length v =? 1 + 2 * asz c)%nat eqn:El; cbn [negb].
    2:{ eexists _, _, _, _, _; split; [reflexivity|]; split; [|reflexivity].
        apply cinv_intro; ksimpl; try assumption; lia. }
    apply Nat.eqb_eq in El.
    destruct (read_address_some c v 1 ltac:(lia)) as [s Hs].
    destruct (read_address_some c v (1 + asz c) ltac:(lia)) as [e He].
    rewrite Hs, He. pose proof (read_address_lt _ _ _ _ Hs) as Hslt.
    destruct ((e <? s) || negb (acceptable (regions c) s e)) eqn:Ebad.
    - eexists _, _, _, _, _; split; [reflexivity|]; split; [|reflexivity].
      apply cinv_intro; ksimpl; try assumption; lia.
    - eexists _, _, _, _, _; split; [reflexivity|]. split.
      + apply cinv_intro; ksimpl; try assumption; lia.
      + cbn [forallb call_ok]. rewrite andb_true_r.
        apply orb_false_iff in Ebad. destruct Ebad as [Ees Eacc]. apply negb_false_iff in Eacc.
        eapply acceptable_in_region; eauto; lia. }
  (* Start Flash *)
  destruct (op =? 3) eqn:E3.
  { destruct (length v =? 1 + asz c)%nat eqn:El; cbn [negb].
    2:{ eexists _, _, _, _, _; split; [reflexivity|]; split; [|reflexivity].
        apply cinv_intro; ksimpl; try assumption; lia. }
    apply Nat.eqb_eq in El.
    destruct (read_address_some c v 1 ltac:(lia)) as [s Hs]. rewrite Hs.
    pose proof (read_address_lt _ _ _ _ Hs) as Hslt.
    destruct (page_acceptable c s) eqn:Eacc; cbn [negb].
    2:{ eexists _, _, _, _, _; split; [reflexivity|]; split; [|reflexivity].
        apply cinv_intro; ksimpl; try assumption; lia. }
    ksimpl.
    destruct (set_start_some c o (hmemory h) (bfree (buf0 k)) s (o_crc_addr o s mod two32) 0 eq_refl) as [[b cl] Hst].
    rewrite Hst.
    destruct (set_start_spec _ _ _ _ _ _ _ _ _ Hwf Hslt Eacc Hst) as (Hb & Hcl & _ & _).
    eexists _, _, _, _, _; split; [reflexivity|]. split.
    - apply cinv_intro; ksimpl; try apply binv_free; try assumption; lia.
    - cbn [forallb call_ok]. assumption. }
  (* Flush *)
  destruct (op =? 5) eqn:E5.
  { ksimpl. destruct (flashm k) eqn:Efl; cbn [negb].
    2:{ eexists _, _, _, _, _; split; [reflexivity|]; split; [|reflexivity].
        apply cinv_intro; ksimpl; try assumption; lia. }
    replace (getb (set_opcode k op) (nextb k)) with (getb k (nextb k)) by (destruct (nextb k); reflexivity).
    set (cur := getb k (nextb k)).
    destruct (flush c o (hmemory h) cur) as [[[ok b] m] cl] eqn:Ef.
    assert (Hcur : binv c cur) by (apply binv_getb; assumption).
    assert (Hres : binv c b /\ forallb (call_ok c) cl = true).
    { eapply flush_binv; try eassumption. apply Hwf. }
    destruct Hres as (Hb & Hcl).
    destruct ok.
    - eexists _, _, _, _, _; split; [reflexivity|]. split; [|assumption].
      assert (Hk5 : cinv c (set_opcode k op)).
      { apply cinv_intro; ksimpl; try assumption; lia. }
      pose proof (cinv_setb c (set_opcode k op) (nextb k) b Hk5 Hb) as Hx. exact Hx.
    - eexists _, _, _, _, _; split; [reflexivity|]; split; [|reflexivity].
      apply cinv_intro; ksimpl; try assumption; lia. }
  (* Start *)
  destruct (op =? 6) eqn:E6.
  { destruct (length v =? 1 + asz c)%nat eqn:El; cbn [negb].
    2:{ eexists _, _, _, _, _; split; [reflexivity|]; split; [|reflexivity].
        apply cinv_intro; ksimpl; try assumption; lia. }
    apply Nat.eqb_eq in El.
    destruct (read_address_some c v 1 ltac:(lia)) as [s Hs]. rewrite Hs.
    eexists _, _, _, _, _; split; [reflexivity|]; split; [|reflexivity].
    apply cinv_intro; ksimpl; try assumption; lia. }
  (* Reset *)
  destruct (op =? 7) eqn:E7.
  { destruct (length v =? 1)%nat; cbn [negb];
      (eexists _, _, _, _, _; split; [reflexivity|]; split; [|reflexivity]);
      apply cinv_intro; ksimpl; try assumption; lia. }
  (* Read *)
  destruct (op =? 8) eqn:E8.
  { destruct (length v =? 1 + 2 * asz c)%nat eqn:El; cbn [negb].
    2:{ eexists _, _, _, _, _; split; [reflexivity|]; split; [|reflexivity].
        apply cinv_intro; ksimpl; try assumption; lia. }
    apply Nat.eqb_eq in El.
    destruct (read_address_some c v 1 ltac:(lia)) as [s Hs].
    destruct (read_address_some c v (1 + asz c) ltac:(lia)) as [e He].
    rewrite Hs, He. pose proof (read_address_lt _ _ _ _ Hs) as Hslt.
    pose proof (read_address_lt _ _ _ _ He) as Helt.
    destruct ((e <? s) || negb (acceptable (regions c) s e)) eqn:Ebad.
    - eexists _, _, _, _, _; split; [reflexivity|]; split; [|reflexivity].
      apply cinv_intro; ksimpl; try assumption; lia.
    - apply orb_false_iff in Ebad. destruct Ebad as [Ees Eacc]. apply negb_false_iff in Eacc.
      assert (Hc8 : forall kk, buf0 kk = buf0 k -> buf1 kk = buf1 k -> flashm kk = false ->
                               start_a kk = s -> end_a kk = e -> cinv c kk).
      { intros kk B0 B1 Bf Bs Be. apply cinv_make.
        - rewrite B0. assumption.
        - rewrite B1. assumption.
        - intros _. rewrite Bs, Be. split; [assumption|]. split; [lia|]. split; assumption.
        - rewrite Bs. assumption. }
      destruct (s =? e); cbn [negb];
        (eexists _, _, _, _, _; split; [reflexivity|]; split; [|reflexivity]);
        apply Hc8; reflexivity. }
  (* invalid opcode *)
  eexists _, _, _, _, _; split; [reflexivity|]; split; [|reflexivity].
  apply cinv_intro; ksimpl; try assumption. lia.
Qed.

(* ------------------------------------------------------------------ the read handlers *)
Lemma read_cp_spec c o k n : (20 <= n)%nat ->
  exists b cl, read_cp c o k n = Some (b, cl) /\ forallb (call_ok c) cl = true.
Proof.
  intros Hn. unfold read_cp. assert ((n <? 20)%nat = false) as -> by (apply Nat.ltb_ge; lia).
  repeat (match goal with |- context [if ?x then _ else _] => destruct x end);
    eexists _, _; split; reflexivity.
Qed.

Lemma acceptable_shrink rs s e s' : acceptable rs s e = true -> s <= s' -> acceptable rs s' e = true.
Proof.
  intros H Hs. induction rs as [|[a b] t IH]; cbn in *; [discriminate|].
  apply orb_true_iff in H. apply orb_true_iff. destruct H as [H|H]; [left; lia|right; auto].
Qed.

Lemma sub_amod c s e : s <= e -> e < aspace c -> amod c (e + aspace c - s) = e - s.
Proof.
  intros H1 H2. unfold amod. replace (e + aspace c - s) with ((e - s) + 1 * aspace c) by lia.
  rewrite N.mod_add by (pose proof (aspace_pos c); lia). apply N.mod_small. lia.
Qed.

Lemma read_data_spec c o k h n b k' h' cl : cinv c k ->
  read_data c o k h n = (b, k', h', cl) -> cinv c k' /\ forallb (call_ok c) cl = true.
Proof.
  intros Hk H. pose proof Hk as (H0 & H1 & H2 & H3). unfold read_data in H.
  destruct (opcode k =? 8) eqn:E8.
  2:{ inversion H; subst. split; [assumption|reflexivity]. }
  apply N.eqb_eq in E8. destruct (H2 E8) as (Hf & Hle & Hlt & Hacc).
  rewrite sub_amod in H by assumption.
  set (n' := N.min (N.of_nat n) (end_a k - start_a k)) in *.
  assert (Hn' : start_a k + n' <= end_a k).
  { pose proof (N.le_min_r (N.of_nat n) (end_a k - start_a k)) as Hm. fold n' in Hm. clear - Hm Hle. lia. }
  assert (Hreg : in_region (regions c) (start_a k) n' = true).
  { eapply acceptable_in_region; eauto; lia. }
  destruct (rderr h).
  - inversion H; subst. split.
    + apply cinv_make; ksimpl; assumption.
    + cbn [forallb call_ok]. rewrite Hreg. reflexivity.
  - assert (Ham : amod c (start_a k + n') = start_a k + n') by (apply amod_small; lia).
    assert (Hk1 : cinv c (set_start_a (set_csum (set_errc k 0)
                           (o_crc_upd o (read_range c o (hmemory h) (start_a k) (N.to_nat n')) (csum k) mod two32))
                           (amod c (start_a k + n')))).
    { apply cinv_make; ksimpl; try assumption.
      - intros _. ksimpl. rewrite Ham. split; [assumption|]. split; [assumption|]. split; [assumption|].
        apply (acceptable_shrink _ (start_a k)); [assumption|lia].
      - apply amod_lt. }
    match type of H with (if ?x then _ else _) = _ => destruct x end;
      inversion H; subst; (split; [assumption|]); cbn [forallb call_ok]; rewrite Hreg; reflexivity.
Qed.

Lemma progress_data_spec c k n : (7 <= n)%nat -> cinv c k ->
  exists b k', progress_data k n = Some (b, k') /\ cinv c k'.
Proof.
  intros Hn Hk. unfold progress_data. assert ((n <? 7)%nat = false) as -> by (apply Nat.ltb_ge; lia).
  eexists _, _. split; [reflexivity|].
  pose proof (cinv_setb c k (usedb k) (bfree (getb k (usedb k))) Hk (binv_free c _)) as (C0 & C1 & C2 & C3).
  apply cinv_make; ksimpl; assumption.
Qed.

Lemma read_value_spec c o s ch n : (20 <= n)%nat -> inv c s ->
  exists b s' cl, read_value c o s ch n = Some (b, s', cl) /\ inv c s' /\ forallb (call_ok c) cl = true.
Proof.
  intros Hn Hs. unfold read_value. destruct ch.
  - destruct (read_cp_spec c o (sc s) n Hn) as (b & cl & Hr & Hcl). rewrite Hr.
    eexists _, _, _. split; [reflexivity|]. split; assumption.
  - destruct (read_data c o (sc s) (sh s) n) as [[[b k] h] cl] eqn:E.
    apply read_data_spec in E; [|assumption]. destruct E.
    eexists _, _, _. split; [reflexivity|]. split; assumption.
  - destruct (progress_data_spec c (sc s) n ltac:(lia) Hs) as (b & k' & Hp & Hk'). rewrite Hp.
    eexists _, _, _. split; [reflexivity|]. split; [assumption|reflexivity].
Qed.

(* ------------------------------------------------------------------ one step *)
Definition out_safe (c : cfg) (r : out) : Prop :=
  ost r <> SFault /\ forallb (call_ok c) (ocalls r) = true.

Lemma step_safe c o s x : wf_cfg c -> inv c s ->
  inv c (fst (step c o s x)) /\ out_safe c (snd (step c o s x)).
Proof.
  intros Hwf Hs. unfold out_safe.
  destruct x; cbn [step].
  - destruct (write_cp_spec c o (sc s) (sh s) v Hwf Hs) as (code & ntf & k' & h' & cl & Hw & Hk & Hcl).
    rewrite Hw. cbn. split; [assumption|]. split; [destruct (code =? 0); discriminate|assumption].
  - destruct (write_cp_spec c o (sc s) (sh s) v Hwf Hs) as (code & ntf & k' & h' & cl & Hw & Hk & Hcl).
    rewrite Hw. cbn. split; [assumption|]. split; [discriminate|assumption].
  - destruct (write_data_char_spec c o (sc s) (sh s) v Hwf Hs) as (code & k' & h' & cl & Hw & Hk & Hcl & _).
    rewrite Hw. cbn. split; [assumption|]. split; [destruct (code =? 0); discriminate|assumption].
  - destruct (write_data_char_spec c o (sc s) (sh s) v Hwf Hs) as (code & k' & h' & cl & Hw & Hk & Hcl & _).
    rewrite Hw. cbn. split; [assumption|]. split; [discriminate|assumption].
  - destruct (flashing (sh s) =? 0); cbn; (split; [assumption|]); split; [discriminate|reflexivity|discriminate|reflexivity].
  - cbn. split; [assumption|]. split; [discriminate|reflexivity].
  - destruct (dequeue (sq s)) as [[ch|] q].
    + destruct (read_value_spec c o (mk (sc s) (sh s) q) ch (att_mtu - 3) ltac:(cbn; lia) Hs) as (b & s' & cl & Hr & Hs' & Hcl).
      rewrite Hr. cbn. split; [assumption|]. split; [destruct ch; discriminate|assumption].
    + cbn. split; [assumption|]. split; [discriminate|reflexivity].
  - cbn. split; [assumption|]. split; [discriminate|reflexivity].
  - cbn. split; [assumption|]. split; [discriminate|reflexivity].
  - destruct (read_value_spec c o s ch (att_mtu - 1) ltac:(cbn; lia) Hs) as (b & s' & cl & Hr & Hs' & Hcl).
    rewrite Hr. cbn. split; [assumption|]. split; [discriminate|assumption].
Qed.

Lemma inv_init c : inv c init.
Proof.
  unfold inv, init, cinit. cbn [sc]. apply cinv_intro; cbn; try apply binv_init; try lia. apply aspace_pos.
Qed.

Lemma run_cons c o s x t : run c o s (x :: t) = (x, snd (step c o s x)) :: run c o (fst (step c o s x)) t.
Proof. cbn [run]. destruct (step c o s x). reflexivity. Qed.

Lemma run_safe_from c o : wf_cfg c -> forall ops s, inv c s ->
  Forall (fun xr => out_safe c (snd xr)) (run c o s ops).
Proof.
  intros Hwf. induction ops as [|x t IH]; intros s Hs; [constructor|].
  rewrite run_cons. destruct (step_safe c o s x Hwf Hs) as (Hi & Ho).
  constructor; [exact Ho|]. apply IH. assumption.
Qed.

(* Main theorems of part 2: for every configuration with a positive page size, every handler
   oracle and every operation sequence ... *)
Theorem no_overread c o ops : wf_cfg c ->
  Forall (fun xr => ost (snd xr) <> SFault) (run c o init ops).
Proof.
  intros Hwf. eapply Forall_impl; [|apply (run_safe_from c o Hwf ops init (inv_init c))].
  intros a H. apply H.
Qed.

Theorem whitelist_only c o ops : wf_cfg c ->
  Forall (fun xr => forallb (call_ok c) (ocalls (snd xr)) = true) (run c o init ops).
Proof.
  intros Hwf. eapply Forall_impl; [|apply (run_safe_from c o Hwf ops init (inv_init c))].
  intros a H. apply H.
Qed.
