(* Executable model of the bootloader service (bluetoe/services/bootloader.hpp):
   details::flash_buffer< PageSize >, details::controller< UserHandler, MemRegions, PageSize >
   (control point, data and progress characteristic handlers), white_list< memory_region<...>... >,
   together with the server glue of one connection it runs in: the three characteristics' entries in
   the connection's notification queue (all three CCCDs subscribed), server::l2cap_output with a
   23 byte buffer, the Handle Value Confirmation, Read Requests on the three values, the
   mixin_write_notification_control_point_handler / mixin_write_handler / mixin_read_handler bindings.

   The user handler is an ORACLE: every call the library makes is logged (with its address range,
   the bytes handed over and the result) in the output of the operation.  What the handler answers
   is given by the record [oracle] (check sum functions, version string, initial memory content);
   the handler's memory is a sparse map over the initial content, written by start_flash.

   Parameters of the model: page size, sizeof( std::uint8_t* ) and the list of white-listed regions.
   The written characteristic value is a [list N] read with nth_error: an over-read is [SFault].
   Definitions only.

   Transcribes /repo with the three repairs
     fix/C39-opc-read-length       (opc_read checks write_size before parsing two addresses)
     fix/C39-flash-beyond-region   (page_acceptable: the whole page has to be white-listed, checked for
                                    Start Flash and for every following page in find_next_buffer)
     fix/C39-leave-flash-mode      (Get CRC, Start, Reset and Read leave the flash mode) *)
From BT Require Import Base.ListX.
Local Open Scope N_scope.

Record cfg := mkcfg {
  page : N;                      (* page_size< N >::value *)
  asz : nat;                     (* sizeof( std::uint8_t* ) *)
  regions : list (N * N)         (* white_list< memory_region< Start, End >... > *)
}.

(* ---------------------------------------------------------------- the user handler as an oracle *)
Record oracle := mkoracle {
  o_mem0 : N -> N;                       (* initial memory content *)
  o_crc_addr : N -> N;                   (* checksum32( start_addr ) *)
  o_crc_upd : list N -> N -> N;          (* checksum32( ptr, size, old_crc ) *)
  o_crc_pub : list N -> N;               (* public_checksum32( start, size ) as a function of the content *)
  o_version : list N                     (* get_version() *)
}.

Inductive call :=
| CCs (a r : N)                  (* checksum32( a ) = r *)
| CCk (b : list N) (old r : N)   (* checksum32( ptr, size, old ) = r over the bytes b *)
| CRm (a : N) (b : list N)       (* read_mem( a, |b| ) returned b *)
| CSf (a : N) (b : list N)       (* start_flash( a, b, |b| ) *)
| CPr (a n : N) (e : bool)       (* public_read_mem( a, n ); e: reported not_authorized *)
| CPc (a n r : N)                (* public_checksum32( a, n ) = r *)
| CGo (a : N)                    (* run( a ) *)
| CReset | CVer | CCpcb | CDicb. (* reset(), get_version(), the two notification call backs *)

Inductive chr := ChCp | ChData | ChProg.

Inductive status :=
| SOk | SErr (c : N) | SNone
| SNtf (ch : chr) (b : list N) | SInd (ch : chr) (b : list N)
| SVal (b : list N) | SFault.

Record out := mkout { ost : status; ocalls : list call }.

Definition two32 : N := 4294967296.
Definition aspace (c : cfg) : N := 2 ^ (8 * N.of_nat (asz c)).
Definition amod (c : cfg) (x : N) : N := x mod aspace c.          (* std::uintptr_t arithmetic *)

Definition len (b : list N) : N := N.of_nat (length b).

(* the addresses a, a+1, ... (n of them), wrapping like std::uintptr_t *)
Definition range (c : cfg) (a : N) (n : nat) : list N :=
  map (fun i => amod c (a + N.of_nat i)) (seq 0 n).

Definition hmem := list (N * N).
Fixpoint lookup (m : hmem) (a : N) : option N :=
  match m with
  | [] => None
  | (k, v) :: t => if k =? a then Some v else lookup t a
  end.
Definition peek (o : oracle) (m : hmem) (a : N) : N :=
  match lookup m a with Some v => v | None => o_mem0 o a mod 256 end.
Definition read_range (c : cfg) (o : oracle) (m : hmem) (a : N) (n : nat) : list N :=
  map (peek o m) (range c a n).
Definition write_range (c : cfg) (m : hmem) (a : N) (b : list N) : hmem :=
  combine (range c a (length b)) b ++ m.

(* ---------------------------------------------------------------- white_list<...>::acceptable *)
Fixpoint acceptable (rs : list (N * N)) (s e : N) : bool :=
  match rs with
  | [] => false
  | (rs0, re0) :: t => ((rs0 <=? s) && (e <=? re0)) || acceptable t s e
  end.

(* controller::page_acceptable *)
Definition page_acceptable (c : cfg) (a : N) : bool :=
  let ps := a - a mod page c in
  let pe := amod c (ps + page c) in
  (ps <? pe) && acceptable (regions c) ps pe.

(* ---------------------------------------------------------------- flash_buffer< PageSize > *)
Inductive bstate := Idle | Filling | Flashing.

Record fbuf := mkb {
  bst : bstate;          (* state_ *)
  baddr : N;             (* addr_ *)
  bptr : N;              (* ptr_ *)
  bcrc : N;              (* crc_ *)
  bdata : list N;        (* buffer_[ 0 .. ) : the bytes written so far *)
  bcons : N              (* consecutive_ *)
}.

Definition binit : fbuf := mkb Idle 0 0 0 [] 0.

Definition bfree_size (c : cfg) (b : fbuf) : N :=
  match bst b with Filling => page c - bptr b | _ => 0 end.

Definition bfree (b : fbuf) : fbuf := mkb Idle (baddr b) 0 (bcrc b) (bdata b) (bcons b).

Definition bempty (b : fbuf) : bool := match bst b with Idle => true | _ => false end.

(* set_start_address; None = assert( state_ == idle ) *)
Definition set_start (c : cfg) (o : oracle) (m : hmem) (b : fbuf) (address crc cons : N)
  : option (fbuf * list call) :=
  match bst b with
  | Idle =>
      let p := address mod page c in
      let a := address - p in
      let d := read_range c o m a (N.to_nat p) in
      Some (mkb Filling a p crc d cons, [CRm a d])
  | _ => None
  end.

(* flush: (flushed?, buffer, handler memory, calls) *)
Definition flush (c : cfg) (o : oracle) (m : hmem) (b : fbuf) : bool * fbuf * hmem * list call :=
  match bst b with
  | Filling =>
      if bptr b =? 0 then (false, b, m, [])
      else
        let ra := amod c (baddr b + bptr b) in
        let rest := if page c =? bptr b then [] else read_range c o m ra (N.to_nat (page c - bptr b)) in
        let pg := bdata b ++ rest in
        (true, mkb Flashing (baddr b) (bptr b) (bcrc b) pg (bcons b), write_range c m (baddr b) pg,
         (if page c =? bptr b then [] else [CRm ra rest]) ++ [CSf (baddr b) pg])
  | _ => (false, b, m, [])
  end.

(* write_data: None = one of the two asserts; (buffer, memory, moved, calls) *)
Definition write_data (c : cfg) (o : oracle) (m : hmem) (b : fbuf) (v : list N)
  : option (fbuf * hmem * nat * list call) :=
  match bst b with
  | Filling =>
      if bptr b =? page c then None
      else
        let n := Nat.min (N.to_nat (page c - bptr b)) (length v) in
        let chunk := firstn n v in
        let r := o_crc_upd o chunk (bcrc b) mod two32 in
        let b1 := mkb Filling (baddr b) (bptr b + N.of_nat n) r (bdata b ++ chunk) (bcons b) in
        if bptr b1 =? page c then
          let '(_, b2, m2, cl) := flush c o m b1 in Some (b2, m2, n, CCk chunk (bcrc b) r :: cl)
        else Some (b1, m, n, [CCk chunk (bcrc b) r])
  | _ => None
  end.

(* ---------------------------------------------------------------- controller *)
Record ctl := mkctl {
  opcode : N;            (* 255 = undefined_opcode *)
  start_a : N;           (* start_address *)
  end_a : N;             (* end_address *)
  errc : N;              (* error *)
  csum : N;              (* check_sum *)
  flashm : bool;         (* in_flash_mode *)
  nextb : nat;           (* next_buffer_ *)
  usedb : nat;           (* used_buffer_ *)
  consec : N;            (* consecutive_ (16 bit) *)
  buf0 : fbuf; buf1 : fbuf
}.

Definition cinit : ctl := mkctl 255 0 0 0 0 false 0 0 0 binit binit.

Definition getb (k : ctl) (i : nat) : fbuf := match i with O => buf0 k | _ => buf1 k end.
Definition setb (k : ctl) (i : nat) (b : fbuf) : ctl :=
  match i with
  | O => mkctl (opcode k) (start_a k) (end_a k) (errc k) (csum k) (flashm k) (nextb k) (usedb k) (consec k) b (buf1 k)
  | _ => mkctl (opcode k) (start_a k) (end_a k) (errc k) (csum k) (flashm k) (nextb k) (usedb k) (consec k) (buf0 k) b
  end.
Definition set_opcode (k : ctl) (x : N) : ctl :=
  mkctl x (start_a k) (end_a k) (errc k) (csum k) (flashm k) (nextb k) (usedb k) (consec k) (buf0 k) (buf1 k).
Definition set_start_a (k : ctl) (x : N) : ctl :=
  mkctl (opcode k) x (end_a k) (errc k) (csum k) (flashm k) (nextb k) (usedb k) (consec k) (buf0 k) (buf1 k).
Definition set_end_a (k : ctl) (x : N) : ctl :=
  mkctl (opcode k) (start_a k) x (errc k) (csum k) (flashm k) (nextb k) (usedb k) (consec k) (buf0 k) (buf1 k).
Definition set_errc (k : ctl) (x : N) : ctl :=
  mkctl (opcode k) (start_a k) (end_a k) x (csum k) (flashm k) (nextb k) (usedb k) (consec k) (buf0 k) (buf1 k).
Definition set_csum (k : ctl) (x : N) : ctl :=
  mkctl (opcode k) (start_a k) (end_a k) (errc k) x (flashm k) (nextb k) (usedb k) (consec k) (buf0 k) (buf1 k).
Definition set_flashm (k : ctl) (x : bool) : ctl :=
  mkctl (opcode k) (start_a k) (end_a k) (errc k) (csum k) x (nextb k) (usedb k) (consec k) (buf0 k) (buf1 k).
Definition set_nextb (k : ctl) (x : nat) : ctl :=
  mkctl (opcode k) (start_a k) (end_a k) (errc k) (csum k) (flashm k) x (usedb k) (consec k) (buf0 k) (buf1 k).
Definition set_usedb (k : ctl) (x : nat) : ctl :=
  mkctl (opcode k) (start_a k) (end_a k) (errc k) (csum k) (flashm k) (nextb k) x (consec k) (buf0 k) (buf1 k).
Definition set_consec (k : ctl) (x : N) : ctl :=
  mkctl (opcode k) (start_a k) (end_a k) (errc k) (csum k) (flashm k) (nextb k) (usedb k) x (buf0 k) (buf1 k).

(* for ( auto& buffer : buffers_ ) buffer.free(); *)
Definition free_all (k : ctl) : ctl := setb (setb k 0 (bfree (buf0 k))) 1 (bfree (buf1 k)).

(* request_error *)
Definition request_error (k : ctl) : ctl := set_flashm (set_opcode k 255) false.

(* read_address( value + off ): little endian, sizeof( std::uint8_t* ) bytes (std::uint8_t: mod 256);
   None = over-read *)
Fixpoint read_le (v : list N) (off n : nat) : option N :=
  match n with
  | O => Some 0
  | S n' =>
      match nth_error v off, read_le v (S off) n' with
      | Some b, Some r => Some (b mod 256 + 256 * r)
      | _, _ => None
      end
  end.
Definition read_address (c : cfg) (v : list N) (off : nat) : option N := read_le v off (asz c).

(* error codes (checked against the headers: gen/GenBoot.v, Properties_C39.v) *)
Definition e_invalid_offset : N := 7.
Definition e_invalid_length : N := 13.
Definition e_no_operation : N := 128.
Definition e_invalid_opcode : N := 129.
Definition e_invalid_state : N := 130.
Definition e_buffer_overrun : N := 131.

(* the handler's own state *)
Record hnd := mkhnd {
  hmemory : hmem;        (* sparse memory *)
  rderr : bool;          (* public_read_mem reports not_authorized *)
  cpreq : bool;          (* control_point_notification_call_back() was called *)
  datareq : bool;        (* data_indication_call_back() was called *)
  flashing : N           (* start_flash() calls not yet answered by end_flash() *)
}.
Definition hinit : hnd := mkhnd [] false false false 0.
Definition set_hmem (h : hnd) (m : hmem) : hnd := mkhnd m (rderr h) (cpreq h) (datareq h) (flashing h).
Definition set_cpreq (h : hnd) (x : bool) : hnd := mkhnd (hmemory h) (rderr h) x (datareq h) (flashing h).
Definition set_datareq (h : hnd) (x : bool) : hnd := mkhnd (hmemory h) (rderr h) (cpreq h) x (flashing h).
Definition set_flashing (h : hnd) (x : N) : hnd := mkhnd (hmemory h) (rderr h) (cpreq h) (datareq h) x.
Definition count_sf (cl : list call) : N :=
  N.of_nat (length (filter (fun x => match x with CSf _ _ => true | _ => false end) cl)).
(* every start_flash() call starts one flash operation of the handler *)
Definition started (h : hnd) (cl : list call) : hnd := set_flashing h (flashing h + count_sf cl).

(* find_next_buffer -> (error code, controller, calls); None = assert in set_start_address *)
Definition find_next (c : cfg) (o : oracle) (k : ctl) (h : hnd) (a : N) : option (N * ctl * list call) :=
  if negb (page_acceptable c a) then Some (e_invalid_offset, k, [])
  else
    let nx := ((nextb k + 1) mod 2)%nat in
    if negb (bempty (getb k nx)) then Some (e_buffer_overrun, k, [])
    else
      let cons := (consec k + 1) mod 65536 in
      match set_start c o (hmemory h) (getb k nx) a (bcrc (getb k (nextb k))) cons with
      | None => None
      | Some (b, cl) => Some (0, set_nextb (setb (set_consec k cons) nx b) nx, cl)
      end.

(* the while loop of bootloader_write_data; None = assert *)
Fixpoint wloop (fuel : nat) (c : cfg) (o : oracle) (k : ctl) (h : hnd) (v : list N)
  : option (N * ctl * hnd * list call) :=
  match v with
  | [] => Some (0, k, h, [])
  | _ :: _ =>
      match fuel with
      | O => None
      | S f =>
          match write_data c o (hmemory h) (getb k (nextb k)) v with
          | None => None
          | Some (b, m, n, cl) =>
              let k1 := set_start_a (setb k (nextb k) b) (amod c (start_a k + N.of_nat n)) in
              let h1 := set_hmem h m in
              match skipn n v with
              | [] => Some (0, k1, h1, cl)
              | v' =>
                  match find_next c o k1 h1 (start_a k1) with
                  | None => None
                  | Some (rc, k2, cl2) =>
                      if rc =? 0 then
                        match wloop f c o k2 h1 v' with
                        | None => None
                        | Some (rc3, k3, h3, cl3) => Some (rc3, k3, h3, cl ++ cl2 ++ cl3)
                        end
                      else Some (rc, k2, h1, cl ++ cl2)
                  end
              end
          end
      end
  end.

(* bootloader_write_data *)
Definition write_data_char (c : cfg) (o : oracle) (k : ctl) (h : hnd) (v : list N)
  : option (N * ctl * hnd * list call) :=
  if negb (flashm k) then Some (e_no_operation, k, h, [])
  else match v with
  | [] => Some (0, k, h, [])
  | _ =>
      if bfree_size c (getb k (nextb k)) =? 0 then
        match find_next c o k h (start_a k) with
        | None => None
        | Some (rc, k1, cl) =>
            if rc =? 0 then
              match wloop (S (length v)) c o k1 h v with
              | None => None
              | Some (rc3, k3, h3, cl3) => Some (rc3, k3, h3, cl ++ cl3)
              end
            else Some (rc, k1, h, cl)
        end
      else wloop (S (length v)) c o k h v
  end.

(* bootloader_write_control_point -> ((error code, notify?), controller, handler, calls); None = over-read / assert *)
Definition write_cp (c : cfg) (o : oracle) (k : ctl) (h : hnd) (v : list N)
  : option (N * bool * ctl * hnd * list call) :=
  match v with
  | [] => Some (e_invalid_length, false, k, h, [])
  | op0 :: _ =>
      let op := op0 mod 256 in                     (* opcode = *value; (std::uint8_t) *)
      let k := set_opcode k op in
      let a := asz c in
      if (op =? 0) || (op =? 2) || (op =? 4) then
        if negb (length v =? 1)%nat then Some (e_invalid_length, false, request_error k, h, [])
        else Some (0, true, free_all (set_usedb (set_nextb (set_flashm k false) 0) 0), h, [])
      else if op =? 1 then
        if negb (length v =? 1 + 2 * a)%nat then Some (e_invalid_length, false, request_error k, h, [])
        else match read_address c v 1, read_address c v (1 + a) with
        | Some s, Some e =>
            let k := set_start_a k s in
            if (e <? s) || negb (acceptable (regions c) s e) then Some (e_invalid_offset, false, request_error k, h, [])
            else
              let r := o_crc_pub o (read_range c o (hmemory h) s (N.to_nat (e - s))) mod two32 in
              Some (0, true, set_csum (set_flashm k false) r, h, [CPc s (e - s) r])
        | _, _ => None
        end
      else if op =? 3 then
        if negb (length v =? 1 + a)%nat then Some (e_invalid_length, false, request_error k, h, [])
        else match read_address c v 1 with
        | Some s =>
            let r := o_crc_addr o s mod two32 in
            let k := set_flashm (set_usedb (set_nextb (set_consec (set_csum (set_start_a k s) r) 0) 0) 0) true in
            if negb (page_acceptable c s) then Some (e_invalid_offset, false, request_error k, h, [CCs s r])
            else
              let k := free_all k in
              match set_start c o (hmemory h) (getb k 0) s r 0 with
              | None => None
              | Some (b, cl) => Some (0, true, setb k 0 b, h, CCs s r :: cl)
              end
        | None => None
        end
      else if op =? 5 then
        if negb (flashm k) then Some (e_invalid_state, false, request_error k, h, [])
        else
          let '(ok, b, m, cl) := flush c o (hmemory h) (getb k (nextb k)) in
          if ok then Some (0, true, setb k (nextb k) b, set_hmem h m, cl)
          else Some (e_invalid_state, false, request_error k, h, [])
      else if op =? 6 then
        if negb (length v =? 1 + a)%nat then Some (e_invalid_length, false, request_error k, h, [])
        else match read_address c v 1 with
        | Some s => Some (0, true, set_flashm k false, h, [CGo s])
        | None => None
        end
      else if op =? 7 then
        if negb (length v =? 1)%nat then Some (e_invalid_length, false, request_error k, h, [])
        else Some (0, true, set_flashm k false, h, [CReset])
      else if op =? 8 then
        if negb (length v =? 1 + 2 * a)%nat then Some (e_invalid_length, false, request_error k, h, [])
        else match read_address c v 1, read_address c v (1 + a) with
        | Some s, Some e =>
            let r := o_crc_addr o s mod two32 in
            let k := set_flashm (set_csum (set_end_a (set_start_a (set_errc k 0) s) e) r) false in
            if (e <? s) || negb (acceptable (regions c) s e) then Some (e_invalid_offset, false, request_error k, h, [CCs s r])
            else if negb (s =? e) then
              Some (0, false, k, set_datareq h true, [CCs s r; CDicb])
            else Some (0, true, k, h, [CCs s r])
        | _, _ => None
        end
      else Some (e_invalid_opcode, false, k, h, [])
  end.

Definition le16 (x : N) : list N := [x mod 256; (x / 256) mod 256].
Definition le32 (x : N) : list N := [x mod 256; (x / 256) mod 256; (x / 65536) mod 256; (x / 16777216) mod 256].

(* the untouched part of the output buffer (the harness fills its output buffers with 0xAA) *)
Definition untouched (n : nat) : list N := repeat 170 n.

(* bootloader_read_control_point( read_size, ... ) -> value bytes; None = assert( read_size >= 20 ) *)
Definition read_cp (c : cfg) (o : oracle) (k : ctl) (read_size : nat) : option (list N * list call) :=
  if (read_size <? 20)%nat then None
  else
    let op := opcode k in
    if op =? 0 then Some (0 :: firstn (Nat.min read_size (length (o_version o) + 1) - 1) (map (fun x => x mod 256) (o_version o)), [CVer])
    else if op =? 1 then Some (op :: le32 (csum k), [])
    else if op =? 2 then Some ([op; N.of_nat (asz c) mod 256] ++ le32 (page c) ++ le32 2, [])
    else if op =? 3 then Some ([op; (N.of_nat read_size + 3) mod 256] ++ le32 (bcrc (getb k (nextb k))), [])
    else if op =? 4 then Some ([op], [])
    else if op =? 5 then Some (op :: le32 (bcrc (getb k (nextb k))) ++ le16 (bcons (getb k (nextb k))), [])
    else if op =? 8 then Some (op :: le32 (csum k) ++ [errc k mod 256], [])
    else Some (op :: untouched (read_size - 1), []).     (* out_size is not set *)

(* bootloader_read_data( read_size, ... ) *)
Definition read_data (c : cfg) (o : oracle) (k : ctl) (h : hnd) (read_size : nat) : list N * ctl * hnd * list call :=
  if opcode k =? 8 then
    let n := N.min (N.of_nat read_size) (amod c (end_a k + aspace c - start_a k)) in
    if rderr h then
      (* error != success: out_size = 0, notify the control point *)
      ([], set_errc k 1, set_cpreq h true, [CPr (start_a k) n true; CCpcb])
    else
      let d := read_range c o (hmemory h) (start_a k) (N.to_nat n) in
      let r := o_crc_upd o d (csum k) mod two32 in
      let k1 := set_start_a (set_csum (set_errc k 0) r) (amod c (start_a k + n)) in
      if start_a k1 =? end_a k1
      then (d, k1, set_cpreq h true, [CPr (start_a k) n false; CCk d (csum k) r; CCpcb])
      else (d, k1, set_datareq h true, [CPr (start_a k) n false; CCk d (csum k) r; CDicb])
  else (untouched read_size, k, h, []).                           (* out_size is not set *)

(* bootloader_progress_data( read_size, ... ); None = assert( read_size >= 7 ) *)
Definition progress_data (k : ctl) (read_size : nat) : option (list N * ctl) :=
  if (read_size <? 7)%nat then None
  else
    let b := bfree (getb k (usedb k)) in
    Some (le32 (bcrc b) ++ le16 (bcons b) ++ [(N.of_nat read_size + 3) mod 256],
          set_usedb (setb k (usedb k) b) ((usedb k + 1) mod 2)%nat).

(* ---------------------------------------------------------------- the connection's notification queue
   notification_queue< tuple< integral_constant< int, 3 > > >: entries 0 control point (notification),
   1 data (indication), 2 progress (notification); next_ and outstanding_confirmation_index_ *)
Record que := mkq { qcp : bool; qdata : bool; qprog : bool; qnext : nat; qout : bool }.
Definition qinit : que := mkq false false false 0 false.

Definition queue_cp (q : que) : que := mkq true (qdata q) (qprog q) (qnext q) (qout q).
Definition queue_data (q : que) : que := mkq (qcp q) true (qprog q) (qnext q) (qout q).
Definition queue_prog (q : que) : que := mkq (qcp q) (qdata q) true (qnext q) (qout q).

(* entry i ready? (indication only without outstanding confirmation) *)
Definition qready (q : que) (i : nat) : bool :=
  match i with
  | O => qcp q
  | S O => qdata q && negb (qout q)
  | _ => qprog q
  end.

(* dequeue_indication_or_confirmation: circular scan starting at next_ *)
Definition dequeue (q : que) : option chr * que :=
  let i0 := qnext q in let i1 := ((i0 + 1) mod 3)%nat in let i2 := ((i0 + 2) mod 3)%nat in
  let pick (i : nat) : option chr * que :=
    match i with
    | O => (Some ChCp, mkq false (qdata q) (qprog q) 1 (qout q))
    | S O => (Some ChData, mkq (qcp q) false (qprog q) 2 true)
    | _ => (Some ChProg, mkq (qcp q) (qdata q) false 0 (qout q))
    end in
  if qready q i0 then pick i0 else if qready q i1 then pick i1 else if qready q i2 then pick i2 else (None, q).

(* ---------------------------------------------------------------- one connection *)
Record state := mk { sc : ctl; sh : hnd; sq : que }.
Definition init : state := mk cinit hinit qinit.

Inductive op :=
| WCp (v : list N) | WCpCmd (v : list N)       (* Write Request / Write Command: control point *)
| WData (v : list N) | WDataCmd (v : list N)   (* Write Request / Write Command: data *)
| EndFlash                                     (* bootloader::end_flash( server ), if a flash operation is running *)
| Run                                          (* application performs the requested call backs *)
| Out                                          (* server::l2cap_output, 23 byte buffer *)
| Hvc                                          (* Handle Value Confirmation *)
| SetErr (e : bool)                            (* handler: public_read_mem fails from now on / works again *)
| Rd (ch : chr).                               (* Read Request *)

Definition att_mtu : nat := 23.

Definition fault (s : state) : state * out := (s, mkout SFault []).

(* the value read for a notification / indication / read response *)
Definition read_value (c : cfg) (o : oracle) (s : state) (ch : chr) (read_size : nat)
  : option (list N * state * list call) :=
  match ch with
  | ChCp => match read_cp c o (sc s) read_size with
            | Some (b, cl) => Some (b, s, cl)
            | None => None
            end
  | ChData => let '(b, k, h, cl) := read_data c o (sc s) (sh s) read_size in Some (b, mk k h (sq s), cl)
  | ChProg => match progress_data (sc s) read_size with
              | Some (b, k) => Some (b, mk k (sh s) (sq s), [])
              | None => None
              end
  end.

Definition step (c : cfg) (o : oracle) (s : state) (x : op) : state * out :=
  match x with
  | WCp v | WCpCmd v =>
      match write_cp c o (sc s) (sh s) v with
      | None => fault s
      | Some (code, ntf, k, h, cl) =>
          (mk k (started h cl) (if ntf then queue_cp (sq s) else sq s),
           mkout (match x with WCp _ => if code =? 0 then SOk else SErr code | _ => SNone end) cl)
      end
  | WData v | WDataCmd v =>
      match write_data_char c o (sc s) (sh s) v with
      | None => fault s
      | Some (code, k, h, cl) =>
          (mk k (started h cl) (sq s),
           mkout (match x with WData _ => if code =? 0 then SOk else SErr code | _ => SNone end) cl)
      end
  | EndFlash =>
      (* the handler reports the end of a flash operation once per start_flash() call *)
      if flashing (sh s) =? 0 then (s, mkout SNone [])
      else (mk (sc s) (set_flashing (sh s) (flashing (sh s) - 1)) (queue_prog (sq s)), mkout SNone [])
  | Run =>
      let q1 := if cpreq (sh s) then queue_cp (sq s) else sq s in
      let q2 := if datareq (sh s) then queue_data q1 else q1 in
      (mk (sc s) (set_datareq (set_cpreq (sh s) false) false) q2, mkout SNone [])
  | Out =>
      match dequeue (sq s) with
      | (None, _) => (s, mkout SNone [])
      | (Some ch, q) =>
          match read_value c o (mk (sc s) (sh s) q) ch (att_mtu - 3) with
          | None => fault s
          | Some (b, s1, cl) =>
              (s1, mkout (match ch with ChData => SInd ch b | _ => SNtf ch b end) cl)
          end
      end
  | Hvc => (mk (sc s) (sh s) (mkq (qcp (sq s)) (qdata (sq s)) (qprog (sq s)) (qnext (sq s)) false), mkout SNone [])
  | SetErr e => (mk (sc s) (mkhnd (hmemory (sh s)) e (cpreq (sh s)) (datareq (sh s)) (flashing (sh s))) (sq s), mkout SNone [])
  | Rd ch =>
      match read_value c o s ch (att_mtu - 1) with
      | None => fault s
      | Some (b, s1, cl) => (s1, mkout (SVal b) cl)
      end
  end.

Fixpoint run (c : cfg) (o : oracle) (s : state) (ops : list op) : list (op * out) :=
  match ops with
  | [] => []
  | x :: t => let '(s', r) := step c o s x in (x, r) :: run c o s' t
  end.

Fixpoint final (c : cfg) (o : oracle) (s : state) (ops : list op) : state :=
  match ops with
  | [] => s
  | x :: t => final c o (fst (step c o s x)) t
  end.

(* ---------------------------------------------------------------- the toy oracle of the harness
   (harness/boot_harness.cpp: toy_upd, mem0, checksum32 overloads, public_checksum32) *)
Definition toy_upd (crc b : N) : N := (crc * 31 + b + 7) mod two32.
Definition toy_fold (b : list N) (crc : N) : N := fold_left toy_upd b crc.
Definition toy_addr (asz : nat) (a : N) : N :=
  toy_fold (map (fun i => (a / 256 ^ N.of_nat i) mod 256) (seq 0 asz)) 65535.
Definition toy_oracle (asz : nat) : oracle :=
  mkoracle (fun a => (a * 7 + a / 256) mod 256) (toy_addr asz) toy_fold
           (fun d => if 65536 <? len d then 0 else toy_fold d 0) [71; 17].
