(* Proofs for C39: the bootloader only touches white-listed memory.
   Part 1: arithmetic, the white list, buffer invariants.
   Part 2: no over-read / assert (every step output is not SFault) and every handler call range lies
           inside one white-listed region, for all operation sequences (invariant [inv]).
   Part 3: simulation of the model by the specification monitor inside the environment [env_run]. *)
From BT Require Import Base.ListX Boot.BootModel Boot.BootSpec.
From Coq Require Import Lia ZifyBool.
Local Open Scope N_scope.

Definition wf_cfg (c : cfg) : Prop := 0 < page c /\ page c < aspace c.

(* ------------------------------------------------------------------ arithmetic *)
Lemma aspace_pos c : 0 < aspace c.
Proof. unfold aspace. apply N.neq_0_lt_0. apply N.pow_nonzero. lia. Qed.

Lemma amod_lt c x : amod c x < aspace c.
Proof. unfold amod. apply N.mod_lt. pose proof (aspace_pos c). lia. Qed.

Lemma amod_small c x : x < aspace c -> amod c x = x.
Proof. intros. unfold amod. apply N.mod_small. assumption. Qed.

Lemma mod_once x m : m <= x -> x < 2 * m -> x mod m = x - m.
Proof.
  intros H1 H2. symmetry. apply (N.mod_unique x m 1 (x - m)); lia.
Qed.

Lemma aspace_256 c : aspace c = 256 ^ N.of_nat (asz c).
Proof.
  unfold aspace. replace 256 with (2 ^ 8) by reflexivity. rewrite <- N.pow_mul_r. reflexivity.
Qed.

Lemma read_le_S v off n :
  read_le v off (S n) =
  match nth_error v off, read_le v (S off) n with
  | Some b, Some r => Some (b mod 256 + 256 * r)
  | _, _ => None
  end.
Proof. reflexivity. Qed.

Lemma read_le_lt v n : forall off r, read_le v off n = Some r -> r < 256 ^ N.of_nat n.
Proof.
  induction n as [|n IH]; intros off r H.
  - inversion H. cbn. lia.
  - rewrite read_le_S in H. destruct (nth_error v off) as [b|]; [|discriminate].
    destruct (read_le v (S off) n) as [r'|] eqn:E; [|discriminate].
    assert (r = b mod 256 + 256 * r') by congruence. subst r. clear H. apply IH in E.
    rewrite Nat2N.inj_succ, N.pow_succ_r'.
    assert (Hb : b mod 256 < 256) by (apply N.mod_lt; lia).
    remember (256 ^ N.of_nat n) as X. remember (b mod 256) as y. clear - E Hb. lia.
Qed.

Lemma read_address_lt c v off r : read_address c v off = Some r -> r < aspace c.
Proof. unfold read_address. intros H. apply read_le_lt in H. rewrite aspace_256. assumption. Qed.

Lemma read_le_some v n : forall off, (off + n <= length v)%nat -> exists r, read_le v off n = Some r.
Proof.
  induction n as [|n IH]; intros off H.
  - eexists; reflexivity.
  - rewrite read_le_S. destruct (nth_error v off) as [b|] eqn:E.
    + destruct (IH (S off)) as [r Hr]; [lia|]. rewrite Hr. eexists; reflexivity.
    + apply nth_error_None in E. lia.
Qed.

Lemma read_address_some c v off : (off + asz c <= length v)%nat -> exists r, read_address c v off = Some r.
Proof. apply read_le_some. Qed.

(* ------------------------------------------------------------------ white list *)
Lemma acceptable_in_region rs s e a n :
  acceptable rs s e = true -> s <= a -> a + n <= e -> in_region rs a n = true.
Proof.
  unfold in_region. intros H H1 H2. apply orb_true_iff. right.
  induction rs as [|[rs0 re0] t IH]; cbn in *; [discriminate|].
  apply orb_true_iff in H. apply orb_true_iff. destruct H as [H|H].
  - left. lia.
  - right. auto.
Qed.

(* the page starting at a lies inside the address space and inside one region *)
Definition pagein (c : cfg) (a : N) : Prop :=
  a + page c < aspace c /\ acceptable (regions c) a (a + page c) = true.

Lemma page_acceptable_in c a :
  wf_cfg c -> a < aspace c -> page_acceptable c a = true -> pagein c (a - a mod page c).
Proof.
  intros [Hp Hlt] Ha H. unfold page_acceptable in H. cbv zeta in H.
  apply andb_true_iff in H. destruct H as [H1 H2].
  assert (Hm : a - a mod page c <= a) by apply N.le_sub_l.
  set (ps := a - a mod page c) in *. clearbody ps.
  assert (ps + page c < aspace c) as Hs.
  { destruct (N.lt_ge_cases (ps + page c) (aspace c)) as [|Hge]; [assumption|exfalso].
    unfold amod in H1. rewrite mod_once in H1 by lia. lia. }
  split; [assumption|]. rewrite amod_small in H2 by assumption. assumption.
Qed.

Lemma pagein_region c a x n : pagein c a -> a <= x -> x + n <= a + page c -> in_region (regions c) x n = true.
Proof. intros [_ H] H1 H2. eapply acceptable_in_region; eauto. Qed.

(* ------------------------------------------------------------------ lists *)
Lemma range_length c a n : length (range c a n) = n.
Proof. unfold range. rewrite map_length, seq_length. reflexivity. Qed.

Lemma read_range_length c o m a n : length (read_range c o m a n) = n.
Proof. unfold read_range. rewrite map_length. apply range_length. Qed.

Lemma len_app x y : len (x ++ y) = len x + len y.
Proof. unfold len. rewrite app_length. lia. Qed.

Lemma len_read_range c o m a n : len (read_range c o m a n) = N.of_nat n.
Proof. unfold len. rewrite read_range_length. reflexivity. Qed.

(* ------------------------------------------------------------------ buffer invariant *)
(* a buffer that is being filled: below the page end, data length = ptr_, page white-listed *)
Definition binv (c : cfg) (b : fbuf) : Prop :=
  bst b = Filling -> bptr b < page c /\ length (bdata b) = N.to_nat (bptr b) /\ pagein c (baddr b).

Lemma binv_free c b : binv c (bfree b).
Proof. unfold binv, bfree. cbn. discriminate. Qed.

Lemma binv_init c : binv c binit.
Proof. unfold binv, binit. cbn. discriminate. Qed.

Lemma set_start_spec c o m b a crc cons b' cl :
  wf_cfg c -> a < aspace c -> page_acceptable c a = true ->
  set_start c o m b a crc cons = Some (b', cl) ->
  binv c b' /\ forallb (call_ok c) cl = true /\ bst b' = Filling /\ bptr b' < page c.
Proof.
  intros Hwf Ha Hacc H. unfold set_start in H. destruct (bst b); try discriminate.
  inversion H; subst; clear H.
  pose proof (page_acceptable_in c a Hwf Ha Hacc) as Hin.
  destruct Hwf as [Hp Hlt].
  assert (a mod page c < page c) by (apply N.mod_lt; lia).
  repeat split; cbn.
  - assumption.
  - rewrite read_range_length. reflexivity.
  - apply Hin.
  - apply Hin.
  - rewrite andb_true_r. rewrite len_read_range, N2Nat.id.
    eapply pagein_region; eauto; lia.
  - assumption.
Qed.

Lemma set_start_some c o m b a crc cons : bst b = Idle -> exists r, set_start c o m b a crc cons = Some r.
Proof. intros H. unfold set_start. rewrite H. eexists; reflexivity. Qed.

(* flush of a buffer whose ptr_ may have reached the page end *)
Lemma flush_spec c o m b ok b' m' cl :
  0 < page c ->
  bptr b <= page c -> length (bdata b) = N.to_nat (bptr b) -> pagein c (baddr b) ->
  flush c o m b = (ok, b', m', cl) ->
  binv c b' /\ forallb (call_ok c) cl = true /\
  (bst b = Filling -> bptr b <> 0 -> ok = true /\ bst b' = Flashing) /\
  (ok = false -> b' = b).
Proof.
  intros Hp Hle Hlen Hin H. unfold flush in H.
  destruct (bst b) eqn:Est.
  - inversion H; subst. split; [unfold binv; congruence|]. repeat split; congruence.
  - destruct (bptr b =? 0) eqn:E0.
    + apply N.eqb_eq in E0. inversion H; subst.
      split; [|repeat split; congruence].
      unfold binv. intros _. split; [lia|]. split; assumption.
    + apply N.eqb_neq in E0. inversion H; subst; clear H.
      assert (Hra : amod c (baddr b + bptr b) = baddr b + bptr b).
      { apply amod_small. destruct Hin. lia. }
      split; [unfold binv; cbn; discriminate|].
      split; [|split; [intros _ _; split; reflexivity | discriminate]].
      destruct (page c =? bptr b) eqn:Ep; cbn [app forallb call_ok]; rewrite ?andb_true_r.
      * apply N.eqb_eq in Ep. rewrite app_nil_r. unfold len. rewrite Hlen, N2Nat.id.
        eapply pagein_region; eauto; lia.
      * apply N.eqb_neq in Ep. apply andb_true_iff. split.
        -- rewrite Hra, len_read_range, N2Nat.id. eapply pagein_region; eauto; lia.
        -- rewrite len_app, len_read_range, N2Nat.id. unfold len. rewrite Hlen, N2Nat.id.
           eapply pagein_region; eauto; lia.
  - inversion H; subst. split; [unfold binv; congruence|]. repeat split; congruence.
Qed.

Lemma write_data_spec c o m b v b' m' n cl :
  wf_cfg c -> binv c b -> v <> [] ->
  write_data c o m b v = Some (b', m', n, cl) ->
  binv c b' /\ forallb (call_ok c) cl = true /\ (1 <= n <= length v)%nat /\
  (bst b' = Filling \/ bst b' = Flashing) /\
  ((n < length v)%nat -> bst b' = Flashing).
Proof.
  intros [Hp Hlt] Hb Hv H. unfold write_data in H.
  destruct (bst b) eqn:Est; try discriminate.
  destruct (Hb Est) as (Hptr & Hlen & Hin).
  destruct (bptr b =? page c) eqn:E; [discriminate|].
  set (n0 := Nat.min (N.to_nat (page c - bptr b)) (length v)) in *.
  assert (Hn0 : (1 <= n0 <= length v)%nat).
  { destruct v; [contradiction|]. cbn [length] in *. unfold n0. cbn [length]. lia. }
  assert (Hn1 : bptr b + N.of_nat n0 <= page c) by (unfold n0; lia).
  cbn [bptr] in H.
  assert (Hlen1 : length (bdata b ++ firstn n0 v) = N.to_nat (bptr b + N.of_nat n0)).
  { rewrite app_length, firstn_length, Hlen. lia. }
  destruct (bptr b + N.of_nat n0 =? page c) eqn:E2.
  - destruct (flush c o m _) as [[[ok b2] m2] cl2] eqn:Ef.
    inversion H; subst; clear H.
    apply flush_spec in Ef; cbn [bptr bdata baddr bst]; try assumption; try lia.
    destruct Ef as (Hb2 & Hcl & Hfl & _).
    destruct Hfl as [_ Hfl]; [reflexivity| cbn; lia |].
    split; [assumption|]. split; [cbn [forallb call_ok]; assumption|].
    split; [lia|]. split; [right; assumption|]. intros _; assumption.
  - inversion H; subst; clear H.
    split.
    { unfold binv. cbn [bptr bdata baddr bst]. intros _. split; [lia|]. split; assumption. }
    split; [reflexivity|]. split; [lia|]. split; [left; reflexivity|].
    intros Hlt2. exfalso. unfold n0 in *. lia.
Qed.

Lemma write_data_some c o m b v :
  bst b = Filling -> bptr b < page c -> exists r, write_data c o m b v = Some r.
Proof.
  intros Hs Hp. unfold write_data. rewrite Hs.
  assert (bptr b =? page c = false) as -> by lia.
  cbn [bptr]. destruct (_ =? page c).
  - destruct (flush c o m _) as [[[? ?] ?] ?]. eexists; reflexivity.
  - eexists; reflexivity.
Qed.
