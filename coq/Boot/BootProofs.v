(* C39: main theorems (proved in BootBase / BootSafe / BootSim), the full statement of the data
   clause, its refutation witnesses and the non-vacuity examples used by Props/Properties_C39.v. *)
From BT Require Export Base.ListX Boot.BootModel Boot.BootSpec Boot.BootBase Boot.BootSafe Boot.BootSim.
Local Open Scope N_scope.

(* ---- unbounded theorems: every page size > 0, every region list, every address size, every handler
   oracle, every operation sequence of any length and byte content *)

(* no read beyond the written value, no assert of the library *)
Definition reads_only_written_bytes := no_overread.
(* every read_mem / start_flash / public_read_mem / public_checksum32 range inside one region *)
Definition touches_only_whitelisted := whitelist_only.

(* ---- the complete monitor (all clauses) *)
Definition monitor_accepts_full : Prop :=
  forall (c : cfg) (o : oracle) (ops : list op), wf_cfg c -> monitor c (run c o init ops) = None.

(* a configuration of the tie: 16 byte pages, regions [0x1000,0x1040) and [0x2000,0x2030), 64 bit addresses *)
Definition cfgA : cfg := mkcfg 16 8 [(4096, 4160); (8192, 8240)].
Definition le8 (a : N) : list N := [a mod 256; (a / 256) mod 256; 0; 0; 0; 0; 0; 0].
Definition bytes20 : list N := [1; 2; 3; 4; 5; 6; 7; 8; 9; 10; 11; 12; 13; 14; 15; 16; 17; 18; 19; 20].

Lemma wf_cfgA : wf_cfg cfgA.
Proof. unfold wf_cfg. cbn. split; reflexivity. Qed.

(* Start Flash at 0x2010, a page and 4 bytes, the handler reports the end of the flash operation, a new
   Start Flash at 0x1038 before the progress notification was sent: the late progress notification
   frees the buffer of the new session and reports the new session's check sum *)
Definition w_restart : list op :=
  [WCp (3 :: le8 8208); WData bytes20; EndFlash; WCp (3 :: le8 4152); Out; Out].

(* a Read Request on the progress characteristic while a page is collected *)
Definition w_read_progress : list op := [WCp (3 :: le8 4096); WData [1; 2; 3; 4; 5]; Rd ChProg].

Lemma restart_while_flashing :
  monitor cfgA (run cfgA (toy_oracle 8) init w_restart) = Some (5%nat, t_progress).
Proof. vm_compute. reflexivity. Qed.

Lemma read_progress_frees_buffer :
  monitor cfgA (run cfgA (toy_oracle 8) init w_read_progress) = Some (2%nat, t_progress).
Proof. vm_compute. reflexivity. Qed.

Lemma monitor_accepts_refuted : ~ monitor_accepts_full.
Proof.
  intros H. specialize (H cfgA (toy_oracle 8) w_restart wf_cfgA).
  rewrite restart_while_flashing in H. discriminate.
Qed.

(* an environment-respecting history: two and a half pages flashed in one session with progress
   reports, Flush, Stop Flash, a Read procedure over a whole region, Get CRC, malformed writes *)
Definition good_history : list op :=
  [WCp (3 :: le8 4100); WData bytes20; EndFlash; Out; Out; WData bytes20; WCp [5]; Out; EndFlash; Out;
   EndFlash; Out; WCp [4]; Out;
   WCp (8 :: le8 8192 ++ le8 8232); Run; Out; Hvc; Run; Out; Hvc; Run; Out; Rd ChData;
   WCp (1 :: le8 4096 ++ le8 4160); Out; WCp [9]; WCp []; WData [1]; WCp [8]].

Lemma good_history_in_env : env_run cfgA (toy_oracle 8) init good_history = true.
Proof. vm_compute. reflexivity. Qed.

(* the flash operations of that history: three pages at 0x1000, 0x1010, 0x1020 *)
Lemma good_history_flashes :
  map (fun x => match x with CSf a _ => a | _ => 0 end)
      (filter is_sf (flat_map (fun xr => ocalls (snd xr)) (run cfgA (toy_oracle 8) init good_history)))
  = [4096; 4112; 4128].
Proof. vm_compute. reflexivity. Qed.
