(* Specification monitor for C39 (the bootloader only touches white-listed memory).
   It observes operations and outputs (status + logged handler calls) only, never model state.

   Clauses (violation tags):
     overread                  the operation faulted: bytes beyond the written value were read
                               (or an assert of the library fired)
     range_outside_whitelist   a read_mem / start_flash / public_read_mem / public_checksum32 call
                               whose non-empty address range does not lie inside ONE white-listed region
     flashed_bytes             a flashed page is not: the bytes the client sent, at the addresses the
                               client announced (Start Flash address + number of bytes sent so far),
                               completed by the bytes read back from memory; or sent bytes were
                               check-summed out of order / dropped although the write was accepted
     crc_chain                 the check sum chain is broken: it starts with checksum32( start address ),
                               every chunk continues from the previous result; the Start Flash / Flush
                               responses carry the current chain value and page number
     data_outside_session      data was accepted / flashed although no Start Flash procedure is active
                               (flash mode ends with every other control point procedure except Flush)
     progress_report           a progress report does not carry check sum and consecutive number of
                               the oldest flashed page not yet reported
     shape                     output of the wrong kind

   The abstract object is the client's view of a flash session: the next address [wp], the bytes
   expected in the page being collected [expd] (read back + sent, with their addresses), the check sum
   chain, the page number, and the flashed pages not yet reported. *)
From BT Require Import Base.ListX Boot.BootModel.
Local Open Scope N_scope.

Record mon := mkm {
  wp : option N;               (* Some a: flash session active, a = address of the next byte sent *)
  expd : list (N * N);         (* (address, byte) expected in the page being collected, in order *)
  chain : N;                   (* current value of the check sum chain *)
  kpage : N;                   (* consecutive number of the page being collected *)
  done : list (N * N)          (* (check sum, consecutive number) of flashed pages not yet reported *)
}.

Definition minit : mon := mkm None [] 0 0 [].

Inductive verdict := Ok | Bad (tag : nat).
Definition t_overread := 1%nat.
Definition t_range := 2%nat.
Definition t_flashed := 3%nat.
Definition t_crc := 4%nat.
Definition t_outside := 5%nat.
Definition t_progress := 6%nat.
Definition t_shape := 7%nat.

(* ---- clause range_outside_whitelist (stateless) *)
Definition in_region (rs : list (N * N)) (a n : N) : bool :=
  (n =? 0) || existsb (fun r => (fst r <=? a) && (a + n <=? snd r)) rs.

Definition call_ok (c : cfg) (x : call) : bool :=
  match x with
  | CRm a b => in_region (regions c) a (len b)
  | CSf a b => in_region (regions c) a (len b)
  | CPr a n _ => in_region (regions c) a n
  | CPc a n _ => in_region (regions c) a n
  | _ => true
  end.

(* ---- helpers *)
Fixpoint eqb_list (x y : list N) : bool :=
  match x, y with
  | [], [] => true
  | a :: s, b :: t => (a =? b) && eqb_list s t
  | _, _ => false
  end.

Fixpoint eqb_plist (x y : list (N * N)) : bool :=
  match x, y with
  | [], [] => true
  | (a1, a2) :: s, (b1, b2) :: t => (a1 =? b1) && (a2 =? b2) && eqb_plist s t
  | _, _ => false
  end.

(* the client's addresses a, a+1, ...: plain arithmetic *)
Definition addrs (a : N) (n : nat) : list N := map (fun i => a + N.of_nat i) (seq 0 n).
Definition placed (a : N) (b : list N) : list (N * N) := combine (addrs a (length b)) b.

Definition is_rm (x : call) : bool := match x with CRm _ _ => true | _ => false end.
Definition is_sf (x : call) : bool := match x with CSf _ _ => true | _ => false end.

Definition end_session (m : mon) : mon := mkm None (expd m) (chain m) (kpage m) (done m).

Inductive res := RBad (tag : nat) | ROk (m : mon) (rest : list N).

(* one logged call inside a flash session. [indata]: inside a write to the data characteristic,
   [rest]: the bytes of the written value not yet check-summed *)
Definition do_call (c : cfg) (indata : bool) (m : mon) (rest : list N) (x : call) : res :=
  match x with
  | CCk b old r =>
      match wp m with
      | Some a =>
          if negb indata then RBad t_shape
          else if negb (eqb_list (firstn (length b) rest) b) then RBad t_flashed
          else if negb (old =? chain m) then RBad t_crc
          else ROk (mkm (Some (a + len b)) (expd m ++ placed a b) r (kpage m) (done m)) (skipn (length b) rest)
      | None => RBad t_outside
      end
  | CSf a b =>
      match wp m with
      | Some _ =>
          if (len b =? page c) && eqb_plist (expd m) (placed a b)
          then ROk (mkm (wp m) [] (chain m) (kpage m) (done m ++ [(chain m, kpage m)])) rest
          else RBad t_flashed
      | None => RBad t_outside
      end
  | CRm a b =>
      match wp m with
      | Some _ =>
          ROk (mkm (wp m) (expd m ++ placed a b) (chain m)
                   (if indata then (kpage m + 1) mod 65536 else kpage m) (done m)) rest
      | None => RBad t_outside
      end
  | _ => RBad t_shape
  end.

Fixpoint do_calls (c : cfg) (indata : bool) (m : mon) (rest : list N) (cl : list call) : res :=
  match cl with
  | [] => ROk m rest
  | x :: t =>
      match do_call c indata m rest x with
      | RBad tag => RBad tag
      | ROk m' rest' => do_calls c indata m' rest' t
      end
  end.

Definition is_none (A : Type) (o : option A) : bool := match o with None => true | _ => false end.
Arguments is_none {A} o.

(* a write to the control point; [req]: Write Request (the status is visible) *)
Definition cp_step (c : cfg) (m : mon) (v : list N) (r : out) (req : bool) : verdict * mon :=
  match v with
  | [] => (Ok, m)
  | opc0 :: _ =>
      let opc := opc0 mod 256 in
      if opc =? 3 then
        let accepted := match ost r with SOk => true | SNone => existsb is_rm (ocalls r) | _ => false end in
        if accepted then
          match read_address c v 1, ocalls r with
          | Some a, CCs a' r0 :: cl =>
              if a' =? a then
                match do_calls c false (mkm (Some a) [] r0 0 (done m)) [] cl with
                | RBad tag => (Bad tag, m)
                | ROk m' _ => (Ok, m')
                end
              else (Bad t_crc, m)
          | _, _ => (Bad t_shape, m)
          end
        else (Ok, end_session m)
      else if opc =? 5 then
        let accepted := match ost r with SOk => true | SNone => existsb is_sf (ocalls r) | _ => false end in
        if accepted then
          match do_calls c false m [] (ocalls r) with
          | RBad tag => (Bad tag, m)
          | ROk m' _ => (Ok, m')
          end
        else (Ok, end_session m)
      else if opc <=? 8 then (Ok, end_session m)
      else (Ok, m)
  end.

Definition data_step (c : cfg) (m : mon) (v : list N) (r : out) (req : bool) : verdict * mon :=
  match wp m with
  | None =>
      match ocalls r, ost r with
      | [], SErr e => if req && (e =? e_no_operation) then (Ok, m) else (Bad t_outside, m)
      | [], SNone => if req then (Bad t_outside, m) else (Ok, m)
      | _, _ => (Bad t_outside, m)
      end
  | Some _ =>
      match do_calls c true m v (ocalls r) with
      | RBad tag => (Bad tag, m)
      | ROk m' rest =>
          match ost r, rest with
          | SOk, _ :: _ => (Bad t_flashed, m)      (* accepted, but bytes were dropped *)
          | SOk, [] => (Ok, m')
          | SErr _, _ => (Ok, m')
          | SNone, _ => if req then (Bad t_shape, m) else (Ok, m')
          | _, _ => (Bad t_shape, m)
          end
      end
  end.

Definition progress_step (m : mon) (b : list N) : verdict * mon :=
  match done m with
  | (crc, k) :: t =>
      if eqb_list (firstn 6 b) (le32 crc ++ le16 k) && (length b =? 7)%nat
      then (Ok, mkm (wp m) (expd m) (chain m) (kpage m) t)
      else (Bad t_progress, m)
  | [] => (Bad t_progress, m)
  end.

Definition cp_ntf_step (m : mon) (b : list N) : verdict * mon :=
  match wp m, b with
  | Some _, x :: rest =>
      if x =? 3 then
        if eqb_list (skipn 1 rest) (le32 (chain m)) then (Ok, m) else (Bad t_crc, m)
      else if x =? 5 then
        if eqb_list rest (le32 (chain m) ++ le16 (kpage m)) then (Ok, m) else (Bad t_crc, m)
      else (Ok, m)
  | _, _ => (Ok, m)
  end.

Definition mstep (c : cfg) (m : mon) (x : op) (r : out) : verdict * mon :=
  match ost r with
  | SFault => (Bad t_overread, m)
  | _ =>
    if negb (forallb (call_ok c) (ocalls r)) then (Bad t_range, m)
    else
      match x with
      | WCp v => cp_step c m v r true
      | WCpCmd v => cp_step c m v r false
      | WData v => data_step c m v r true
      | WDataCmd v => data_step c m v r false
      | EndFlash | Run | Hvc | SetErr _ =>
          match ost r with SNone => (Ok, m) | _ => (Bad t_shape, m) end
      | Out =>
          match ost r with
          | SNone => (Ok, m)
          | SNtf ChProg b => progress_step m b
          | SNtf ChCp b => cp_ntf_step m b
          | SInd ChData _ => (Ok, m)
          | _ => (Bad t_shape, m)
          end
      | Rd ch =>
          match ost r, ch with
          | SVal b, ChProg => progress_step m b
          | SVal _, _ => (Ok, m)
          | _, _ => (Bad t_shape, m)
          end
      end
  end.

Fixpoint monitor_from (c : cfg) (m : mon) (pos : nat) (tr : list (op * out)) : option (nat * nat) :=
  match tr with
  | [] => None
  | (x, r) :: t =>
      match mstep c m x r with
      | (Ok, m') => monitor_from c m' (S pos) t
      | (Bad tag, _) => Some (pos, tag)
      end
  end.

Definition monitor (c : cfg) (tr : list (op * out)) : option (nat * nat) := monitor_from c minit O tr.
