(* Specification monitor for C40 (cycling speed and cadence control point never deadlocks).
   It observes operations and outputs only. Its state is the abstract object of the property:
   the procedure (opcode) that was accepted and still awaits its response indication.

   Clauses (violation tags):
     busy_idle          'procedure already in progress' (0xFE) although no accepted procedure awaits
                        its response (this is the deadlock)
     accepted_busy      a procedure was accepted while another one still awaits its response
     rejected_idle      a well-formed request was rejected although nothing is in progress and the
                        client is subscribed
     response_opcode    a response does not carry response-code 16 and the request's opcode
     response_unsolicited  a response without an accepted procedure (and not caused by an
                        application call outside a Set Cumulative Value procedure)
     response_missing   the response of an accepted procedure is not sent although it was requested,
                        the client is subscribed and no indication is outstanding
     shape              output of the wrong kind / fault
   A procedure stops awaiting its response when the response is sent, when the connection ends, or
   when its queued response is consumed while the client is not subscribed. *)
From BT Require Import Base.ListX Csc.CscModel.
Local Open Scope N_scope.

Record mon := mkm {
  awaiting : option N;     (* opcode of the accepted procedure awaiting its response *)
  requested : bool;        (* its response indication has been requested *)
  mcccd : bool;            (* client subscribed for indications of the control point *)
  mout : bool;             (* an indication is outstanding (sent, not yet confirmed) *)
  spurious : bool          (* the application requested an indication outside a procedure *)
}.

Definition minit : mon := mkm None false false false false.

Inductive verdict := Ok | Bad (tag : nat).
Definition t_busy_idle := 1%nat.
Definition t_accepted_busy := 2%nat.
Definition t_rejected_idle := 3%nat.
Definition t_response_opcode := 4%nat.
Definition t_response_unsolicited := 5%nat.
Definition t_response_missing := 6%nat.
Definition t_shape := 7%nat.

(* a well-formed control point request (CSC service specification) *)
Definition wellformed (b : list N) : bool :=
  match b with
  | [] => false
  | o :: _ => if o =? 1 then len b =? 5 else if o =? 4 then len b =? 1 else if o =? 3 then len b =? 2 else true
  end.

Definition is_none (A : Type) (o : option A) : bool := match o with None => true | _ => false end.
Arguments is_none {A} o.

Definition accept (m : mon) (b : list N) : mon :=
  let o := nth 0 b 0 in
  mkm (Some o) (negb (o =? 1)) (mcccd m) (mout m) (spurious m).

Definition mstep (m : mon) (o : op) (r : out) : verdict * mon :=
  match o, r with
  | Cccd v, OOk => (Ok, mkm (awaiting m) (requested m) (negb (N.land v 2 =? 0)) (mout m) (spurious m))
  | Write b, OOk =>
      if is_none (awaiting m) then (Ok, accept m b) else (Bad t_accepted_busy, m)
  | Write b, OErr c =>
      if (c =? 254) && is_none (awaiting m) then (Bad t_busy_idle, m)
      else if is_none (awaiting m) && mcccd m && wellformed b then (Bad t_rejected_idle, m)
      else (Ok, m)
  | WriteCmd b, ONone =>
      (* no response to look at: by the specification it is accepted exactly when it could be *)
      (Ok, if is_none (awaiting m) && mcccd m && wellformed b then accept m b else m)
  | Read, OOk => (Ok, m)
  | Read, OErr _ => (Ok, m)
  | Confirm, ONone =>
      (Ok, match awaiting m with
           | Some _ => mkm (awaiting m) true (mcccd m) (mout m) (spurious m)
           | None => mkm None false (mcccd m) (mout m) true
           end)
  | Out n, OInd b =>
      match awaiting m with
      | Some o =>
          match b with
          | 16 :: o' :: _ => if o' =? o then (Ok, mkm None false (mcccd m) true (spurious m))
                             else (Bad t_response_opcode, m)
          | _ => (Bad t_response_opcode, m)
          end
      | None => if spurious m then (Ok, mkm None false (mcccd m) true false) else (Bad t_response_unsolicited, m)
      end
  | Out n, ONone =>
      match awaiting m with
      | Some _ =>
          if requested m && negb (mout m) && (6 <=? n) then
            if mcccd m then (Bad t_response_missing, m)
            else (* the queued response is consumed while the client is not subscribed *)
                 (Ok, mkm None false (mcccd m) (mout m) (spurious m))
          else (Ok, m)
      | None => (Ok, m)
      end
  | Hvc, ONone => (Ok, mkm (awaiting m) (requested m) (mcccd m) false (spurious m))
  | HvcBad, OResp _ => (Ok, m)
  | Disc, ONone => (Ok, mkm None false false false false)
  | Wheel, ONum _ => (Ok, m)
  | _, _ => (Bad t_shape, m)
  end.

Fixpoint monitor_from (m : mon) (pos : nat) (tr : list (op * out)) : option (nat * nat) :=
  match tr with
  | [] => None
  | (o, r) :: t =>
      match mstep m o r with
      | (Ok, m') => monitor_from m' (S pos) t
      | (Bad tag, _) => Some (pos, tag)
      end
  end.

Definition monitor (tr : list (op * out)) : option (nat * nat) := monitor_from minit O tr.
