(* Executable model of the cycling speed and cadence control point (bluetoe/services/csc.hpp:
   control_point_handler, sensor_position_handler / no_sensor_position_handler) together with the
   server glue it runs in for one connection: the CCCD of the control point, the pending /
   outstanding indication of the connection's notification queue, server::l2cap_output,
   mixin_write_indication_control_point_handler (characteristic_value.hpp).
   Definitions only. Transcribes /repo after the fix "malformed CSC control point request blocks
   the control point forever" (start_procedure after validation). *)
From BT Require Import Base.ListX.
Local Open Scope N_scope.

(* Some l : sensor_position_handler< l >  (two or more locations);  None : no_sensor_position_handler *)
Record cfg := mkcfg { positions : option (list N) }.

Record state := mk {
  in_progress : bool;      (* procedure_in_progress_ (server wide!) *)
  opcode : N;              (* current_opcode_ *)
  cur_pos : N; req_pos : N;
  wheel : N;               (* the user handler's cumulative wheel revolutions *)
  cccd : N;                (* the connection's 2 CCCD bits of the control point *)
  pending : bool;          (* indication of the control point queued in the connection's queue *)
  outstanding : bool       (* outstanding_confirmation_index_ <> none *)
}.

Definition first_pos (c : cfg) : N := match positions c with Some (p :: _) => p | _ => 0 end.
Definition init (c : cfg) : state := mk false 0 (first_pos c) (first_pos c) 0 0 false false.

Inductive op :=
| Cccd (v : N)             (* Write Request to the control point's CCCD *)
| Write (b : list N)       (* Write Request to the control point *)
| WriteCmd (b : list N)    (* Write Command *)
| Read                     (* Read Request on the control point value *)
| Confirm                  (* application: confirm_cumulative_wheel_revolutions() -> indicate<control point>() *)
| Out (n : N)              (* link layer polls l2cap_output with a buffer of n bytes *)
| Hvc | HvcBad             (* Handle Value Confirmation of length 1 / 2 *)
| Disc                     (* disconnect; a new connection (fresh connection data) follows *)
| Wheel.                   (* observe the handler's wheel value *)

Inductive out := OOk | OErr (c : N) | ONone | OInd (b : list N) | ONum (n : N) | OResp (b : list N) | OFault.

Definition le32 (b : list N) : N :=
  nth 0 b 0 + 256 * nth 1 b 0 + 65536 * nth 2 b 0 + 16777216 * nth 3 b 0.

Definition start (s : state) (o : N) : state :=
  mk true o (cur_pos s) (req_pos s) (wheel s) (cccd s) (pending s) (outstanding s).

Definition len (b : list N) : N := N.of_nat (length b).

(* control_point_handler::csc_write_control_point -> (error code, indicate?, state) *)
Definition csc_write (c : cfg) (s : state) (b : list N) : N * bool * state :=
  match b with
  | [] => (1, false, s)                                   (* invalid_handle *)
  | o :: v =>
      if in_progress s then (254, false, s)               (* procedure_already_in_progress *)
      else if o =? 1 then
        if negb (len b =? 5) then (4, false, s)           (* invalid_pdu *)
        else let s1 := start s o in
             (0, false, mk (in_progress s1) (opcode s1) (cur_pos s1) (req_pos s1) (le32 v) (cccd s1) (pending s1) (outstanding s1))
      else if o =? 4 then
        if negb (len b =? 1) then (4, false, s) else (0, true, start s o)
      else if o =? 3 then
        if negb (len b =? 2) then (4, false, s)
        else let s1 := start s o in
             (0, true, match positions c with
                       | Some _ => mk (in_progress s1) (opcode s1) (cur_pos s1) (nth 0 v 0) (wheel s1) (cccd s1) (pending s1) (outstanding s1)
                       | None => s1
                       end)
      else (0, true, start s o)
  end.

Definition set_pending (s : state) (p : bool) : state :=
  mk (in_progress s) (opcode s) (cur_pos s) (req_pos s) (wheel s) (cccd s) p (outstanding s).

(* mixin_write_indication_control_point_handler::call_write_handler (offset 0) *)
Definition write_handler (c : cfg) (s : state) (b : list N) : N * state :=
  if N.land (cccd s) 2 =? 0 then (253, s)                 (* cccd_improperly_configured *)
  else let '(code, ind, s1) := csc_write c s b in
       (code, if ind then set_pending s1 true else s1).

Fixpoint mem (x : N) (l : list N) : bool :=
  match l with [] => false | y :: t => (x =? y) || mem x t end.

(* control_point_handler::csc_read_control_point( read_size, ... ) -> response bytes (None = assert) *)
Definition csc_read (c : cfg) (s : state) (read_size : N) : option (list N) * state :=
  let s0 := mk false (opcode s) (cur_pos s) (req_pos s) (wheel s) (cccd s) (pending s) (outstanding s) in
  if read_size <? 3 then (None, s0)
  else if opcode s =? 1 then (Some [16; 1; 1], s0)
  else if opcode s =? 4 then
    match positions c with
    | Some l => (Some ([16; 4; 1] ++ firstn (N.to_nat (N.min (read_size - 3) (len l))) l), s0)
    | None => (Some [16; 4; 2], s0)
    end
  else if opcode s =? 3 then
    match positions c with
    | Some l => if mem (req_pos s) l
                then (Some [16; 3; 1], mk false (opcode s) (req_pos s) (req_pos s) (wheel s) (cccd s) (pending s) (outstanding s))
                else (Some [16; 3; 3], s0)
    | None => (Some [16; 3; 2], s0)
    end
  else (Some [16; opcode s; 2], s0).

Definition att_mtu : N := 23.

Definition step (c : cfg) (s : state) (o : op) : state * out :=
  match o with
  | Cccd v => (mk (in_progress s) (opcode s) (cur_pos s) (req_pos s) (wheel s) (N.land v 3) (pending s) (outstanding s), OOk)
  | Write b => let '(code, s1) := write_handler c s b in (s1, if code =? 0 then OOk else OErr code)
  | WriteCmd b => let '(code, s1) := write_handler c s b in (s1, ONone)
  | Read => match csc_read c s (att_mtu - 1) with
            | (Some _, s1) => (s1, OOk)
            | (None, s1) => (s1, OFault)
            end
  | Confirm => (set_pending s true, ONone)
  | Out n0 =>
      (* out_size is clipped to the negotiated MTU (23: no MTU exchange in this model), then
         dequeue_indication_or_confirmation, the CCCD test, the read handler; an indication that is
         not sent does not stay outstanding (indication_confirmed() is called) *)
      let n := N.min n0 att_mtu in
      if pending s && negb (outstanding s) then
        let s1 := mk (in_progress s) (opcode s) (cur_pos s) (req_pos s) (wheel s) (cccd s) false true in
        if negb (N.land (cccd s) 2 =? 0) && (3 <=? n) then
          match csc_read c s1 (n - 3) with
          | (Some r, s2) => (s2, OInd r)
          | (None, s2) => (s2, OFault)
          end
        else (mk (in_progress s) (opcode s) (cur_pos s) (req_pos s) (wheel s) (cccd s) false false, ONone)
      else (s, ONone)
  | Hvc => (mk (in_progress s) (opcode s) (cur_pos s) (req_pos s) (wheel s) (cccd s) (pending s) false, ONone)
  | HvcBad => (s, OResp [1; 30; 0; 0; 4])
  | Disc => (mk (in_progress s) (opcode s) (cur_pos s) (req_pos s) (wheel s) 0 false false, ONone)
  | Wheel => (s, ONum (wheel s))
  end.

Fixpoint run (c : cfg) (s : state) (ops : list op) : list (op * out) :=
  match ops with
  | [] => []
  | o :: t => let '(s', r) := step c s o in (o, r) :: run c s' t
  end.
