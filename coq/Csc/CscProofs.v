(* Proofs for the CSC control point (C40): inside the stated environment every trace of the model
   is accepted by the specification monitor; outside it the model deadlocks (witnesses). *)
From BT Require Import Base.ListX Csc.CscModel Csc.CscSpec.
From Coq Require Import Lia ZifyBool.
Local Open Scope N_scope.

(* Environment assumptions, evaluated on the model state before each operation:
   - the link layer gives l2cap_output at least 6 bytes,
   - the client does not disconnect, unsubscribe or read the control point while a procedure awaits
     its response (or its response is queued),
   - the application calls confirm_cumulative_wheel_revolutions only for a Set Cumulative Value
     procedure that awaits its response. *)
Definition env_ok (s : state) (o : op) : bool :=
  match o with
  | Out n => 6 <=? n
  | Disc => negb (in_progress s)
  | Read => negb (in_progress s)
  | Cccd v => negb (N.land v 2 =? 0) || (negb (in_progress s) && negb (pending s))
  | Confirm => in_progress s && (opcode s =? 1)
  | _ => true
  end.

Fixpoint env_run (c : cfg) (s : state) (ops : list op) : bool :=
  match ops with
  | [] => true
  | o :: t => env_ok s o && env_run c (fst (step c s o)) t
  end.

Record Inv (s : state) (m : mon) : Prop := {
  i_await : awaiting m = if in_progress s then Some (opcode s) else None;
  i_cccd : mcccd m = negb (N.land (cccd s) 2 =? 0);
  i_out : mout m = outstanding s;
  i_req : in_progress s = true -> requested m = pending s;
  i_idle : in_progress s = false -> pending s = false;
  i_sub : in_progress s = true -> N.land (cccd s) 2 =? 0 = false;
  i_spur : spurious m = false
}.

Lemma inv_init c : Inv (init c) minit.
Proof. constructor; simpl; auto; discriminate. Qed.

Lemma csc_read_shape c s n : 3 <= n ->
  exists tl s', csc_read c s n = (Some (16 :: opcode s :: tl), s') /\
    in_progress s' = false /\ opcode s' = opcode s /\ cccd s' = cccd s /\
    pending s' = pending s /\ outstanding s' = outstanding s.
Proof.
  intros Hn. unfold csc_read.
  assert (n <? 3 = false) as -> by lia.
  destruct (opcode s =? 1) eqn:E1.
  { apply N.eqb_eq in E1. rewrite E1. eexists; eexists; split; [reflexivity|]. simpl; auto. }
  destruct (opcode s =? 4) eqn:E4.
  { apply N.eqb_eq in E4. rewrite E4. destruct (positions c); eexists; eexists; (split; [reflexivity|]); simpl; auto. }
  destruct (opcode s =? 3) eqn:E3.
  { apply N.eqb_eq in E3. rewrite E3. destruct (positions c) as [l|].
    - destruct (mem (req_pos s) l); eexists; eexists; (split; [reflexivity|]); simpl; auto.
    - eexists; eexists; (split; [reflexivity|]); simpl; auto. }
  eexists; eexists; split; [reflexivity|]. simpl; auto.
Qed.

(* what csc_write does, in terms of the specification's notion of a well-formed request *)
Lemma csc_write_spec c s b :
  in_progress s = false ->
  let '(code, ind, s1) := csc_write c s b in
  if wellformed b
  then code = 0 /\ in_progress s1 = true /\ opcode s1 = nth 0 b 0 /\ ind = negb (nth 0 b 0 =? 1) /\
       cccd s1 = cccd s /\ pending s1 = pending s /\ outstanding s1 = outstanding s
  else code <> 0 /\ code <> 254 /\ ind = false /\ s1 = s.
Proof.
  intros Hp. unfold csc_write, wellformed. destruct b as [|o v]; [simpl; repeat split; congruence|].
  rewrite Hp. cbn [nth].
  destruct (o =? 1) eqn:E1.
  { destruct (len (o :: v) =? 5) eqn:L; simpl; repeat split; auto; congruence. }
  destruct (o =? 4) eqn:E4.
  { destruct (len (o :: v) =? 1) eqn:L; simpl; repeat split; auto; congruence. }
  destruct (o =? 3) eqn:E3.
  { destruct (len (o :: v) =? 2) eqn:L; simpl; [|repeat split; auto; congruence].
    destruct (positions c); simpl; repeat split; auto. }
  simpl. repeat split; auto.
Qed.

Lemma csc_write_busy c s b : in_progress s = true ->
  csc_write c s b = (match b with [] => 1 | _ => 254 end, false, s).
Proof. intros H. unfold csc_write. destruct b; auto. rewrite H. reflexivity. Qed.

Definition would_accept (m : mon) (b : list N) : bool := is_none (awaiting m) && mcccd m && wellformed b.

(* the write path shared by Write Request and Write Command *)
Lemma write_handler_sim c s m b :
  Inv s m ->
  (fst (write_handler c s b) = 0 ->
     would_accept m b = true /\ is_none (awaiting m) = true /\ Inv (snd (write_handler c s b)) (accept m b)) /\
  (fst (write_handler c s b) <> 0 ->
     would_accept m b = false /\ snd (write_handler c s b) = s /\
     (fst (write_handler c s b) = 254 -> is_none (awaiting m) = false)).
Proof.
  intros I. destruct I as [IA IC IO IR II IS IP].
  unfold write_handler, would_accept.
  destruct (N.land (cccd s) 2 =? 0) eqn:EC.
  { simpl. split; [intros; discriminate|]. intros _. rewrite IC. simpl.
    rewrite Bool.andb_false_r. simpl. repeat split; auto. intros; discriminate. }
  destruct (in_progress s) eqn:EP.
  - rewrite csc_write_busy by auto. simpl. rewrite IA. simpl.
    split; [destruct b; intros; discriminate|]. intros _. repeat split; auto.
  - pose proof (csc_write_spec c s b EP) as W.
    destruct (csc_write c s b) as [[code ind] s1].
    rewrite IA, IC. simpl.
    destruct (wellformed b) eqn:WF.
    + destruct W as (-> & P1 & P2 & -> & P3 & P4 & P5). simpl.
      split; [|intros H; congruence]. intros _. split; [reflexivity|]. split; [reflexivity|].
      specialize (II eq_refl).
      destruct (nth 0 b 0 =? 1) eqn:E1; simpl;
        constructor; unfold set_pending, accept; simpl;
        rewrite ?P1, ?P2, ?P3, ?P4, ?P5, ?E1; auto; try congruence.
    + destruct W as (W1 & W2 & -> & ->). simpl.
      split; [intros; congruence|]. intros _. repeat split; auto. intros; congruence.
Qed.

Lemma step_sim c s m o :
  Inv s m -> env_ok s o = true ->
  exists m', mstep m o (snd (step c s o)) = (Ok, m') /\ Inv (fst (step c s o)) m'.
Proof.
  intros I E. pose proof I as I0. destruct I as [IA IC IO IR II IS IP].
  destruct o as [v|b|b| | |n| | | |]; cbn [step mstep env_ok] in *.
  - (* Cccd *)
    eexists; split; [reflexivity|].
    assert (HL : N.land (N.land v 3) 2 = N.land v 2) by (rewrite <- N.land_assoc; reflexivity).
    constructor; simpl; rewrite ?HL; auto.
    intros Hp. specialize (IS Hp).
    apply Bool.orb_true_iff in E. destruct E as [E|E].
    + apply Bool.negb_true_iff in E. auto.
    + rewrite Hp in E. discriminate.
  - (* Write *)
    destruct (write_handler_sim c s m b I0) as [W0 W1].
    destruct (write_handler c s b) as [code s1]. simpl in *.
    destruct (code =? 0) eqn:EC.
    + apply N.eqb_eq in EC. destruct (W0 EC) as (_ & N1 & I1). rewrite N1. eexists; split; [reflexivity|]. auto.
    + apply N.eqb_neq in EC. destruct (W1 EC) as (A1 & -> & A3). unfold would_accept in A1.
      destruct (code =? 254) eqn:E2.
      * apply N.eqb_eq in E2. rewrite (A3 E2). simpl. eexists; split; [reflexivity|]. auto.
      * simpl. rewrite A1. eexists; split; [reflexivity|]. auto.
  - (* WriteCmd *)
    destruct (write_handler_sim c s m b I0) as [W0 W1].
    destruct (write_handler c s b) as [code s1]. simpl in *.
    destruct (N.eq_dec code 0) as [EC|EC].
    + destruct (W0 EC) as (A1 & _ & I1). unfold would_accept in A1. rewrite A1. eexists; split; [reflexivity|]. auto.
    + destruct (W1 EC) as (A1 & -> & _). unfold would_accept in A1. rewrite A1. eexists; split; [reflexivity|]. auto.
  - (* Read *)
    apply Bool.negb_true_iff in E.
    destruct (csc_read_shape c s (att_mtu - 1) ltac:(unfold att_mtu; lia)) as (tl & s' & R & P1 & P2 & P3 & P4 & P5).
    rewrite R. simpl. eexists; split; [reflexivity|].
    constructor; rewrite ?P1, ?P2, ?P3, ?P4, ?P5; auto; try congruence.
    rewrite IA, E. reflexivity.
  - (* Confirm *)
    apply Bool.andb_true_iff in E. destruct E as [E1 E2].
    rewrite IA, E1. eexists; split; [reflexivity|].
    constructor; unfold set_pending; simpl; auto; try congruence. rewrite E1. auto.
  - (* Out *)
    apply N.leb_le in E. cbv zeta.
    assert (Hmin : 6 <= N.min n att_mtu) by (unfold att_mtu; lia).
    destruct (pending s && negb (outstanding s)) eqn:EP.
    + apply Bool.andb_true_iff in EP. destruct EP as [EP1 EP2]. apply Bool.negb_true_iff in EP2.
      assert (HP : in_progress s = true).
      { destruct (in_progress s) eqn:H; auto. rewrite (II eq_refl) in EP1. discriminate. }
      rewrite (IS HP). simpl. assert (3 <=? N.min n att_mtu = true) as -> by lia.
      set (s1 := mk (in_progress s) (opcode s) (cur_pos s) (req_pos s) (wheel s) (cccd s) false true).
      destruct (csc_read_shape c s1 (N.min n att_mtu - 3) ltac:(lia)) as (tl & s' & R & P1 & P2 & P3 & P4 & P5).
      rewrite R. simpl. rewrite IA, HP. simpl. rewrite N.eqb_refl.
      eexists; split; [reflexivity|].
      constructor; simpl; rewrite ?P1, ?P2, ?P3, ?P4, ?P5; simpl; auto; congruence.
    + simpl. rewrite IA.
      destruct (in_progress s) eqn:HP.
      * rewrite (IR eq_refl), IO.
        assert (6 <=? n = true) as -> by lia. rewrite Bool.andb_true_r. rewrite EP.
        eexists; split; [reflexivity|]. auto.
      * eexists; split; [reflexivity|]. auto.
  - (* Hvc *)
    eexists; split; [reflexivity|]. constructor; simpl; auto.
  - (* HvcBad *)
    eexists; split; [reflexivity|]. auto.
  - (* Disc *)
    apply Bool.negb_true_iff in E.
    eexists; split; [reflexivity|]. constructor; simpl; auto; try congruence. rewrite E. reflexivity.
  - (* Wheel *)
    eexists; split; [reflexivity|]. auto.
Qed.

Lemma monitor_from_accepts c : forall ops s m pos,
  Inv s m -> env_run c s ops = true -> monitor_from m pos (run c s ops) = None.
Proof.
  induction ops as [|o ops IH]; intros s m pos I E; simpl; auto.
  simpl in E. apply Bool.andb_true_iff in E. destruct E as [E1 E2].
  destruct (step_sim c s m o I E1) as (m' & M & I').
  destruct (step c s o) as [s' r]. simpl in *. rewrite M. apply IH; auto.
Qed.

Theorem monitor_accepts_in_environment c ops :
  env_run c (init c) ops = true -> monitor (run c (init c) ops) = None.
Proof. intros E. apply monitor_from_accepts; auto using inv_init. Qed.

(* the statement without environment assumptions *)
Definition never_deadlocks_full : Prop :=
  forall c ops, monitor (run c (init c) ops) = None.

Definition cfgA := mkcfg (Some [1; 2; 3]).
Definition w_disc := [Cccd 2; Write [4]; Disc; Cccd 2; Write [4]].
Definition w_unsub := [Cccd 2; Write [4]; Cccd 0; Out 23; Cccd 2; Write [4]].
Definition w_read := [Cccd 2; Write [4]; Read; Write [4]].
Definition w_unsent := [Confirm; Out 23; Cccd 2; Write [4]; Out 23].

Lemma deadlock_after_disconnect : monitor (run cfgA (init cfgA) w_disc) = Some (4%nat, t_busy_idle).
Proof. vm_compute. reflexivity. Qed.
Lemma deadlock_after_unsubscribe : monitor (run cfgA (init cfgA) w_unsub) = Some (5%nat, t_busy_idle).
Proof. vm_compute. reflexivity. Qed.
Lemma read_resets_procedure : monitor (run cfgA (init cfgA) w_read) = Some (3%nat, t_accepted_busy).
Proof. vm_compute. reflexivity. Qed.
(* since /repo f69efba an indication that could not be sent no longer stays outstanding: the
   former fourth witness (response blocked by an unsent indication) is accepted now *)
Lemma unsent_indication_no_longer_blocks : monitor (run cfgA (init cfgA) w_unsent) = None.
Proof. vm_compute. reflexivity. Qed.

(* the same defect (procedure state survives the disconnect) seen through a Write Command: the
   0xFE is not visible, the monitor notices the missing response of the silently refused procedure *)
Definition w_disc_wc := [Cccd 2; Write [5]; Disc; Cccd 2; WriteCmd [0]; Out 7].
Lemma deadlock_after_disconnect_write_command :
  monitor (run cfgA (init cfgA) w_disc_wc) = Some (5%nat, t_response_missing).
Proof. vm_compute. reflexivity. Qed.

(* "a Read Request resets the procedure" seen through a Write Command: the second procedure is
   accepted silently and the pending response then carries its opcode instead of the first one's *)
Definition w_read_wc := [Cccd 2; Write [3; 1]; Read; WriteCmd [255]; Out 64].
Lemma read_resets_procedure_write_command :
  monitor (run cfgA (init cfgA) w_read_wc) = Some (4%nat, t_response_opcode).
Proof. vm_compute. reflexivity. Qed.

Theorem never_deadlocks_refuted : ~ never_deadlocks_full.
Proof.
  intros H. specialize (H cfgA w_disc). rewrite deadlock_after_disconnect in H. discriminate.
Qed.
