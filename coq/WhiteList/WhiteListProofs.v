(* Proofs about the white list model (property C26): the software list of any capacity refines a
   duplicate-free bounded set for every operation sequence, and the radio-backed list does so
   whenever the radio's functions implement the set.

   Representation invariant of the software list (`inv`): free_size_ <= Size, the array has Size
   slots, and the first Size - free_size_ slots hold pairwise distinct addresses. The abstract set
   of a state is the content of these slots (`contains`). *)
From BT Require Import Base.ListX WhiteList.WhiteListModel WhiteList.WhiteListSpec.
From Coq Require Import Lia ZifyBool.
Local Open Scope nat_scope.
Set Implicit Arguments.

Local Notation d := default_addr.

(* ------------------------------------------------------------------ address equality *)
Lemma addr_eqb_eq a b : addr_eqb a b = true <-> a = b.
Proof.
  destruct a as [v r], b as [v' r']; unfold addr_eqb; cbn [aval arandom].
  rewrite andb_true_iff, N.eqb_eq, Bool.eqb_true_iff.
  split; [intros [-> ->]; reflexivity | intros H; inversion H; auto].
Qed.

Lemma addr_eqb_refl a : addr_eqb a a = true.
Proof. apply addr_eqb_eq; reflexivity. Qed.

Lemma addr_eqb_neq a b : addr_eqb a b = false <-> a <> b.
Proof.
  split.
  - intros H E. apply addr_eqb_eq in E. congruence.
  - intros H. destruct (addr_eqb a b) eqn:E; auto. apply addr_eqb_eq in E. contradiction.
Qed.

Lemma addr_eq_dec (a b : addr) : {a = b} + {a <> b}.
Proof.
  destruct (addr_eqb a b) eqn:E; [left; apply addr_eqb_eq; auto | right; apply addr_eqb_neq; auto].
Qed.

(* ------------------------------------------------------------------ the abstract set of a state *)
Definition holds (n : nat) (l : list addr) (a : addr) : Prop := exists j, j < n /\ nth j l d = a.
Definition distinct (n : nat) (l : list addr) : Prop :=
  forall i j, i < n -> j < n -> nth i l d = nth j l d -> i = j.

Definition contains (s : state) (a : addr) : Prop := holds (fill s) (slots s) a.

Definition inv (s : state) : Prop :=
  free s <= cap s /\ length (slots s) = cap s /\ distinct (fill s) (slots s).

(* ------------------------------------------------------------------ std::find *)
Lemma find_spec l a fuel : forall i,
  i <= find l a i fuel <= i + fuel /\
  (find l a i fuel < i + fuel -> nth (find l a i fuel) l d = a) /\
  (forall j, i <= j < find l a i fuel -> nth j l d <> a).
Proof.
  induction fuel as [|f IH]; intros i; cbn [find].
  - split; [lia|]. split; [lia|]. intros; lia.
  - destruct (addr_eqb (nth i l d) a) eqn:E.
    + apply addr_eqb_eq in E. split; [lia|]. split; [auto|]. intros; lia.
    + apply addr_eqb_neq in E. destruct (IH (S i)) as (H1 & H2 & H3).
      split; [lia|]. split; [intros; apply H2; lia|].
      intros j Hj. destruct (Nat.eq_dec j i); [subst; auto | apply H3; lia].
Qed.

Lemma find_lt_iff l a n : find l a 0 n < n <-> holds n l a.
Proof.
  destruct (find_spec l a n 0) as (H1 & H2 & H3). split.
  - intros H. exists (find l a 0 n). split; [auto | apply H2; lia].
  - intros (j & Hj & E). destruct (Nat.lt_ge_cases (find l a 0 n) n) as [|G]; auto.
    exfalso. apply (H3 j); auto. lia.
Qed.

Lemma is_in_iff s a : is_in_white_list s a = true <-> contains s a.
Proof.
  unfold is_in_white_list, contains. rewrite <- find_lt_iff.
  destruct (find_spec (slots s) a (fill s) 0) as (H1 & _).
  rewrite negb_true_iff, Nat.eqb_neq. lia.
Qed.

Lemma is_in_false_iff s a : is_in_white_list s a = false <-> ~ contains s a.
Proof. rewrite <- is_in_iff. destruct (is_in_white_list s a); split; congruence. Qed.

Lemma nth_upd (l : list addr) i j v :
  i < length l -> nth j (upd l i v) d = if j =? i then v else nth j l d.
Proof.
  intros H. destruct (j =? i) eqn:E.
  - apply Nat.eqb_eq in E; subst. apply nth_upd_eq; auto.
  - apply Nat.eqb_neq in E. apply nth_upd_neq; auto.
Qed.

(* ------------------------------------------------------------------ invariant *)
Lemma inv_end_ok s : inv s -> end_ok s = true.
Proof.
  intros (H1 & H2 & _). unfold end_ok, fill. apply andb_true_iff; split; apply Nat.leb_le; lia.
Qed.

Lemma inv_init n : inv (init n).
Proof.
  unfold inv, init, fill; cbn [free cap slots]. rewrite repeat_length.
  split; [lia|]. split; [reflexivity|]. intros i j Hi; lia.
Qed.

Lemma init_empty n a : ~ contains (init n) a.
Proof. unfold contains, holds, init, fill; cbn [free cap slots]. intros (j & Hj & _); lia. Qed.

(* clear_white_list *)
Lemma clear_law s : inv s ->
  inv (clear_white_list s) /\ fill (clear_white_list s) = 0 /\ forall a, ~ contains (clear_white_list s) a.
Proof.
  intros (H1 & H2 & H3). unfold inv, clear_white_list, contains, holds, fill; cbn [free cap slots].
  split; [split; [lia|]; split; [auto|]; intros i j Hi; lia|].
  split; [lia|]. intros a (j & Hj & _); lia.
Qed.

(* add_to_white_list *)
Lemma add_law s a : inv s ->
  exists s' r, add_to_white_list s a = Some (s', r) /\ inv s' /\
    cap s' = cap s /\ connf s' = connf s /\ scanf s' = scanf s /\
    ( (contains s a /\ s' = s /\ r = true) \/
      (~ contains s a /\ free s = 0 /\ s' = s /\ r = false) \/
      (~ contains s a /\ 0 < free s /\ r = true /\ free s' = free s - 1 /\
       forall b, contains s' b <-> b = a \/ contains s b) ).
Proof.
  intros Hinv. pose proof Hinv as (H1 & H2 & H3). unfold add_to_white_list.
  destruct (is_in_white_list s a) eqn:E.
  { apply is_in_iff in E. exists s, true. do 5 (split; [auto|]). left; auto. }
  apply is_in_false_iff in E.
  destruct (free s =? 0) eqn:F.
  { apply Nat.eqb_eq in F. exists s, false. do 5 (split; [auto|]). right; left; auto. }
  apply Nat.eqb_neq in F.
  assert (Hf : fill s < length (slots s)) by (unfold fill; lia).
  apply Nat.ltb_lt in Hf as Hf'. rewrite Hf'.
  eexists _, true. split; [reflexivity|].
  set (s' := mk _ _ _ _ _).
  assert (Hfill : fill s' = S (fill s)) by (unfold fill, s'; cbn [cap free]; unfold fill in Hf; lia).
  assert (Hnth : forall j, nth j (slots s') d = if j =? fill s then a else nth j (slots s) d)
    by (intros j; unfold s'; cbn [slots]; apply nth_upd; auto).
  split.
  { unfold inv. unfold s' at 1 2 3; cbn [cap free slots]. rewrite upd_length.
    split; [lia|]. split; [auto|]. rewrite Hfill. intros i j Hi Hj. rewrite !Hnth.
    destruct (Nat.eqb_spec i (fill s)) as [Ei|Ei], (Nat.eqb_spec j (fill s)) as [Ej|Ej]; intros Heq.
    - lia.
    - exfalso. apply E. exists j. split; [lia | auto].
    - exfalso. apply E. exists i. split; [lia | auto].
    - apply H3; auto; lia. }
  split; [reflexivity|]. split; [reflexivity|]. split; [reflexivity|].
  right; right. split; [auto|]. split; [lia|]. split; [reflexivity|]. split; [reflexivity|].
  intros b. unfold contains, holds. rewrite Hfill. split.
  - intros (j & Hj & Eb). rewrite Hnth in Eb. destruct (j =? fill s) eqn:Ej.
    + left; auto.
    + apply Nat.eqb_neq in Ej. right. exists j. split; [lia | auto].
  - intros [Eb | (j & Hj & Eb)].
    + exists (fill s). split; [lia|]. rewrite Hnth, Nat.eqb_refl. auto.
    + exists j. split; [lia|]. rewrite Hnth. destruct (j =? fill s) eqn:Ej; auto.
      apply Nat.eqb_eq in Ej. lia.
Qed.

(* remove_from_white_list *)
Lemma remove_law s a : inv s ->
  exists s' r, remove_from_white_list s a = (s', r) /\ inv s' /\
    cap s' = cap s /\ connf s' = connf s /\ scanf s' = scanf s /\
    (r = true <-> contains s a) /\
    fill s' + (if r then 1 else 0) = fill s /\
    (r = false -> s' = s) /\
    forall b, contains s' b <-> contains s b /\ b <> a.
Proof.
  intros Hinv. pose proof Hinv as (H1 & H2 & H3). unfold remove_from_white_list.
  destruct (find_spec (slots s) a (fill s) 0) as (F1 & F2 & F3).
  pose proof (find_lt_iff (slots s) a (fill s)) as F4.
  set (p := find (slots s) a 0 (fill s)) in *.
  destruct (p =? fill s) eqn:E.
  { apply Nat.eqb_eq in E. exists s, false.
    assert (Hn : ~ contains s a) by (unfold contains; rewrite <- F4; lia).
    do 5 (split; [auto|]).
    split; [split; [discriminate | intros; contradiction]|].
    split; [lia|]. split; [auto|].
    intros b. split; [intros Hb; split; [auto | intros ->; contradiction] | tauto]. }
  apply Nat.eqb_neq in E. assert (Hp : p < fill s) by lia.
  assert (Ha : nth p (slots s) d = a) by (apply F2; lia).
  assert (Hpl : p < length (slots s)) by (unfold fill in Hp; lia).
  eexists _, true. split; [reflexivity|].
  set (s' := mk _ _ _ _ _).
  assert (Hfill : fill s' + 1 = fill s) by (unfold fill, s' in *; cbn [cap free]; lia).
  assert (Hnth : forall j, nth j (slots s') d =
                           if j =? p then nth (fill s - 1) (slots s) d else nth j (slots s) d)
    by (intros j; unfold s'; cbn [slots]; apply nth_upd; auto).
  assert (Hc : contains s a) by (exists p; auto).
  split.
  { unfold inv. unfold s' at 1 2 3; cbn [cap free slots]. rewrite upd_length.
    split; [unfold fill in Hp; lia|]. split; [auto|].
    intros i j Hi Hj. rewrite !Hnth.
    destruct (Nat.eqb_spec i p) as [Ei|Ei], (Nat.eqb_spec j p) as [Ej|Ej]; intros Heq.
    - lia.
    - apply H3 in Heq; lia.
    - apply H3 in Heq; lia.
    - apply H3; auto; lia. }
  split; [reflexivity|]. split; [reflexivity|]. split; [reflexivity|].
  split; [tauto|]. split; [auto|]. split; [congruence|].
  intros b. unfold contains, holds. split.
  - intros (j & Hj & Eb). rewrite Hnth in Eb. destruct (j =? p) eqn:Ej.
    + apply Nat.eqb_eq in Ej. subst j. split.
      * exists (fill s - 1). split; [lia | auto].
      * intros Eab.
        assert (X : nth (fill s - 1) (slots s) d = nth p (slots s) d) by congruence.
        apply H3 in X; lia.
    + apply Nat.eqb_neq in Ej. split.
      * exists j. split; [lia | auto].
      * intros Eab.
        assert (X : nth j (slots s) d = nth p (slots s) d) by congruence.
        apply H3 in X; lia.
  - intros ((j & Hj & Eb) & Hne).
    assert (j <> p) by (intros ->; congruence).
    destruct (Nat.eq_dec j (fill s - 1)) as [Ej | Ej].
    + exists p. split; [lia|]. rewrite Hnth, Nat.eqb_refl. subst j; auto.
    + exists j. split; [lia|]. rewrite Hnth. destruct (j =? p) eqn:Ejp; auto.
      apply Nat.eqb_eq in Ejp; lia.
Qed.

(* the invariant is preserved by every operation *)
Lemma inv_step s o : inv s -> inv (fst (step s o)).
Proof.
  intros Hinv. pose proof (inv_end_ok Hinv) as Hok.
  destruct o; cbn [step]; rewrite ?Hok, ?orb_true_r; cbn [fst]; auto.
  - destruct (add_law a Hinv) as (s' & r & -> & Hi & _). auto.
  - destruct (remove_law a Hinv) as (s' & r & -> & Hi & _). auto.
  - apply clear_law; auto.
Qed.

Lemma inv_reachable n ops : inv (final (init n) ops).
Proof.
  assert (G : forall s, inv s -> inv (final s ops)).
  { induction ops as [|o t IH]; intros s Hs; cbn [final]; auto. apply IH, inv_step; auto. }
  apply G, inv_init.
Qed.

(* ------------------------------------------------------------------ facts on the abstract set *)
Lemma mem_In a l : mem a l = true <-> In a l.
Proof.
  unfold mem. rewrite existsb_exists. split.
  - intros (x & Hx & E). apply addr_eqb_eq in E. subst; auto.
  - intros H. exists a. split; auto. apply addr_eqb_refl.
Qed.

Lemma del_In a b l : In b (del a l) <-> In b l /\ b <> a.
Proof.
  unfold del. rewrite filter_In, negb_true_iff, addr_eqb_neq. tauto.
Qed.

Lemma del_NoDup a l : NoDup l -> NoDup (del a l).
Proof. apply NoDup_filter. Qed.

Lemma del_length a l : NoDup l -> length (del a l) + (if mem a l then 1 else 0) = length l.
Proof.
  induction l as [|x t IH]; intros H; [reflexivity|].
  inversion H as [|? ? Hx Ht]; subst. specialize (IH Ht).
  unfold del, mem in *; cbn [filter existsb].
  destruct (addr_eqb x a) eqn:E; cbn [negb orb length].
  - apply addr_eqb_eq in E. subst x.
    destruct (existsb (fun x => addr_eqb x a) t) eqn:M; [|lia].
    exfalso. apply Hx. apply mem_In. exact M.
  - lia.
Qed.

(* the abstract object really is a set of at most N addresses: membership after add / remove, no
   duplicates and never more than mcap elements, for every operation sequence *)
Lemma mem_add a b l : mem b (a :: l) = addr_eqb a b || mem b l.
Proof. reflexivity. Qed.

Lemma mem_del a b l : mem b (del a l) = mem b l && negb (addr_eqb b a).
Proof.
  apply eq_true_iff_eq. rewrite andb_true_iff, negb_true_iff, !mem_In, del_In, addr_eqb_neq. tauto.
Qed.

Definition spec_inv (m : mon) : Prop := NoDup (mset m) /\ length (mset m) <= mcap m.

Lemma spec_inv_step m o : spec_inv m -> spec_inv (fst (spec_step m o)) /\ mcap (fst (spec_step m o)) = mcap m.
Proof.
  intros (Hnd & Hlen). unfold spec_inv. destruct o; cbn [spec_step]; auto.
  - destruct (mem a (mset m)) eqn:M; [auto|].
    destruct (length (mset m) <? mcap m) eqn:L; [|auto]. cbn [fst m_with_set mset mcap length].
    apply Nat.ltb_lt in L. split; [split; [|lia] | auto].
    constructor; auto. rewrite <- mem_In. congruence.
  - cbn [fst m_with_set mset mcap]. split; [split; [apply del_NoDup; auto|] | auto].
    pose proof (del_length a Hnd). lia.
  - cbn [fst m_with_set mset mcap length]. split; [split; [constructor | lia] | auto].
Qed.

Theorem spec_set_bounded n ops :
  NoDup (mset (spec_final (minit n) ops)) /\ length (mset (spec_final (minit n) ops)) <= n.
Proof.
  assert (G : forall m, spec_inv m -> spec_inv (spec_final m ops) /\ mcap (spec_final m ops) = mcap m).
  { induction ops as [|o t IH]; intros m H; cbn [spec_final]; [auto|].
    destruct (spec_inv_step o H) as (H1 & H2). destruct (IH _ H1) as (H3 & H4). split; [auto | congruence]. }
  destruct (G (minit n)) as ((H1 & H2) & H3).
  - split; [constructor | cbn; lia].
  - cbn [minit mcap] in H3. rewrite H3 in H2. auto.
Qed.

(* ------------------------------------------------------------------ refinement: software list *)
Definition sim (s : state) (m : mon) : Prop :=
  inv s /\ cap s = mcap m /\ connf s = mconn m /\ scanf s = mscan m /\
  NoDup (mset m) /\ length (mset m) = fill s /\ (forall a, In a (mset m) <-> contains s a).

Lemma sim_init n : sim (init n) (minit n).
Proof.
  unfold sim. split; [apply inv_init|]. cbn [init minit cap mcap connf mconn scanf mscan mset].
  repeat split; auto; try constructor.
  - unfold fill, init; cbn [cap free length]. lia.
  - intros [].
  - intros H. exfalso. eapply init_empty; eauto.
Qed.

Lemma sim_is_in s m a : sim s m -> is_in_white_list s a = mem a (mset m).
Proof.
  intros (_ & _ & _ & _ & _ & _ & H). apply eq_true_iff_eq. rewrite is_in_iff, mem_In, H. tauto.
Qed.

Lemma sim_set_flags s m c1 c2 :
  sim s m -> sim (mk (cap s) (free s) (slots s) c1 c2) (mkm (mcap m) (mset m) c1 c2).
Proof.
  unfold sim, inv, contains, fill; cbn [cap free slots connf scanf mcap mset mconn mscan].
  intros ((H1 & H2 & H3) & Hc & _ & _ & Hnd & Hlen & Hin). repeat split; auto; apply Hin.
Qed.

Lemma sim_step s m o : sim s m ->
  snd (step s o) = snd (spec_step m o) /\ sim (fst (step s o)) (fst (spec_step m o)).
Proof.
  intros Hsim. pose proof Hsim as (Hinv & Hc & Hcf & Hsf & Hnd & Hlen & Hin).
  pose proof (inv_end_ok Hinv) as Hok. pose proof Hinv as (Hfc & _).
  destruct o; cbn [step spec_step]; rewrite ?Hok, ?orb_true_r.
  - (* add *)
    destruct (add_law a Hinv) as (s' & r & -> & Hi & Hc' & Hcf' & Hsf' & Hcase). cbn [fst snd].
    rewrite <- (sim_is_in a Hsim).
    destruct Hcase as [(Hca & -> & ->) | [(Hca & Hfree & -> & ->) | (Hca & Hfree & -> & Hf' & Hcon)]].
    + apply is_in_iff in Hca. rewrite Hca. split; auto.
    + apply is_in_false_iff in Hca. rewrite Hca.
      assert (L : length (mset m) <? mcap m = false) by (apply Nat.ltb_ge; unfold fill in Hlen; lia).
      rewrite L. split; auto.
    + pose proof Hca as Hca'. apply is_in_false_iff in Hca'. rewrite Hca'.
      assert (L : length (mset m) <? mcap m = true) by (apply Nat.ltb_lt; unfold fill in Hlen; lia).
      rewrite L. cbn [fst snd]. split; auto.
      unfold sim, m_with_set; cbn [mcap mset mconn mscan].
      split; [auto|]. split; [lia|]. split; [congruence|]. split; [congruence|].
      split; [constructor; auto; rewrite Hin; auto|].
      split; [cbn [length]; unfold fill in *; lia|].
      intros b. rewrite Hcon. cbn [In]. rewrite Hin. split; intros [->|]; auto.
  - (* remove *)
    destruct (remove_law a Hinv) as (s' & r & -> & Hi & Hc' & Hcf' & Hsf' & Hr & Hf' & _ & Hcon).
    cbn [fst snd]. split.
    + f_equal. apply eq_true_iff_eq. rewrite Hr, mem_In, Hin. tauto.
    + unfold sim, m_with_set; cbn [mcap mset mconn mscan].
      split; [auto|]. split; [lia|]. split; [congruence|]. split; [congruence|].
      split; [apply del_NoDup; auto|].
      split.
      * pose proof (del_length a Hnd) as DL.
        assert (Hrm : r = mem a (mset m)) by (apply eq_true_iff_eq; rewrite Hr, mem_In, Hin; tauto).
        rewrite <- Hrm in DL. lia.
      * intros b. rewrite del_In, Hcon, Hin. tauto.
  - (* is_in *)
    cbn [fst snd]. rewrite (sim_is_in a Hsim). auto.
  - (* free size *)
    cbn [fst snd]. split; auto. unfold white_list_free_size. f_equal. unfold fill in Hlen. lia.
  - (* clear *)
    cbn [fst snd]. split; auto. destruct (clear_law Hinv) as (Hi & Hf & Hcon).
    unfold sim, m_with_set; cbn [mcap mset mconn mscan].
    split; [auto|]. repeat split; auto; try constructor; try (cbn [length]; lia).
    + intros [].
    + intros H; exfalso; exact (Hcon _ H).
  - (* set connection filter *)
    cbn [fst snd]. split; auto.
    unfold set_connection_request_filter. rewrite <- Hsf. apply sim_set_flags; auto.
  - cbn [fst snd]. rewrite Hcf. auto.
  - (* set scan filter *)
    cbn [fst snd]. split; auto.
    unfold set_scan_request_filter. rewrite <- Hcf. apply sim_set_flags; auto.
  - cbn [fst snd]. rewrite Hsf. auto.
  - cbn [fst snd]. unfold is_connection_request_in_filter. rewrite (sim_is_in a Hsim), Hcf. auto.
  - cbn [fst snd]. unfold is_scan_request_in_filter. rewrite (sim_is_in a Hsim), Hsf. auto.
Qed.

Lemma run_refines s m ops : sim s m -> run s ops = spec_run m ops.
Proof.
  revert s m. induction ops as [|o t IH]; intros s m H; [reflexivity|].
  cbn [run spec_run]. destruct (sim_step o H) as (Ho & Hs).
  destruct (step s o) as [s' r], (spec_step m o) as [m' r']. cbn [fst snd] in *. subst r'.
  f_equal. apply IH; auto.
Qed.

(* every trace of the software list is the trace of the bounded set of the same capacity *)
Theorem sw_refines_set n ops : run (init n) ops = spec_run (minit n) ops.
Proof. apply run_refines, sim_init. Qed.

(* ------------------------------------------------------------------ monitor = bounded set *)
Lemma expect_ok b t : expect b t = Ok <-> b = true.
Proof. destruct b; cbn; split; congruence. Qed.

Lemma mstep_iff m o r m' : mstep m o r = (Ok, m') <-> spec_step m o = (m', r).
Proof.
  destruct o, r; cbn [mstep spec_step]; unfold expect.
  all: try match goal with
           | |- context [?n =? ?x] =>
               destruct (Nat.eqb_spec n x); split; intros H; inversion H; subst;
               try reflexivity; try congruence
           end.
  all: repeat match goal with b : bool |- _ => destruct b end;
       repeat match goal with |- context [mem ?a ?l] => destruct (mem a l) end;
       destruct (mconn m), (mscan m); cbn [Bool.eqb negb orb];
       repeat match goal with |- context [if ?c then _ else _] => destruct c end;
       split; intros H; inversion H; subst; reflexivity.
Qed.

Lemma mstep_bad_or_ok m o r : (exists m', mstep m o r = (Ok, m')) \/ (exists t m', mstep m o r = (Bad t, m')).
Proof. destruct (mstep m o r) as [[|t] m']; [left | right]; eauto. Qed.

(* the monitor accepts a trace exactly when it is the trace of the bounded set *)
Lemma monitor_from_iff tr : forall m pos,
  monitor_from m pos tr = None <-> tr = spec_run m (map fst tr).
Proof.
  induction tr as [|[o r] t IH]; intros m pos; cbn [monitor_from spec_run map fst]; [tauto|].
  destruct (mstep m o r) as [[|tag] m1] eqn:E.
  - apply mstep_iff in E. rewrite E. rewrite IH. split; [intros <-; reflexivity|].
    intros H. inversion H. congruence.
  - split; [discriminate|]. intros H.
    destruct (spec_step m o) as [m2 r2] eqn:E2. inversion H; subst r2.
    apply mstep_iff in E2. congruence.
Qed.

Lemma map_fst_spec_run m ops : map fst (spec_run m ops) = ops.
Proof.
  revert m. induction ops as [|o t IH]; intros m; cbn [spec_run]; [reflexivity|].
  destruct (spec_step m o). cbn [map fst]. f_equal. apply IH.
Qed.

Theorem monitor_exact n tr : monitor n tr = None <-> tr = spec_run (minit n) (map fst tr).
Proof. apply monitor_from_iff. Qed.

Lemma monitor_accepts_spec n ops : monitor n (spec_run (minit n) ops) = None.
Proof. apply monitor_exact. rewrite map_fst_spec_run. reflexivity. Qed.

Theorem monitor_accepts_model n ops : monitor n (run (init n) ops) = None.
Proof. rewrite sw_refines_set. apply monitor_accepts_spec. Qed.

(* no operation of the set machine, hence of the software list, faults *)
Lemma spec_run_no_fault m ops o : ~ In (o, OFault) (spec_run m ops).
Proof.
  revert m. induction ops as [|x t IH]; intros m; cbn [spec_run]; [auto|].
  destruct (spec_step m x) as [m' r] eqn:E. intros [H | H]; [|exact (IH _ H)].
  inversion H; subst.
  destruct o; cbn [spec_step] in E;
    repeat match type of E with context [if ?c then _ else _] => destruct c end; inversion E.
Qed.

Theorem sw_never_faults n ops o : ~ In (o, OFault) (run (init n) ops).
Proof. rewrite sw_refines_set. apply spec_run_no_fault. Qed.

(* ------------------------------------------------------------------ refinement: radio-backed list *)
Section RadioBackedProofs.
  Variable radio : Type.
  Variable f_free : radio -> nat.
  Variable f_clear : radio -> radio.
  Variable f_add : radio -> addr -> radio * bool.
  Variable f_is_in : radio -> addr -> bool.
  Variable f_remove : radio -> addr -> radio * bool.
  Variable f_set_conn : radio -> bool -> radio.
  Variable f_conn : radio -> bool.
  Variable f_set_scan : radio -> bool -> radio.
  Variable f_scan : radio -> bool.
  Variable f_conn_in : radio -> addr -> bool.
  Variable f_scan_in : radio -> addr -> bool.
  Variable Rel : radio -> mon -> Prop.

  Hypothesis radio_ok :
    radio_implements_set f_free f_clear f_add f_is_in f_remove f_set_conn f_conn f_set_scan f_scan
                         f_conn_in f_scan_in Rel.

  Local Notation hstep := (hw_step f_free f_clear f_add f_is_in f_remove f_set_conn f_conn
                                   f_set_scan f_scan f_conn_in f_scan_in).
  Local Notation hrun := (hw_run f_free f_clear f_add f_is_in f_remove f_set_conn f_conn
                                 f_set_scan f_scan f_conn_in f_scan_in).

  Lemma hw_sim_step r m o : Rel r m ->
    snd (hstep r o) = snd (spec_step m o) /\ Rel (fst (hstep r o)) (fst (spec_step m o)).
  Proof.
    intros H.
    destruct radio_ok as (Hfree & Hclear & Hadd & Hisin & Hrem & Hsc & Hgc & Hss & Hgs & Hci & Hsi).
    destruct o; cbn [hw_step spec_step].
    - destruct (Hadd r m a H) as (E1 & E2). unfold ref_add in *.
      destruct (f_add r a) as [r' b]. cbn [fst snd] in *.
      destruct (mem a (mset m)); [|destruct (length (mset m) <? mcap m)];
        cbn [fst snd] in *; subst b; auto.
    - destruct (Hrem r m a H) as (E1 & E2). unfold ref_remove in *.
      destruct (f_remove r a) as [r' b]. cbn [fst snd] in *. subst b; auto.
    - cbn [fst snd]. rewrite (Hisin r m a H). auto.
    - cbn [fst snd]. rewrite (Hfree r m H). auto.
    - cbn [fst snd]. split; auto. apply (Hclear r m H).
    - cbn [fst snd]. split; auto. apply (Hsc r m b H).
    - cbn [fst snd]. rewrite (Hgc r m H). auto.
    - cbn [fst snd]. split; auto. apply (Hss r m b H).
    - cbn [fst snd]. rewrite (Hgs r m H). auto.
    - cbn [fst snd]. rewrite (Hci r m a H). auto.
    - cbn [fst snd]. rewrite (Hsi r m a H). auto.
  Qed.

  Lemma hw_run_refines r m ops : Rel r m -> hrun r ops = spec_run m ops.
  Proof.
    revert r m. induction ops as [|o t IH]; intros r m H; [reflexivity|].
    cbn [hw_run spec_run]. destruct (hw_sim_step o H) as (Ho & Hs).
    destruct (hstep r o) as [r' x], (spec_step m o) as [m' x']. cbn [fst snd] in *. subst x'.
    f_equal. apply IH; auto.
  Qed.

  (* a radio-backed white list started on a radio holding the empty set of capacity n *)
  Theorem hw_refines_set r n ops : Rel r (minit n) -> hrun r ops = spec_run (minit n) ops.
  Proof. apply hw_run_refines. Qed.

  Theorem hw_monitor_accepts r n ops : Rel r (minit n) -> monitor n (hrun r ops) = None.
  Proof. intros H. rewrite (hw_refines_set ops H). apply monitor_accepts_spec. Qed.
End RadioBackedProofs.

(* the hypothesis is satisfiable: the bounded set itself is such a radio ... *)
Lemma ref_radio_implements_set :
  radio_implements_set ref_free ref_clear ref_add ref_is_in ref_remove ref_set_conn mconn
                       ref_set_scan mscan ref_conn_in ref_scan_in (@eq mon).
Proof. unfold radio_implements_set. repeat split; intros; subst; reflexivity. Qed.

(* ... and so is the software white list (the mock radio of tests/link_layer/white_list_tests.cpp is
   this algorithm), with the total version of add_to_white_list *)
Definition add_total (s : state) (a : addr) : state * bool :=
  match add_to_white_list s a with Some x => x | None => (s, false) end.

Lemma sw_radio_implements_set :
  radio_implements_set white_list_free_size clear_white_list add_total is_in_white_list
                       remove_from_white_list set_connection_request_filter connf
                       set_scan_request_filter scanf is_connection_request_in_filter
                       is_scan_request_in_filter sim.
Proof.
  unfold radio_implements_set.
  assert (G : forall s m o, sim s m ->
            snd (step s o) = snd (spec_step m o) /\ sim (fst (step s o)) (fst (spec_step m o)))
    by (intros; apply sim_step; auto).
  repeat match goal with |- _ /\ _ => split end.
  - intros s m H. destruct (G s m FreeSize H) as (E & _). cbn in E. inversion E. unfold ref_free. auto.
  - intros s m H. destruct (G s m Clear H) as (_ & E). exact E.
  - intros s m a H. destruct (G s m (Add a) H) as (E0 & E). pose proof H as (Hinv & _).
    cbn [step spec_step] in E, E0. rewrite (inv_end_ok Hinv) in E, E0. unfold add_total, ref_add.
    destruct (add_to_white_list s a) as [[s' r]|]; cbn [fst snd] in *.
    + destruct (mem a (mset m)); [| destruct (length (mset m) <? mcap m)];
        cbn [fst snd] in *; split; auto; congruence.
    + destruct (mem a (mset m)); [| destruct (length (mset m) <? mcap m)];
        cbn [snd] in E0; discriminate.
  - intros s m a H. destruct (G s m (IsIn a) H) as (E & _). pose proof H as (Hinv & _).
    cbn [step spec_step] in E. rewrite (inv_end_ok Hinv) in E. cbn in E. inversion E. unfold ref_is_in. auto.
  - intros s m a H. destruct (G s m (Remove a) H) as (E0 & E). pose proof H as (Hinv & _).
    cbn [step spec_step] in E, E0. rewrite (inv_end_ok Hinv) in E, E0. unfold ref_remove.
    destruct (remove_from_white_list s a). cbn [fst snd] in *. split; auto. congruence.
  - intros s m b H. destruct (G s m (SetConn b) H) as (_ & E). exact E.
  - intros s m H. destruct H as (_ & _ & E & _). exact E.
  - intros s m b H. destruct (G s m (SetScan b) H) as (_ & E). exact E.
  - intros s m H. destruct H as (_ & _ & _ & E & _). exact E.
  - intros s m a H. unfold is_connection_request_in_filter, ref_conn_in. rewrite (sim_is_in a H).
    destruct H as (_ & _ & E & _). rewrite E. reflexivity.
  - intros s m a H. unfold is_scan_request_in_filter, ref_scan_in. rewrite (sim_is_in a H).
    destruct H as (_ & _ & _ & E & _). rewrite E. reflexivity.
Qed.

(* ------------------------------------------------------------------ the set laws on the model itself *)
(* stated without the monitor: for a state satisfying the invariant (every reachable state does) *)
Theorem sw_set_laws s : inv s ->
  (forall a, is_in_white_list s a = true <-> contains s a) /\
  (forall a, is_connection_request_in_filter s a = true <-> connf s = false \/ contains s a) /\
  (forall a, is_scan_request_in_filter s a = true <-> scanf s = false \/ contains s a) /\
  fill s <= cap s /\ white_list_free_size s = cap s - fill s /\
  (forall a, exists s' r, step s (Add a) = (s', OBool r) /\ inv s' /\
      (r = false <-> ~ contains s a /\ fill s = cap s) /\
      (contains s a \/ r = false -> s' = s) /\
      (r = true -> forall b, contains s' b <-> b = a \/ contains s b)) /\
  (forall a, exists s' r, step s (Remove a) = (s', OBool r) /\ inv s' /\
      (r = true <-> contains s a) /\
      (forall b, contains s' b <-> contains s b /\ b <> a)) /\
  (forall a, ~ contains (fst (step s Clear)) a).
Proof.
  intros Hinv. pose proof (inv_end_ok Hinv) as Hok. pose proof Hinv as (H1 & H2 & H3).
  split; [intros; apply is_in_iff|].
  split.
  { intros a. unfold is_connection_request_in_filter. rewrite orb_true_iff, negb_true_iff, is_in_iff. tauto. }
  split.
  { intros a. unfold is_scan_request_in_filter. rewrite orb_true_iff, negb_true_iff, is_in_iff. tauto. }
  split; [unfold fill; lia|]. split; [unfold white_list_free_size, fill; lia|].
  split.
  { intros a. cbn [step]. rewrite Hok.
    destruct (add_law a Hinv) as (s' & r & -> & Hi & _ & _ & _ & Hcase).
    exists s', r. split; [reflexivity|]. split; [auto|].
    destruct Hcase as [(Hca & -> & ->) | [(Hca & Hfree & -> & ->) | (Hca & Hfree & -> & Hf' & Hcon)]].
    - split; [split; [discriminate | tauto]|]. split; [auto|]. intros _ b. split; [auto|].
      intros [->|]; auto.
    - split; [split; [intros _; split; [auto | unfold fill; lia] | auto]|]. split; [auto|]. discriminate.
    - split; [split; [discriminate | unfold fill; lia]|]. split; [|auto].
      intros [|]; [contradiction | discriminate]. }
  split.
  { intros a. cbn [step]. rewrite Hok.
    destruct (remove_law a Hinv) as (s' & r & -> & Hi & _ & _ & _ & Hr & _ & _ & Hcon).
    exists s', r. auto. }
  intros a. cbn [step fst]. apply clear_law; auto.
Qed.
