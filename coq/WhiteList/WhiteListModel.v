(* Executable model of bluetoe/link_layer/include/bluetoe/white_list.hpp (definitions only, no proofs).

   white_list< Size >::impl< Radio, LinkLayer > is
     details::white_list_implementation< Size, ( Size > Radio::radio_maximum_white_list_entries ), Radio, LinkLayer >
   i.e. the pure software list when the radio has fewer hardware entries than requested, and
   otherwise a class that forwards every call to the radio (section RadioBacked below).

   Software list, members:  bool active_ (written once by the constructor, never read: not modelled);
   std::size_t free_size_;  device_address addresses_[ Size ];  bool connection_filter_, scan_filter_.

   A device_address is 6 bytes plus the flag is_random_; device_address::operator== compares the six
   bytes (address::operator==, std::equal) and the flag. The 6 bytes are kept as one number (the
   drivers map 12 hex digits to it injectively); nothing in the model or the proofs depends on the
   number being below 2^48.

   Positions in addresses_ and free_size_ are nat. free_size_ is a std::size_t; ++free_size_ is
   executed only after an element was found, i.e. when free_size_ < Size, so no wrap-around is
   modelled. Size - free_size_ however is modelled with its range check: if free_size_ > Size the
   unsigned difference would wrap and `end` would point outside addresses_; the model then answers
   OFault (WhiteListProofs.sw_never_faults: this never happens). *)
From BT Require Import Base.ListX.
Local Open Scope nat_scope.

Record addr := mk_addr { aval : N; arandom : bool }.

(* device_address::operator==( const device_address& ) *)
Definition addr_eqb (a b : addr) : bool := (aval a =? aval b)%N && Bool.eqb (arandom a) (arandom b).

(* device_address::device_address(): 00:00:00:00:00:00, is_random_( true ): content of fresh array slots *)
Definition default_addr : addr := mk_addr 0%N true.

Record state := mk {
  cap : nat;              (* Size *)
  free : nat;             (* free_size_ *)
  slots : list addr;      (* addresses_[ Size ] *)
  connf : bool;           (* connection_filter_ *)
  scanf : bool            (* scan_filter_ *)
}.

Definition init (n : nat) : state := mk n n (repeat default_addr n) false false.

(* Size - free_size_ : number of used slots = offset of `end` *)
Definition fill (s : state) : nat := cap s - free s.

(* `end` = std::begin( addresses_ ) + ( Size - free_size_ ) lies inside the array *)
Definition end_ok (s : state) : bool := (free s <=? cap s) && (fill s <=? length (slots s)).

(* std::find( begin + i, begin + i + fuel, a ) - begin : position of the first element equal to a,
   i + fuel (= end) if there is none *)
Fixpoint find (l : list addr) (a : addr) (i fuel : nat) : nat :=
  match fuel with
  | O => i
  | S f => if addr_eqb (nth i l default_addr) a then i else find l a (S i) f
  end.

(* is_in_white_list: std::find( begin, end, addr ) != end *)
Definition is_in_white_list (s : state) (a : addr) : bool :=
  negb (find (slots s) a 0 (fill s) =? fill s).

Definition white_list_free_size (s : state) : nat := free s.

(* clear_white_list: free_size_ = Size (the array content stays) *)
Definition clear_white_list (s : state) : state := mk (cap s) (cap s) (slots s) (connf s) (scanf s).

(* add_to_white_list; None = the store addresses_[ Size - free_size_ ] would be out of range *)
Definition add_to_white_list (s : state) (a : addr) : option (state * bool) :=
  if is_in_white_list s a then Some (s, true)
  else if free s =? 0 then Some (s, false)
  else if fill s <? length (slots s)
       then Some (mk (cap s) (free s - 1) (upd (slots s) (fill s) a) (connf s) (scanf s), true)
       else None.

(* remove_from_white_list:  pos = find; if ( pos == end ) return false; *pos = *( end - 1 ); ++free_size_; *)
Definition remove_from_white_list (s : state) (a : addr) : state * bool :=
  let pos := find (slots s) a 0 (fill s) in
  if pos =? fill s then (s, false)
  else (mk (cap s) (free s + 1) (upd (slots s) pos (nth (fill s - 1) (slots s) default_addr))
           (connf s) (scanf s), true).

Definition set_connection_request_filter (s : state) (b : bool) : state :=
  mk (cap s) (free s) (slots s) b (scanf s).
Definition set_scan_request_filter (s : state) (b : bool) : state :=
  mk (cap s) (free s) (slots s) (connf s) b.

(* !connection_filter_ || is_in_white_list( addr ) : the search runs only when the filter is on *)
Definition is_connection_request_in_filter (s : state) (a : addr) : bool :=
  negb (connf s) || is_in_white_list s a.
Definition is_scan_request_in_filter (s : state) (a : addr) : bool :=
  negb (scanf s) || is_in_white_list s a.

Inductive op :=
| Add (a : addr) | Remove (a : addr) | IsIn (a : addr) | FreeSize | Clear
| SetConn (b : bool) | GetConn | SetScan (b : bool) | GetScan
| ConnIn (a : addr) | ScanIn (a : addr).

Inductive out := OBool (b : bool) | ONat (n : nat) | OUnit | OFault.

Definition step (s : state) (o : op) : state * out :=
  match o with
  | Add a =>
      if end_ok s then
        match add_to_white_list s a with
        | Some (s', r) => (s', OBool r)
        | None => (s, OFault)
        end
      else (s, OFault)
  | Remove a =>
      if end_ok s then let '(s', r) := remove_from_white_list s a in (s', OBool r) else (s, OFault)
  | IsIn a => if end_ok s then (s, OBool (is_in_white_list s a)) else (s, OFault)
  | FreeSize => (s, ONat (white_list_free_size s))
  | Clear => (clear_white_list s, OUnit)
  | SetConn b => (set_connection_request_filter s b, OUnit)
  | GetConn => (s, OBool (connf s))
  | SetScan b => (set_scan_request_filter s b, OUnit)
  | GetScan => (s, OBool (scanf s))
  | ConnIn a =>
      if negb (connf s) || end_ok s then (s, OBool (is_connection_request_in_filter s a)) else (s, OFault)
  | ScanIn a =>
      if negb (scanf s) || end_ok s then (s, OBool (is_scan_request_in_filter s a)) else (s, OFault)
  end.

(* the trace of (operation, output) pairs of a run *)
Fixpoint run (s : state) (ops : list op) : list (op * out) :=
  match ops with
  | [] => []
  | o :: t => let '(s', r) := step s o in (o, r) :: run s' t
  end.

Fixpoint final (s : state) (ops : list op) : state :=
  match ops with
  | [] => s
  | o :: t => final (fst (step s o)) t
  end.

(* ---- white_list_implementation< Size, false, Radio, LinkLayer >: every member function forwards to
   the function radio_<name> of the radio (this_to_radio() is the link layer object seen as its radio
   base class). The radio is external code: its state and functions are section variables. *)
Section RadioBacked.
  Variable radio : Type.
  Variable radio_white_list_free_size : radio -> nat.
  Variable radio_clear_white_list : radio -> radio.
  Variable radio_add_to_white_list : radio -> addr -> radio * bool.
  Variable radio_is_in_white_list : radio -> addr -> bool.
  Variable radio_remove_from_white_list : radio -> addr -> radio * bool.
  Variable radio_set_connection_request_filter : radio -> bool -> radio.
  Variable radio_connection_request_filter : radio -> bool.
  Variable radio_set_scan_request_filter : radio -> bool -> radio.
  Variable radio_scan_request_filter : radio -> bool.
  Variable radio_is_connection_request_in_filter : radio -> addr -> bool.
  Variable radio_is_scan_request_in_filter : radio -> addr -> bool.

  Definition hw_step (r : radio) (o : op) : radio * out :=
    match o with
    | Add a => let '(r', b) := radio_add_to_white_list r a in (r', OBool b)
    | Remove a => let '(r', b) := radio_remove_from_white_list r a in (r', OBool b)
    | IsIn a => (r, OBool (radio_is_in_white_list r a))
    | FreeSize => (r, ONat (radio_white_list_free_size r))
    | Clear => (radio_clear_white_list r, OUnit)
    | SetConn b => (radio_set_connection_request_filter r b, OUnit)
    | GetConn => (r, OBool (radio_connection_request_filter r))
    | SetScan b => (radio_set_scan_request_filter r b, OUnit)
    | GetScan => (r, OBool (radio_scan_request_filter r))
    | ConnIn a => (r, OBool (radio_is_connection_request_in_filter r a))
    | ScanIn a => (r, OBool (radio_is_scan_request_in_filter r a))
    end.

  Fixpoint hw_run (r : radio) (ops : list op) : list (op * out) :=
    match ops with
    | [] => []
    | o :: t => let '(r', x) := hw_step r o in (o, x) :: hw_run r' t
    end.
End RadioBacked.
Arguments hw_step {radio}.
Arguments hw_run {radio}.
