(* Abstract specification and executable monitor for the white list (property C26).

   The abstract object is a finite set of device addresses of at most `mcap` elements, kept as a
   list without duplicates (membership is all that is ever observed), plus the two filter flags.
   `spec_step` is the bounded-set machine itself (every output of a white list operation is
   determined by the abstract set); `mstep` is the monitor: it looks only at operations and their
   observed outputs, runs the set beside the trace and names the clause that an output breaks:

     add_idempotent  add of an address already in the set returns true (and changes nothing)
     add_result      add of a new address succeeds whenever the set has fewer than N elements
     capacity        the set never holds more than N addresses (add of a new address to a full set
                     fails); free size = N - number of elements
     remove_exact    remove returns true exactly when the address was in the set (and removes it,
                     and nothing else: every later answer is judged against the set without it)
     contains        is_in_white_list answers membership
     filter_conn     connection_request_filter() returns the flag last set (false initially);
                     is_connection_request_in_filter = filter off, or address in the set
     filter_scan     the same for scan requests
     fault           the operation ended in a sanitizer / assertion failure
     shape           output of the wrong kind for the operation *)
From BT Require Import Base.ListX WhiteList.WhiteListModel.
Local Open Scope nat_scope.

(* membership and deletion in the abstract set *)
Definition mem (a : addr) (l : list addr) : bool := existsb (fun x => addr_eqb x a) l.
Definition del (a : addr) (l : list addr) : list addr := filter (fun x => negb (addr_eqb x a)) l.

Record mon := mkm { mcap : nat; mset : list addr; mconn : bool; mscan : bool }.
Definition minit (n : nat) : mon := mkm n [] false false.

Definition m_with_set (m : mon) (l : list addr) : mon := mkm (mcap m) l (mconn m) (mscan m).

(* the bounded set as a machine: next abstract state and the output the operation must have *)
Definition spec_step (m : mon) (o : op) : mon * out :=
  match o with
  | Add a =>
      if mem a (mset m) then (m, OBool true)
      else if length (mset m) <? mcap m then (m_with_set m (a :: mset m), OBool true)
      else (m, OBool false)
  | Remove a => (m_with_set m (del a (mset m)), OBool (mem a (mset m)))
  | IsIn a => (m, OBool (mem a (mset m)))
  | FreeSize => (m, ONat (mcap m - length (mset m)))
  | Clear => (m_with_set m [], OUnit)
  | SetConn b => (mkm (mcap m) (mset m) b (mscan m), OUnit)
  | GetConn => (m, OBool (mconn m))
  | SetScan b => (mkm (mcap m) (mset m) (mconn m) b, OUnit)
  | GetScan => (m, OBool (mscan m))
  | ConnIn a => (m, OBool (negb (mconn m) || mem a (mset m)))
  | ScanIn a => (m, OBool (negb (mscan m) || mem a (mset m)))
  end.

Inductive verdict := Ok | Bad (tag : nat).
(* tags *)
Definition t_add_result := 1.
Definition t_add_idempotent := 2.
Definition t_remove_exact := 3.
Definition t_contains := 4.
Definition t_filter_conn := 5.
Definition t_filter_scan := 6.
Definition t_capacity := 7.
Definition t_fault := 8.
Definition t_shape := 9.

Definition expect (ok : bool) (tag : nat) : verdict := if ok then Ok else Bad tag.

Definition mstep (m : mon) (o : op) (r : out) : verdict * mon :=
  match o, r with
  | _, OFault => (Bad t_fault, m)
  | Add a, OBool b =>
      if mem a (mset m) then (expect b t_add_idempotent, m)
      else if length (mset m) <? mcap m then (expect b t_add_result, m_with_set m (a :: mset m))
      else (expect (negb b) t_capacity, m)
  | Remove a, OBool b =>
      (expect (Bool.eqb b (mem a (mset m))) t_remove_exact, m_with_set m (del a (mset m)))
  | IsIn a, OBool b => (expect (Bool.eqb b (mem a (mset m))) t_contains, m)
  | FreeSize, ONat n => (expect (n =? mcap m - length (mset m)) t_capacity, m)
  | Clear, OUnit => (Ok, m_with_set m [])
  | SetConn b, OUnit => (Ok, mkm (mcap m) (mset m) b (mscan m))
  | GetConn, OBool b => (expect (Bool.eqb b (mconn m)) t_filter_conn, m)
  | SetScan b, OUnit => (Ok, mkm (mcap m) (mset m) (mconn m) b)
  | GetScan, OBool b => (expect (Bool.eqb b (mscan m)) t_filter_scan, m)
  | ConnIn a, OBool b => (expect (Bool.eqb b (negb (mconn m) || mem a (mset m))) t_filter_conn, m)
  | ScanIn a, OBool b => (expect (Bool.eqb b (negb (mscan m) || mem a (mset m))) t_filter_scan, m)
  | _, _ => (Bad t_shape, m)
  end.

(* first violation of a trace: Some (position, tag); None = property holds on the trace *)
Fixpoint monitor_from (m : mon) (pos : nat) (tr : list (op * out)) : option (nat * nat) :=
  match tr with
  | [] => None
  | (o, r) :: t =>
      match mstep m o r with
      | (Ok, m') => monitor_from m' (S pos) t
      | (Bad tag, _) => Some (pos, tag)
      end
  end.

(* n = capacity of the set: the template argument Size for the software list, the number of
   hardware entries of the radio for the radio-backed list *)
Definition monitor (n : nat) (tr : list (op * out)) : option (nat * nat) :=
  monitor_from (minit n) O tr.

(* the trace the bounded set itself produces *)
Fixpoint spec_run (m : mon) (ops : list op) : list (op * out) :=
  match ops with
  | [] => []
  | o :: t => let '(m', r) := spec_step m o in (o, r) :: spec_run m' t
  end.

Fixpoint spec_final (m : mon) (ops : list op) : mon :=
  match ops with
  | [] => m
  | o :: t => spec_final (fst (spec_step m o)) t
  end.

(* ---- a reference radio: the bounded set itself used as the hardware white list. It instantiates
   the section RadioBacked for execution (the C++ tie runs the forwarding class over a mock radio
   written independently in harness/whitelist_harness.cpp). *)
Definition ref_free (m : mon) : nat := mcap m - length (mset m).
Definition ref_clear (m : mon) : mon := m_with_set m [].
Definition ref_add (m : mon) (a : addr) : mon * bool :=
  if mem a (mset m) then (m, true)
  else if length (mset m) <? mcap m then (m_with_set m (a :: mset m), true)
  else (m, false).
Definition ref_is_in (m : mon) (a : addr) : bool := mem a (mset m).
Definition ref_remove (m : mon) (a : addr) : mon * bool := (m_with_set m (del a (mset m)), mem a (mset m)).
Definition ref_set_conn (m : mon) (b : bool) : mon := mkm (mcap m) (mset m) b (mscan m).
Definition ref_set_scan (m : mon) (b : bool) : mon := mkm (mcap m) (mset m) (mconn m) b.
Definition ref_conn_in (m : mon) (a : addr) : bool := negb (mconn m) || mem a (mset m).
Definition ref_scan_in (m : mon) (a : addr) : bool := negb (mscan m) || mem a (mset m).

Definition hw_ref_step : mon -> op -> mon * out :=
  hw_step ref_free ref_clear ref_add ref_is_in ref_remove ref_set_conn mconn ref_set_scan mscan
          ref_conn_in ref_scan_in.

(* ---- what "the radio implements the white list" means: through some relation Rel between radio
   states and abstract sets, every radio_* function behaves as the corresponding operation of the
   bounded set (ref_* above). This is the hypothesis under which the radio-backed white list is
   proved to be a bounded set; the radio is external code. *)
Section RadioContract.
  Variable radio : Type.
  Variable f_free : radio -> nat.
  Variable f_clear : radio -> radio.
  Variable f_add : radio -> addr -> radio * bool.
  Variable f_is_in : radio -> addr -> bool.
  Variable f_remove : radio -> addr -> radio * bool.
  Variable f_set_conn : radio -> bool -> radio.
  Variable f_conn : radio -> bool.
  Variable f_set_scan : radio -> bool -> radio.
  Variable f_scan : radio -> bool.
  Variable f_conn_in : radio -> addr -> bool.
  Variable f_scan_in : radio -> addr -> bool.
  Variable Rel : radio -> mon -> Prop.

  Definition radio_implements_set : Prop :=
    (forall r m, Rel r m -> f_free r = ref_free m) /\
    (forall r m, Rel r m -> Rel (f_clear r) (ref_clear m)) /\
    (forall r m a, Rel r m ->
       snd (f_add r a) = snd (ref_add m a) /\ Rel (fst (f_add r a)) (fst (ref_add m a))) /\
    (forall r m a, Rel r m -> f_is_in r a = ref_is_in m a) /\
    (forall r m a, Rel r m ->
       snd (f_remove r a) = snd (ref_remove m a) /\ Rel (fst (f_remove r a)) (fst (ref_remove m a))) /\
    (forall r m b, Rel r m -> Rel (f_set_conn r b) (ref_set_conn m b)) /\
    (forall r m, Rel r m -> f_conn r = mconn m) /\
    (forall r m b, Rel r m -> Rel (f_set_scan r b) (ref_set_scan m b)) /\
    (forall r m, Rel r m -> f_scan r = mscan m) /\
    (forall r m a, Rel r m -> f_conn_in r a = ref_conn_in m a) /\
    (forall r m a, Rel r m -> f_scan_in r a = ref_scan_in m a).
End RadioContract.
Arguments radio_implements_set {radio}.
