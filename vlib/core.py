"""Shared machinery of /verif/bin/check: Coq build + obligation accounting, model/harness builds,
line-protocol runs, diffing, monitor, shrinking, verdicts, evidence.

Every property module props/<id>.py exposes  run(ctx) -> Result  and normally just fills in a
Standard description and calls standard_check()."""
import fcntl, hashlib, json, os, random, re, shutil, subprocess, sys, time

VERIF = os.path.dirname(os.path.dirname(os.path.abspath(__file__)))
REPO = os.environ.get("VERIF_REPO", "/repo")
COQ = os.path.join(VERIF, "coq")
BUILD = os.path.join(VERIF, "build")
CXX = os.environ.get("VERIF_CXX", "g++")
INCLUDES = ["", "bluetoe", "bluetoe/link_layer/include", "bluetoe/link_layer",
            "bluetoe/utility/include", "bluetoe/sm/include"]
CXXFLAGS = ["-std=c++11", "-O1", "-g", "-UNDEBUG", "-fsanitize=address,undefined",
            "-fno-sanitize-recover=all", "-DBLUETOE_VERIF", "-w"]
ALLOWED_AXIOMS = {  # axioms of the standard library that a theorem may depend on (DESIGN.md section 9)
    "functional_extensionality_dep", "FunctionalExtensionality.functional_extensionality_dep",
    "Eqdep.Eq_rect_eq.eq_rect_eq", "eq_rect_eq", "JMeq_eq", "JMeq.JMeq_eq",
    "proof_irrelevance", "ProofIrrelevance.proof_irrelevance", "classic", "Classical_Prop.classic",
}
FORBIDDEN = re.compile(r"\b(Admitted|admit|Axiom|Axioms|Parameter|Parameters|Conjecture|Conjectures|Admit Obligations|"
                       r"Unset Guard Checking|Unset Positivity Checking|Unset Universe Checking|bypass_check|"
                       r"type-in-type|impredicative-set)\b")


def log(*a):
    print(*a, file=sys.stderr, flush=True)


class Ctx:
    def __init__(self, pid, tier, seed, replay=None):
        self.pid, self.tier, self.seed, self.replay = pid, tier, seed, replay
        self.t0 = time.time()
        self.out = os.path.join(VERIF, "out", pid)
        self.bdir = os.path.join(BUILD, pid)
        os.makedirs(self.out, exist_ok=True)
        os.makedirs(self.bdir, exist_ok=True)
        if not replay:
            for f in os.listdir(self.out):
                if f.startswith("replay-"):
                    os.remove(os.path.join(self.out, f))
        self.rng = random.Random("%s/%s/%s" % (pid, tier, seed))
        self.thorough = tier == "thorough"


class Case:
    __slots__ = ("name", "cfg", "ops", "origin")

    def __init__(self, name, cfg, ops, origin="gen"):
        self.name, self.cfg, self.ops, self.origin = name, list(cfg), list(ops), origin

    def text(self):
        return "CASE %s %s\n" % (self.name, " ".join(self.cfg)) + "".join(o + "\n" for o in self.ops)

    def key(self):
        return (" ".join(self.cfg), tuple(self.ops))


def parse_cases(text, origin="corpus"):
    cases = []
    for line in text.splitlines():
        line = line.rstrip("\n")
        if not line.strip() or line.startswith("#"):
            continue
        w = line.split()
        if w[0] == "CASE":
            cases.append(Case(w[1], w[2:], [], origin))
        elif cases:
            cases[-1].ops.append(line.strip())
    return cases


def load_corpus(pid):
    d = os.path.join(VERIF, "corpus", pid)
    cases = []
    if os.path.isdir(d):
        for f in sorted(os.listdir(d)):
            if f.endswith(".trace"):
                for i, c in enumerate(parse_cases(open(os.path.join(d, f)).read())):
                    c.name = "corpus_%s_%d" % (f[:-6].replace(" ", "_"), i)
                    cases.append(c)
    return cases


# --------------------------------------------------------------------------- Coq side
class _Lock:
    def __init__(self, name):
        os.makedirs(BUILD, exist_ok=True)
        self.f = open(os.path.join(BUILD, name), "w")

    def __enter__(self):
        fcntl.flock(self.f, fcntl.LOCK_EX)

    def __exit__(self, *a):
        fcntl.flock(self.f, fcntl.LOCK_UN)
        self.f.close()


def run(cmd, cwd=None, timeout=None, inp=None, env=None):
    p = subprocess.run(cmd, cwd=cwd, input=inp, capture_output=True, text=True, timeout=timeout, env=env)
    return p.returncode, p.stdout, p.stderr


def regenerate_consts():
    """gen/translate.py rewrites coq/gen/Gen*.v from REPO's current sources (only when changed)."""
    t = os.path.join(VERIF, "gen", "translate.py")
    if os.path.exists(t):
        rc, o, e = run([sys.executable, t, REPO], timeout=300)
        if rc != 0:
            log("translate.py failed:\n" + o + e)
        return rc == 0, o + e
    return True, ""


def forbidden_scan():
    bad = []
    for root, _, files in os.walk(COQ):
        if os.sep + "scratch" in root:
            continue
        for f in files:
            if f.endswith(".v"):
                p = os.path.join(root, f)
                txt = re.sub(r"\(\*.*?\*\)", "", open(p).read(), flags=re.S)
                for m in FORBIDDEN.finditer(txt):
                    bad.append("%s: %s" % (os.path.relpath(p, VERIF), m.group(0)))
    return bad


def coq_build(targets, timeout=1500):
    """full .vo build of the given targets (and what they depend on). Returns (ok, log)."""
    with _Lock("coq.lock"):
        ok_t, tlog = regenerate_consts()
        run([os.path.join(VERIF, "bin", "mkcoqproject")])
        rc, o, e = run(["timeout", str(timeout), "make", "-k", "-j16"] + targets, cwd=COQ)
        return rc == 0 and ok_t, tlog + o + e


THEOREM_RE = re.compile(r"^\s*(Theorem|Lemma|Example|Corollary)\s+([A-Za-z0-9_']+)", re.M)


def obligations(pid):
    """Re-check coq/Props/Properties_<pid>.v with coqc (its dependencies must be built) and account
    for every theorem in it. Returns dict(names, ok, assumptions, log, failed)."""
    vfile = os.path.join(COQ, "Props", "Properties_%s.v" % pid)
    src = open(vfile).read()
    names = [m.group(2) for m in THEOREM_RE.finditer(re.sub(r"\(\*.*?\*\)", "", src, flags=re.S))]
    with _Lock("coq.lock"):
        rc, o, e = run(["timeout", "900", "coqc", "-Q", ".", "BT", "-w", "-notation-overridden", vfile], cwd=COQ)
    text = o + e
    # Print Assumptions blocks: either "Closed under the global context" or "Axioms:" + indented lines
    axioms = []
    for blk in re.finditer(r"Axioms:\n((?:.+\n?)+?)(?=\n\S|\Z|Closed under|Axioms:)", o):
        for line in blk.group(1).splitlines():
            m = re.match(r"^([A-Za-z0-9_.']+)\s*:", line)
            if m:
                axioms.append(m.group(1))
    closed = len(re.findall(r"Closed under the global context", o))
    bad_axioms = sorted(set(a for a in axioms if a not in ALLOWED_AXIOMS and a.split(".")[-1] not in ALLOWED_AXIOMS))
    return dict(names=names, ok=(rc == 0), closed_blocks=closed, axioms=sorted(set(axioms)),
                bad_axioms=bad_axioms, log=text, file=os.path.relpath(vfile, VERIF))


def build_model(comp):
    """extract/Extract<Comp>.v -> build/extract/<comp>/<comp>.ml (+ ocaml/conv.ml + ocaml/<comp>_driver.ml)
    -> build/btmodel_<comp>. Rebuilt when any input is newer than the binary."""
    lc = comp.lower()
    d = os.path.join(BUILD, "extract", lc)
    os.makedirs(d, exist_ok=True)
    binp = os.path.join(BUILD, "btmodel_" + lc)
    ex = os.path.join(VERIF, "extract", "Extract%s.v" % comp)
    drv = os.path.join(VERIF, "ocaml", lc + "_driver.ml")
    conv = os.path.join(VERIF, "ocaml", "conv.ml")
    with _Lock("model_%s.lock" % lc):
        deps = [ex, drv, conv]
        for root, _, files in os.walk(COQ):
            deps += [os.path.join(root, f) for f in files if f.endswith(".vo")]
        if os.path.exists(binp) and all(os.path.getmtime(x) <= os.path.getmtime(binp) for x in deps if os.path.exists(x)):
            return binp, ""
        shutil.copy(ex, os.path.join(d, "Extract%s.v" % comp))
        rc, o, e = run(["timeout", "600", "coqc", "-Q", COQ, "BT", "Extract%s.v" % comp], cwd=d)
        if rc != 0:
            return None, o + e
        with open(os.path.join(d, "all.ml"), "w") as f:
            for p in (os.path.join(d, lc + ".ml"), conv, drv):
                f.write(open(p).read() + "\n")
        rc, o, e = run(["ocamlfind", "ocamlopt", "-w", "-a", "-O2", "all.ml", "-o", binp + ".tmp"], cwd=d)
        if rc != 0:
            return None, o + e
        os.replace(binp + ".tmp", binp)
        return binp, ""


# --------------------------------------------------------------------------- C++ side
def compile_harness(ctx, src, out_name, extra=(), includes=(), timeout=900):
    """compile harness/<src> against REPO's current working tree; returns (path|None, log)"""
    out = os.path.join(ctx.bdir, out_name)
    cmd = [CXX] + CXXFLAGS + list(extra) + ["-I" + i for i in includes]
    cmd += ["-I" + ctx.bdir, "-I" + os.path.join(VERIF, "harness")]
    cmd += ["-I" + os.path.join(REPO, i) for i in INCLUDES]
    cmd += [os.path.join(VERIF, "harness", src), "-o", out]
    try:
        rc, o, e = run(cmd, timeout=timeout)
    except subprocess.TimeoutExpired:
        return None, "compile timeout"
    return (out if rc == 0 else None), o + e


def parallel(jobs, fn, n=16):
    """run fn(job) for all jobs with up to n threads; returns results in order"""
    from concurrent.futures import ThreadPoolExecutor
    with ThreadPoolExecutor(max_workers=n) as ex:
        return list(ex.map(fn, jobs))


def split_outputs(text):
    res, cur = {}, None
    for line in text.splitlines():
        if line.startswith("CASE "):
            cur = line.split()[1]
            res[cur] = []
        elif cur is not None:
            res[cur].append(line.rstrip())
    return res


ASAN_ENV = dict(os.environ, ASAN_OPTIONS="detect_leaks=0:abort_on_error=0:exitcode=77", UBSAN_OPTIONS="print_stacktrace=0")


def run_impl(binary, cases, timeout=int(os.environ.get("VERIF_IMPL_TIMEOUT", "120"))):
    """feed the cases to the harness. A crash (sanitizer, assert, signal) inside a case is recorded as
    the output FAULT for the operation being executed; the remaining operations of that case get
    the output SKIPPED and the following cases are run in a fresh process."""
    results, faults = {}, {}
    todo = list(cases)
    while todo:
        text = "".join(c.text() for c in todo)
        try:
            p = subprocess.run([binary], input=text, capture_output=True, text=True, timeout=timeout, env=ASAN_ENV)
            rc, out, err = p.returncode, p.stdout, p.stderr
        except subprocess.TimeoutExpired as ex:
            rc, out, err = -9, (ex.stdout or b"").decode() if isinstance(ex.stdout, bytes) else (ex.stdout or ""), "TIMEOUT"
        got = split_outputs(out)
        if rc == 0:
            results.update(got)
            for c in todo:
                results.setdefault(c.name, [])
            break
        # find the case in which the process died
        died = None
        for idx, c in enumerate(todo):
            if c.name not in got:
                died = max(idx - 1, 0) if idx > 0 and len(got[todo[idx - 1].name]) < len(todo[idx - 1].ops) else idx
                break
            if len(got[c.name]) < len(c.ops):
                died = idx
                break
        if died is None:
            died = len(todo) - 1
        for c in todo[:died]:
            results[c.name] = got.get(c.name, [])
        c = todo[died]
        o = got.get(c.name, [])
        n = len(o)
        o = o + ["FAULT"] + ["SKIPPED"] * (len(c.ops) - n - 1)
        results[c.name] = o[:max(len(c.ops), 1)]
        msg = [l for l in err.splitlines() if "ERROR" in l or "runtime error" in l or "Assertion" in l or "TIMEOUT" in l]
        faults[c.name] = (n, (msg[0] if msg else "exit %s" % rc)[:300])
        todo = todo[died + 1:]
    return results, faults


def run_model(binary, cases, mode="model", outputs=None, timeout=600):
    if mode == "model":
        text = "".join(c.text() for c in cases)
    else:
        parts = []
        for c in cases:
            parts.append("CASE %s %s\n" % (c.name, " ".join(c.cfg)))
            outs = outputs.get(c.name, [])
            for i, o in enumerate(c.ops):
                parts.append("%s\t%s\n" % (o, outs[i] if i < len(outs) else "MISSING"))
        text = "".join(parts)
    p = subprocess.run([binary, mode], input=text, capture_output=True, text=True, timeout=timeout)
    if p.returncode != 0:
        raise RuntimeError("model driver failed (%s): %s" % (mode, p.stderr[-2000:]))
    return split_outputs(p.stdout)


def monitor_verdicts(binary, cases, outputs):
    """-> dict name -> None (property holds on the trace) | (pos, tag)"""
    r = run_model(binary, cases, "monitor", outputs)
    res = {}
    for c in cases:
        lines = r.get(c.name, [])
        v = lines[-1] if lines else "BAD 0 no-verdict"
        if v == "OK":
            res[c.name] = None
        else:
            w = v.split()
            res[c.name] = (int(w[1]), " ".join(w[2:])) if len(w) >= 3 and w[0] == "BAD" else (0, v)
    return res


def first_diff(a, b):
    for i in range(max(len(a), len(b))):
        x = a[i] if i < len(a) else "<none>"
        y = b[i] if i < len(b) else "<none>"
        if x != y:
            return i, x, y
    return None


def ddmin(ops, pred, budget=400):
    """delta debugging on a list; pred(list) -> True if still failing"""
    n, calls = 2, 0
    while len(ops) >= 2 and calls < budget:
        chunk = max(len(ops) // n, 1)
        reduced = False
        for i in range(0, len(ops), chunk):
            cand = ops[:i] + ops[i + chunk:]
            calls += 1
            if cand and pred(cand):
                ops, n, reduced = cand, max(n - 1, 2), True
                break
        if not reduced:
            if chunk == 1:
                break
            n = min(n * 2, len(ops))
    return ops


# --------------------------------------------------------------------------- known findings
def known_findings(pid):
    out = []
    p = os.path.join(VERIF, "known_findings.json")
    if os.path.exists(p):
        out += [f for f in json.load(open(p)).get("findings", []) if f.get("property") == pid]
    d = os.path.join(VERIF, "known_findings.d")
    if os.path.isdir(d):
        for f in sorted(os.listdir(d)):
            if f.endswith(".json"):
                out += [x for x in json.load(open(os.path.join(d, f))).get("findings", []) if x.get("property") == pid]
    return out


def match_known(findings, tag, case, pos):
    """a listed finding suppresses a monitor failure only if it is the *same* failure: same clause
    tag, and the entry's patterns match the configuration and the failing operation."""
    for f in findings:
        if f.get("status", "known") != "known":
            continue  # 'fixed' entries suppress nothing
        if f.get("tag") != tag:
            continue
        if f.get("cfg_re") and not re.search(f["cfg_re"], " ".join(case.cfg)):
            continue
        op = case.ops[pos] if pos < len(case.ops) else ""
        if f.get("op_re") and not re.search(f["op_re"], op):
            continue
        if f.get("trace_re") and not re.search(f["trace_re"], "\n".join(case.ops[:pos + 1])):
            continue
        return f
    return None


# --------------------------------------------------------------------------- result / evidence
class Result:
    def __init__(self, ctx):
        self.ctx = ctx
        self.violations = []     # (replay_path, no_input: bool, text)
        self.known = []          # text lines
        self.coverage = {}
        self.assumptions = []
        self.level = "proof"

    def violation(self, replay_text, name, no_input=False):
        path = os.path.join(self.ctx.out, name)
        with open(path, "w") as f:
            f.write(replay_text)
        self.violations.append((path, no_input))
        return path

    def finish(self):
        ctx = self.ctx
        ev = dict(property_id=ctx.pid, tier=ctx.tier, seed=ctx.seed, level=self.level,
                  coverage=self.coverage, assumptions=self.assumptions,
                  wall_s=round(time.time() - ctx.t0, 2), violations=len(self.violations))
        os.makedirs(os.path.join(VERIF, "evidence"), exist_ok=True)
        with open(os.path.join(VERIF, "evidence", ctx.pid + ".json"), "w") as f:
            json.dump(ev, f, indent=1, sort_keys=True)
            f.write("\n")
        for k in self.known:
            print("KNOWN-FINDING: property=%s %s" % (ctx.pid, k))
        for path, no_input in self.violations:
            print("VIOLATION property=%s replay=%s%s" % (ctx.pid, path, " no-failing-input-found" if no_input else ""))
        sys.stdout.flush()
        return 1 if self.violations else 0


# --------------------------------------------------------------------------- the standard check
class Standard:
    """Description of a check built from: theorems in Props/Properties_<id>.v, an extracted model+monitor
    binary for `component`, and a C++ harness. Fields:
      component      'NQueue'                         (extract/Extract<component>.v, ocaml/<component>_driver.ml)
      harness        'nqueue_harness.cpp'
      prepare(ctx, cases) -> list of (binary_key, extra_flags, [cases])  groups sharing one compiled harness;
                     may write include files into ctx.bdir
      generate(ctx) -> list[Case]
      nontrivial(case, outputs) -> bool
      trusted_base, assumptions : lists of strings
      canon(line) -> line           canonicalisation applied to both sides before diffing (optional)"""
    component = None
    harness = None
    extra_coq_targets = ()
    trusted_base = ()
    assumptions = ()
    monitor_enabled = True

    def prepare(self, ctx, cases):
        return [("harness", [], cases)]

    def generate(self, ctx):
        return []

    def nontrivial(self, case, outputs):
        return len(case.ops) > 1

    def canon(self, line):
        return line

    def search_extra(self, ctx):
        """more cases to try when a proof obligation or the correspondence is broken"""
        return []


def _eval_cases(ctx, std, cases, model_bin, res_notes):
    """compile harness groups, run impl + model + monitor. Returns (impl, model, verdicts, faults, compile_errors)"""
    groups = std.prepare(ctx, cases)

    cache = ctx.__dict__.setdefault("hcache", {})

    def comp(g):
        key, extra, cs = g
        if key not in cache:
            cache[key] = compile_harness(ctx, std.harness, key, extra=extra)
        b, lg = cache[key]
        return key, b, lg, cs
    built = parallel(groups, comp)
    impl, faults, cerr = {}, {}, []
    for key, b, lg, cs in built:
        if b is None:
            cerr.append((key, lg[-3000:]))
            for c in cs:
                impl[c.name] = ["NOBUILD"] * max(len(c.ops), 1)
        else:
            def runit(chunk, b=b):
                return run_impl(b, chunk)
            chunks = [cs[i::8] for i in range(8) if cs[i::8]]
            for r, f in parallel(chunks, runit, 8):
                impl.update(r)
                faults.update(f)
    for k in impl:
        impl[k] = [std.canon(x) for x in impl[k]]
    model = run_model(model_bin, cases, "model")
    for k in model:
        model[k] = [std.canon(x) for x in model[k]]
    verd = monitor_verdicts(model_bin, cases, impl) if std.monitor_enabled else {c.name: None for c in cases}
    return impl, model, verd, faults, cerr


def standard_check(ctx, std):
    res = Result(ctx)
    pid = ctx.pid
    tb = ["Coq 8.16.1 kernel (coqc; vm_compute used for finite sweeps and witnesses; no native_compute)",
          "extraction with ExtrOcamlBasic only, OCaml 4.13.1, ocaml/conv.ml + ocaml/%s_driver.ml" % std.component.lower(),
          "harness/%s + harness/verif_common.hpp compiled with g++ -fsanitize=address,undefined against %s" % (std.harness, REPO),
          "vlib/core.py runner (diff, monitor application, shrinking)"] + list(std.trusted_base)
    # ---- 1. proof obligations
    bad_tokens = forbidden_scan()
    with _Lock("coqsession.lock"):  # translate + build + re-check as one unit, so that a concurrent run
        # against another source tree (VERIF_REPO) cannot swap the generated constants in between
        ok_build, blog = coq_build(["Props/Properties_%s.vo" % pid] + list(std.extra_coq_targets))
        ob = obligations(pid) if os.path.exists(os.path.join(COQ, "Props", "Properties_%s.v" % pid)) else \
            dict(names=[], ok=False, axioms=[], bad_axioms=[], log="missing Properties file", file="-", closed_blocks=0)
        model_bin, mlog = build_model(std.component)
    proof_ok = ok_build and ob["ok"] and not ob["bad_axioms"] and not bad_tokens and len(ob["names"]) > 0
    proof_fail_text = ""
    if not proof_ok:
        errs = re.findall(r'File "([^"]+)", line (\d+).*?\n(Error:(?:.|\n)*?)(?=\n\S*make|\nFile|\Z)', blog + ob["log"])
        proof_fail_text = "proof obligations of %s no longer check\n" % ob["file"]
        proof_fail_text += "theorems in file: %s\n" % ", ".join(ob["names"])
        if bad_tokens:
            proof_fail_text += "forbidden tokens: %s\n" % "; ".join(bad_tokens)
        if ob["bad_axioms"]:
            proof_fail_text += "axioms outside the allow-list: %s\n" % ", ".join(ob["bad_axioms"])
        for f, l, e in errs[:5]:
            proof_fail_text += "%s:%s %s\n" % (f, l, e.strip()[:600])
        if not errs:
            proof_fail_text += (blog + ob["log"])[-1500:]
    # ---- 2. model binary
    if model_bin is None:
        res.coverage = dict(obligations=max(len(ob["names"]), 1), discharged=0, checker_cmd="make -C coq",
                            trusted_base=tb, explanation="model extraction failed: " + mlog[-800:])
        res.violation(proof_fail_text + "\nmodel could not be extracted/compiled:\n" + mlog[-3000:],
                      "replay-model-build.txt", no_input=True)
        return res.finish()
    # ---- 3. cases
    if ctx.replay:
        cases = parse_cases(open(ctx.replay).read(), "replay")
        for i, c in enumerate(cases):
            c.name = "replay%d" % i
    else:
        cases = load_corpus(pid) + std.generate(ctx)
    seen, uniq = set(), []
    for c in cases:
        if c.key() not in seen:
            seen.add(c.key())
            uniq.append(c)
    for i, c in enumerate(uniq):
        c.name = "%s_%d" % (c.name.split("#")[0], i)
    cases = uniq
    impl, model, verd, faults, cerr = _eval_cases(ctx, std, cases, model_bin, res)
    # ---- 4. judge
    findings = known_findings(pid)
    byname = {c.name: c for c in cases}
    disagreements = []
    for c in cases:
        d = first_diff(impl.get(c.name, []), model.get(c.name, []))
        if d:
            disagreements.append((c, d))
    mon_fail = [(byname[n], v) for n, v in verd.items() if v is not None]
    reported_tags = set()
    nviol = 0
    for c, (pos, tag) in mon_fail:
        agree = first_diff(impl[c.name][:pos + 1], model[c.name][:pos + 1]) is None
        kf = match_known(findings, tag, c, pos) if agree else None
        if kf:
            line = "%s [%s]" % (kf.get("what", tag), kf.get("id", tag))
            if line not in res.known:
                res.known.append(line)
            continue
        sig = (tag, " ".join(c.cfg))
        if sig in reported_tags or nviol >= 5:
            continue
        reported_tags.add(sig)
        small = shrink_case(ctx, std, c, tag, model_bin)
        i2, m2, v2, f2, _ = _eval_cases(ctx, std, [small], model_bin, res)
        sv = v2.get(small.name)
        if sv is not None and first_diff(i2[small.name][:sv[0] + 1], m2[small.name][:sv[0] + 1]) is None:
            # the minimal failing trace is reproduced exactly by the model: if it is a listed finding it is
            # that finding (found through a longer trace that also contained an unrelated disagreement,
            # which is reported separately as broken correspondence below)
            kf = match_known(findings, sv[1], small, sv[0])
            if kf:
                line = "%s [%s]" % (kf.get("what", tag), kf.get("id", tag))
                if line not in res.known:
                    res.known.append(line)
                continue
        nviol += 1
        txt = small.text() + "# property %s violated on the implementation: monitor clause '%s' at operation %d of the unshrunk case\n" % (pid, tag, pos)
        txt += "# implementation outputs: %s\n# model outputs:          %s\n" % (" | ".join(i2[small.name]), " | ".join(m2[small.name]))
        if small.name in f2:
            txt += "# fault: %s\n" % (f2[small.name][1],)
        res.violation(txt, "replay-%d.trace" % nviol)
    broken = []
    if not proof_ok:
        broken.append(proof_fail_text)
    if cerr:
        broken.append("harness no longer compiles against the source tree:\n" + "\n".join("%s: %s" % (k, l[-1200:]) for k, l in cerr[:2]))
    if disagreements and not res.violations:
        c, (i, x, y) = disagreements[0]
        broken.append("correspondence broken: %d case(s) where implementation and model differ; first: case %s op %d '%s': implementation '%s' model '%s'\n%s"
                      % (len(disagreements), c.name, i, c.ops[i] if i < len(c.ops) else "-", x, y, c.text()))
    searched = 0
    if broken and not res.violations and not ctx.replay:
        # search harder for a failing input before reporting without one
        extra = std.search_extra(ctx)
        if extra:
            for i, c in enumerate(extra):
                c.name = "search_%d" % i
            i3, m3, v3, f3, _ = _eval_cases(ctx, std, extra, model_bin, res)
            searched = len(extra)
            for c in extra:
                v = v3.get(c.name)
                if v is not None and not (match_known(findings, v[1], c, v[0]) and first_diff(i3[c.name][:v[0] + 1], m3[c.name][:v[0] + 1]) is None):
                    small = shrink_case(ctx, std, c, v[1], model_bin)
                    i4, m4, v4, f4, _ = _eval_cases(ctx, std, [small], model_bin, res)
                    sv = v4.get(small.name)
                    if sv is not None and first_diff(i4[small.name][:sv[0] + 1], m4[small.name][:sv[0] + 1]) is None \
                            and match_known(findings, sv[1], small, sv[0]):
                        continue  # the minimal trace is a listed finding reproduced by the model: not the new failure
                    res.violation(small.text() + "# property %s violated on the implementation: monitor clause '%s'\n" % (pid, v[1])
                                  + "# implementation outputs: %s\n# model outputs:          %s\n" % (" | ".join(i4[small.name]), " | ".join(m4[small.name])),
                                  "replay-search.trace")
                    break
        if not res.violations:
            res.violation("\n\n".join(broken) + "\n# no input on which the property fails was found (%d generated + %d search cases)\n"
                          % (len(cases), searched), "replay-unproved.txt", no_input=True)
    # ---- 5. evidence
    nontriv = set()
    kinds = {}
    for c in cases:
        if std.nontrivial(c, impl.get(c.name, [])):
            nontriv.add(c.key())
        for o in c.ops:
            k = o.split()[0] if o.split() else "-"
            kinds[k] = kinds.get(k, 0) + 1
    outk = {}
    for n, outs in impl.items():
        for o in outs:
            k = o.split()[0] if o.split() else "-"
            k = k if not re.fullmatch(r"[0-9a-f]{6,}", k) else "bytes"
            outk[k] = outk.get(k, 0) + 1
    sample = [dict(cfg=" ".join(c.cfg), ops=c.ops[:40], impl=impl.get(c.name, [])[:40]) for c in cases[:1] + cases[len(cases) // 2:len(cases) // 2 + 1]]
    res.coverage = dict(
        obligations=max(len(ob["names"]), 1), discharged=len(ob["names"]) if proof_ok else 0,
        theorems=ob["names"], axioms_reported=ob["axioms"], closed_under_global_context_blocks=ob["closed_blocks"],
        checker_cmd="make -C coq Props/Properties_%s.vo && coqc -Q coq BT coq/Props/Properties_%s.v (Print Assumptions parsed); bin/check %s --tier %s" % (pid, pid, pid, ctx.tier),
        trusted_base=tb, evaluations=len(cases), distinct_nontrivial=len(nontriv),
        rule="cases = corpus + seeded generator (VERIF_SEED); each is run on the C++ implementation (harness) and on the extracted Coq model, outputs compared line by line, and the extracted monitor judges the implementation's trace; non-trivial per property module (nontrivial())",
        traces_validated_against_impl=len(cases) - len(disagreements), disagreements=len(disagreements),
        monitor_failures=len(mon_fail), sanitizer_or_assert_faults=len(faults), harness_groups_failed_to_compile=len(cerr),
        operation_kinds=dict(sorted(kinds.items())), output_kinds=dict(sorted(outk.items(), key=lambda x: -x[1])[:25]),
        configurations=len(set(" ".join(c.cfg) for c in cases)), samples=sample, exhaustive=False)
    if ctx.thorough and proof_ok and not ctx.replay and os.environ.get("VERIF_COQCHK", "1") != "0":
        # independent re-check of the compiled theorems file and everything it depends on
        try:
            with _Lock("coqsession.lock"):
                rc, o, e = run(["timeout", "1500", "coqchk", "-o", "-silent", "-Q", ".", "BT", "BT.Props.Properties_%s" % pid], cwd=COQ)
            ax = re.findall(r"^\s*([A-Za-z0-9_.']+)\s*$", (o + e).split("Axioms:")[-1], flags=re.M) if "Axioms:" in o + e else []
            res.coverage["coqchk"] = dict(exit=rc, axioms_of_all_loaded_libraries=ax[:40], tail=(o + e)[-400:])
            if rc != 0:
                res.violation("coqchk rejects Props/Properties_%s.vo or a dependency:\n%s" % (pid, (o + e)[-3000:]),
                              "replay-coqchk.txt", no_input=True)
        except Exception as ex:  # never let the extra checker turn a run into a crash
            res.coverage["coqchk"] = dict(error=repr(ex))
    res.assumptions = list(std.assumptions)
    return res.finish()


def shrink_case(ctx, std, case, tag, model_bin):
    def pred(ops):
        c = Case("shrink", case.cfg, ops)
        try:
            i, m, v, f, ce = _eval_cases(ctx, std, [c], model_bin, None)
        except Exception:
            return False
        return v.get("shrink") is not None and v["shrink"][1] == tag
    try:
        ops = ddmin(list(case.ops), pred, budget=120)
    except Exception:
        ops = list(case.ops)
    return Case("min", case.cfg, ops, "shrunk")
