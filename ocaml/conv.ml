(* conversions between OCaml ints/strings and the extracted nat / positive / N / Z.
   Textually appended after the extracted module (same top-level namespace). *)
let rec nat_of_int i = if i <= 0 then O else S (nat_of_int (i - 1))
let rec int_of_nat = function O -> 0 | S n -> 1 + int_of_nat n
let rec pos_of_int i = if i <= 1 then XH else if i land 1 = 0 then XO (pos_of_int (i lsr 1)) else XI (pos_of_int (i lsr 1))
let rec int_of_pos = function XH -> 1 | XO p -> 2 * int_of_pos p | XI p -> 2 * int_of_pos p + 1
let n_of_int i = if i <= 0 then N0 else Npos (pos_of_int i)
let int_of_n = function N0 -> 0 | Npos p -> int_of_pos p
let z_of_int i = if i = 0 then Z0 else if i > 0 then Zpos (pos_of_int i) else Zneg (pos_of_int (-i))
let int_of_z = function Z0 -> 0 | Zpos p -> int_of_pos p | Zneg p -> - (int_of_pos p)
let _ = conv_anchor
let words s = List.filter (fun w -> w <> "") (String.split_on_char ' ' (String.trim s))
let bytes_of_hex s = (* "0a1bff" -> N list *)
  let s = String.trim s in
  if s = "-" then [] else
  List.init (String.length s / 2) (fun i -> n_of_int (int_of_string ("0x" ^ String.sub s (2*i) 2)))
let hex_of_bytes l = if l = [] then "-" else String.concat "" (List.map (fun b -> Printf.sprintf "%02x" (int_of_n b)) l)
let ints_of_csv s = if s = "-" then [] else List.map int_of_string (String.split_on_char ',' s)
(* generic main loop: [reset cfgwords] at every CASE line, then [model line] or [monitor line outline] *)
let main_loop ~(reset : string list -> unit) ~(model : string -> string) ~(monitor : string -> string -> string option) ~(finish : unit -> string) =
  let mode = if Array.length Sys.argv > 1 then Sys.argv.(1) else "model" in
  let open_case = ref false in
  let close () = if !open_case && mode = "monitor" then print_endline (finish ()) in
  (try
    while true do
      let line = input_line stdin in
      if String.length line >= 4 && String.sub line 0 4 = "CASE" then begin
        close ();
        (match words line with
         | _ :: name :: cfg -> print_endline ("CASE " ^ name); reset cfg; open_case := true
         | _ -> failwith "bad CASE line")
      end else if String.trim line <> "" then begin
        if mode = "monitor" then begin
          match String.index_opt line '\t' with
          | Some k ->
              let o = String.sub line 0 k and r = String.sub line (k+1) (String.length line - k - 1) in
              (match monitor o r with Some msg -> print_endline msg | None -> ())
          | None -> failwith ("monitor mode needs op<TAB>output: " ^ line)
        end else print_endline (model line)
      end
    done
  with End_of_file -> close ())
