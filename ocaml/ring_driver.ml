(* driver for the Ring model (C30):  CASE <name> <S>
   ops      p <value> | c                     one memory access of the producer / the consumer
   outputs  ld_r x | ld_w x | wr_d i v | st_w x | rd_d i v | st_r x   [ret 0 | ret 1 | ret 1 <v>]
            FAULT *)
let st = ref (init O)
let mo = ref (minit O)
let pos = ref 0
let bad = ref None
let ni s = nat_of_int (int_of_string s)
let nn s = n_of_int (int_of_string s)
let parse_op l = match words l with
  | ["p"; v] -> OpP (nn v)
  | ["c"] -> OpC
  | _ -> failwith ("bad op: " ^ l)
let show_acc = function
  | LdR x -> Printf.sprintf "ld_r %d" (int_of_nat x)
  | LdW x -> Printf.sprintf "ld_w %d" (int_of_nat x)
  | WrD (i, v) -> Printf.sprintf "wr_d %d %d" (int_of_nat i) (int_of_n v)
  | StW x -> Printf.sprintf "st_w %d" (int_of_nat x)
  | RdD (i, v) -> Printf.sprintf "rd_d %d %d" (int_of_nat i) (int_of_n v)
  | StR x -> Printf.sprintf "st_r %d" (int_of_nat x)
let show_out = function
  | Out (a, RNone) -> show_acc a
  | Out (a, RFail) -> show_acc a ^ " ret 0"
  | Out (a, RPushOk) -> show_acc a ^ " ret 1"
  | Out (a, RPopOk v) -> show_acc a ^ Printf.sprintf " ret 1 %d" (int_of_n v)
  | OFault -> "FAULT"
  | OJunk -> "JUNK"
let parse_out l =
  try
    let acc, rest = match words l with
      | "ld_r" :: x :: r -> LdR (ni x), r
      | "ld_w" :: x :: r -> LdW (ni x), r
      | "wr_d" :: i :: v :: r -> WrD (ni i, nn v), r
      | "st_w" :: x :: r -> StW (ni x), r
      | "rd_d" :: i :: v :: r -> RdD (ni i, nn v), r
      | "st_r" :: x :: r -> StR (ni x), r
      | ["FAULT"] -> raise Exit
      | _ -> raise Not_found in
    let ret = match rest with
      | [] -> RNone
      | ["ret"; "0"] -> RFail
      | ["ret"; "1"] -> RPushOk
      | ["ret"; "1"; v] -> RPopOk (nn v)
      | _ -> raise Not_found in
    Out (acc, ret)
  with Exit -> OFault | _ -> OJunk
let tag_name t = match int_of_nat t with
  | 1 -> "fault" | 2 -> "shape" | 3 -> "slot_range" | 4 -> "data_race" | 5 -> "push_overflow"
  | 6 -> "push_result" | 7 -> "push_fail_not_full" | 8 -> "pop_empty" | 9 -> "pop_result"
  | 10 -> "pop_value" | 11 -> "pop_fail_not_empty" | _ -> "unknown"
let () = main_loop
  ~reset:(fun cfg -> let s = ni (List.hd cfg) in st := init s; mo := minit s; pos := 0; bad := None)
  ~model:(fun l -> let (s', r) = step !st (parse_op l) in st := s'; show_out r)
  ~monitor:(fun o r ->
     (if !bad = None then
        match mstep !mo (parse_op o) (parse_out r) with
        | (Ok, m') -> mo := m'
        | (Bad t, _) -> bad := Some (!pos, tag_name t));
     incr pos; None)
  ~finish:(fun () -> match !bad with None -> "OK" | Some (p, t) -> Printf.sprintf "BAD %d %s" p t)
