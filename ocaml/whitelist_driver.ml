(* driver for the WhiteList model.   CASE <name> sw <N> <R>   software list of capacity N (R < N unused)
                                     CASE <name> hw <N> <R>   forwarding class over a radio with R entries
   ops: add|rem|in|cin|sin <p|r> <12 hex digits> | free | clr | cf <0|1> | cf? | sf <0|1> | sf?
   outputs: true|false | <decimal> | - | FAULT
   The monitor judges against a set of capacity N (sw) resp. R (hw: the radio's capacity). *)
type model = Sw of state | Hw of mon
let st = ref (Sw (init O))
let mo = ref (minit O)
let pos = ref 0
let bad = ref None
let parse_addr t h =
  if (t <> "p" && t <> "r") || String.length h <> 12 then failwith ("bad address: " ^ t ^ " " ^ h);
  { aval = n_of_int (int_of_string ("0x" ^ h)); arandom = (t = "r") }
let parse_flag = function "0" -> false | "1" -> true | s -> failwith ("bad flag: " ^ s)
let parse_op l = match words l with
  | ["add"; t; h] -> Add (parse_addr t h)
  | ["rem"; t; h] -> Remove (parse_addr t h)
  | ["in"; t; h] -> IsIn (parse_addr t h)
  | ["cin"; t; h] -> ConnIn (parse_addr t h)
  | ["sin"; t; h] -> ScanIn (parse_addr t h)
  | ["free"] -> FreeSize | ["clr"] -> Clear
  | ["cf"; b] -> SetConn (parse_flag b) | ["cf?"] -> GetConn
  | ["sf"; b] -> SetScan (parse_flag b) | ["sf?"] -> GetScan
  | _ -> failwith ("bad op: " ^ l)
let show_out = function
  | OBool b -> if b then "true" else "false"
  | ONat n -> string_of_int (int_of_nat n)
  | OUnit -> "-"
  | OFault -> "FAULT"
let parse_out l = match words l with
  | ["true"] -> OBool true | ["false"] -> OBool false | ["-"] -> OUnit
  | ["FAULT"] | ["SKIPPED"] | ["NOBUILD"] | ["MISSING"] -> OFault
  | [n] -> (match int_of_string_opt n with Some i when i >= 0 -> ONat (nat_of_int i) | _ -> OFault)
  | _ -> OFault
let tag_name t = match int_of_nat t with
  | 1 -> "add_result" | 2 -> "add_idempotent" | 3 -> "remove_exact" | 4 -> "contains"
  | 5 -> "filter_conn" | 6 -> "filter_scan" | 7 -> "capacity" | 8 -> "fault" | _ -> "shape"
let () = main_loop
  ~reset:(fun cfg ->
     (match cfg with
      | ["sw"; n; _] -> let n = nat_of_int (int_of_string n) in st := Sw (init n); mo := minit n
      | ["hw"; _; r] -> let r = nat_of_int (int_of_string r) in st := Hw (minit r); mo := minit r
      | _ -> failwith "bad configuration");
     pos := 0; bad := None)
  ~model:(fun l -> match !st with
     | Sw s -> let (s', r) = step s (parse_op l) in st := Sw s'; show_out r
     | Hw m -> let (m', r) = hw_ref_step m (parse_op l) in st := Hw m'; show_out r)
  ~monitor:(fun o r ->
     (if !bad = None then
        match mstep !mo (parse_op o) (parse_out r) with
        | (Ok, m') -> mo := m'
        | (Bad t, _) -> bad := Some (!pos, tag_name t));
     incr pos; None)
  ~finish:(fun () -> match !bad with None -> "OK" | Some (p, t) -> Printf.sprintf "BAD %d %s" p t)
