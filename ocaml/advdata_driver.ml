(* driver for the AdvData model (C14).
   cfg words: <decl id> n=<none|-|hex> a=<none|dec> u16=<-|dec,dec..> u128=<-|32hex,..> r=<none|min:max>
              ca=<none|hex> cs=<none|hex> rt=<0..3>          (written by props/C14.py from the declaration table)
   ops: adv <b> | scan <b> | setadv <hex> | setscan <hex>
   outputs: "<r> <hex of the whole buffer>" | done | na | FAULT *)
let dflt = { name = None; appearance = None; uuids16 = []; uuids128 = []; range = None;
             custom_adv = None; custom_scan = None; runtime_adv = false; runtime_scan = false }
let cfg = ref dflt
let st = ref (init dflt)
let mo = ref minit
let pos = ref 0
let bad = ref None
let opt_hex v = if v = "none" then None else Some (bytes_of_hex v)
let csv v = if v = "-" then [] else String.split_on_char ',' v
let cfg_of ws =
  List.fold_left (fun c w ->
    match String.index_opt w '=' with
    | None -> c
    | Some k ->
      let key = String.sub w 0 k and v = String.sub w (k+1) (String.length w - k - 1) in
      (match key with
       | "n" -> { c with name = opt_hex v }
       | "a" -> { c with appearance = if v = "none" then None else Some (n_of_int (int_of_string v)) }
       | "u16" -> { c with uuids16 = List.map (fun x -> n_of_int (int_of_string x)) (csv v) }
       | "u128" -> { c with uuids128 = List.map bytes_of_hex (csv v) }
       | "r" -> { c with range = if v = "none" then None else
                   (match String.split_on_char ':' v with
                    | [a; b] -> Some (n_of_int (int_of_string a), n_of_int (int_of_string b))
                    | _ -> failwith ("bad range " ^ v)) }
       | "ca" -> { c with custom_adv = opt_hex v }
       | "cs" -> { c with custom_scan = opt_hex v }
       | "rt" -> let i = int_of_string v in { c with runtime_adv = i land 1 <> 0; runtime_scan = i land 2 <> 0 }
       | _ -> failwith ("bad cfg word " ^ w))) dflt ws
let parse_op l = match words l with
  | ["adv"; b] -> Adv (nat_of_int (int_of_string b))
  | ["scan"; b] -> Scan (nat_of_int (int_of_string b))
  | ["setadv"; h] -> SetAdv (bytes_of_hex h)
  | ["setscan"; h] -> SetScan (bytes_of_hex h)
  | _ -> failwith ("bad op: " ^ l)
let show_out = function
  | ORes (r, b) -> string_of_int (int_of_nat r) ^ " " ^ hex_of_bytes b
  | OFault -> "FAULT" | ODone -> "done" | ONa -> "na"
let parse_out l = match words l with
  | ["done"] -> ODone | ["na"] -> ONa
  | [r; h] when (try ignore (int_of_string r); true with _ -> false) -> ORes (nat_of_int (int_of_string r), bytes_of_hex h)
  | _ -> OFault
let tag_name t = match int_of_nat t with
  | 1 -> "overflow" | 2 -> "length" | 3 -> "tiling" | 4 -> "flags_first" | 5 -> "name_kind" | 6 -> "uuid_kind"
  | 7 -> "over31" | 8 -> "custom" | 9 -> "ad_type" | _ -> "shape"
let () = main_loop
  ~reset:(fun c -> cfg := cfg_of c; st := init !cfg; mo := minit; pos := 0; bad := None)
  ~model:(fun l -> let (s', r) = step !cfg !st (parse_op l) in st := s'; show_out r)
  ~monitor:(fun o r ->
     (if !bad = None then
        match mstep !cfg !mo (parse_op o) (parse_out r) with
        | (Ok, m') -> mo := m'
        | (Bad t, _) -> bad := Some (!pos, tag_name t));
     incr pos; None)
  ~finish:(fun () -> match !bad with None -> "OK" | Some (p, t) -> Printf.sprintf "BAD %d %s" p t)
