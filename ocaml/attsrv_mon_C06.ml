(* C06 monitor glue: AttSrvSpecC06.mstep (reference semantics AttSrvSpecVal) over the observed result lines *)
let c06_tag t = match int_of_nat t with
  | 1 -> "write_exact" | 2 -> "rejected_changes" | 3 -> "read_value" | 4 -> "invalid_offset" | 5 -> "permission"
  | 6 -> "properties_match" | _ -> "shape"
let c06_mon = ref None
let () = att_main
  ~mon_reset:(fun c -> c06_mon := Some (minit c))
  ~mon_step:(fun c o r ->
    match o with
    | Dump -> None
    | Op op ->
        (match mstep c (Option.get !c06_mon) op (parse_out o r) with
         | (Ok, m') -> c06_mon := Some m'; None
         | (Bad t, _) -> Some (c06_tag t)))
