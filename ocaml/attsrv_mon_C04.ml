(* C04 monitor glue: the dump line and Read Responses are judged by AttDbSpec.check_dump / check_read *)
let c04_tag t = match int_of_nat t with
  | 1 -> "handles" | 2 -> "index_by_handle" | 3 -> "decl_value" | 4 -> "include_value" | 5 -> "uuids" | 7 -> "reported_handle" | _ -> "shape"
let c04_field line k =
  let ws = words line in
  let p = k ^ "=" in
  match List.filter (fun w -> String.length w > String.length p && String.sub w 0 (String.length p) = p) ws with
  | w :: _ -> Some (String.sub w (String.length p) (String.length w - String.length p))
  | [] -> None
let c04_ints conv s = if s = "-" then [] else List.map conv (String.split_on_char ',' s)
let c04_idx s = if s = "x" then invalid_index else n_of_int (int_of_string s)
let () = att_main
  ~mon_reset:(fun _ -> ())
  ~mon_step:(fun c o r ->
    let verdict v = match v with Ok -> None | Bad t -> Some (c04_tag t) in
    match o with
    | Dump ->
        (match c04_field r "hbi", c04_field r "fibh", c04_field r "ibh", c04_field r "uuid" with
         | Some h, Some f, Some i, Some u ->
             verdict (check_dump c (c04_ints (fun x -> n_of_int (int_of_string x)) h) (c04_ints c04_idx f) (c04_ints c04_idx i)
                        (c04_ints (fun x -> n_of_int (int_of_string ("0x" ^ x))) u))
         | _ -> Some "shape")
    | Op (OpIn (_, [op; lo; hi], n)) when int_of_n op = 10 && int_of_n n >= 23 ->
        (match parse_out o r with
         | OBytes resp -> verdict (check_read c (n_of_int (int_of_n lo + 256 * int_of_n hi)) resp)
         | OFault -> if String.trim r = "SKIPPED" then None else Some "fault"
         | _ -> Some "shape")
    | Op (OpIn (_, (op :: _ as pdu), n)) when List.mem (int_of_n op) [4; 6; 8; 16] && int_of_n n >= 23 ->
        (* handles reported in discovery responses *)
        (match parse_out o r with
         | OBytes resp -> verdict (check_discovery c pdu resp)
         | OFault -> if String.trim r = "SKIPPED" then None else Some "fault"
         | _ -> Some "shape")
    | _ -> None)
