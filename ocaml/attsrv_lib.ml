(* Shared part of every AttDb/AttSrv driver (textually placed after the extracted module and conv.ml,
   before ocaml/attsrv_mon_<Cxx>.ml; props/att_common.py: ensure_driver concatenates them into
   ocaml/attsrv<cxx>_driver.ml). Parses the cfg encoding of gen/emit_cpp.py into AttDbModel.cfg, parses
   operations and result lines, prints results exactly as harness/attsrv_harness.cpp does, and runs
   the model. A monitor file ends with:   let () = att_main ~mon_reset ~mon_step ~mon_finish   *)
let split c s = String.split_on_char c s
let hex_byte s i = int_of_string ("0x" ^ String.sub s i 2)
let bytes_of_hex_raw s = List.init (String.length s / 2) (fun i -> n_of_int (hex_byte s (2 * i)))
let parse_uuid s =
  if String.length s = 4 then U16 (n_of_int (int_of_string ("0x" ^ s)))
  else if String.length s = 32 then U128 (List.rev (bytes_of_hex_raw s))
  else failwith ("bad uuid " ^ s)
let parse_list f s = if s = "-" then [] else List.map f (split ',' s)
let parse_enc s = { e_req = String.contains s 'r'; e_noreq = String.contains s 'n'; e_may = String.contains s 'm' }
let kv w = match String.index_opt w '=' with
  | Some k -> (String.sub w 0 k, String.sub w (k + 1) (String.length w - k - 1))
  | None -> (w, "")
let parse_value s = match split ':' s with
  | ["b"; n] -> VBind (n_of_int (int_of_string n), false)
  | ["cb"; n] -> VBind (n_of_int (int_of_string n), true)
  | ["f"; n; v] -> VFixed (n_of_int (int_of_string n), n_of_int (int_of_string ("0x" ^ v)))
  | ["s"; h] | ["x"; h] -> VString (bytes_of_hex_raw h)
  | ["hd"; n; fl] -> VHandler (n_of_int (int_of_string n), String.contains fl 'r', String.contains fl 'w', String.contains fl 'b')
  | _ -> failwith ("bad value " ^ s)
let parse_handle s =
  if s = "-" then HNone else
  match split '/' s with
  | [h] -> HOne (n_of_int (int_of_string h))
  | [d; v; c] -> HThree (n_of_int (int_of_string d), n_of_int (int_of_string v), n_of_int (int_of_string c))
  | _ -> failwith ("bad handle " ^ s)
let parse_desc s = match split ':' s with
  | [u; h] -> (n_of_int (int_of_string ("0x" ^ u)), bytes_of_hex_raw h)
  | _ -> failwith ("bad descriptor " ^ s)

(* groups of key=value words: head (server options), then S / C sections *)
let parse_cfg (enc : string) : cfg =
  let words = split ';' enc in
  let get l k = try List.assoc k l with Not_found -> failwith ("missing " ^ k) in
  (* split into sections *)
  let rec sections cur acc = function
    | [] -> List.rev (List.rev cur :: acc)
    | ("S" | "C") as m :: t -> sections [(m, "")] (List.rev cur :: acc) t
    | w :: t -> sections (kv w :: cur) acc t in
  let secs = sections [] [] words in
  let head = List.hd secs in
  let mk_char l =
    let opts = parse_list (fun x -> x) (get l "opt") in
    let name = get l "name" in
    { c_uuid = parse_uuid (get l "u"); c_handle = parse_handle (get l "h"); c_value = parse_value (get l "v");
      c_no_read = List.mem "nr" opts; c_no_write = List.mem "nw" opts; c_notify = List.mem "n" opts;
      c_indicate = List.mem "i" opts; c_wwr = List.mem "wwr" opts; c_owwr = List.mem "owwr" opts;
      c_name = (if name = "-" then None else Some (bytes_of_hex_raw (String.sub name 1 (String.length name - 1))));
      c_descs = parse_list parse_desc (get l "desc"); c_enc = parse_enc (get l "enc") } in
  let mk_svc l chars =
    let h = get l "h" in
    { s_uuid = parse_uuid (get l "u"); s_secondary = get l "sec" = "1";
      s_handle = (if h = "-" then None else Some (n_of_int (int_of_string h)));
      s_includes = parse_list parse_uuid (get l "inc"); s_chars = List.rev chars;
      s_enc = parse_enc (get l "enc"); s_prio = parse_list parse_uuid (get l "prio") } in
  let rec build svcs cur = function
    | [] -> List.rev (match cur with Some (l, cs) -> mk_svc l cs :: svcs | None -> svcs)
    | (("S", _) :: l) :: t ->
        build (match cur with Some (l0, cs) -> mk_svc l0 cs :: svcs | None -> svcs) (Some (l, [])) t
    | (("C", _) :: l) :: t ->
        (match cur with Some (l0, cs) -> build svcs (Some (l0, mk_char l :: cs)) t | None -> failwith "C before S")
    | _ -> failwith "bad section" in
  let wq = get head "wq" in
  { services = build [] None (List.tl secs); max_mtu = n_of_int (int_of_string (get head "mtu"));
    wqueue = (if wq = "-" then None else Some (n_of_int (int_of_string wq)));
    prio = parse_list parse_uuid (get head "prio"); enc = parse_enc (get head "enc") }

(* ---- operations and results *)
type aop = Op of srv_op | Dump
let conn_of s = nat_of_int (int_of_string s mod 3)
let parse_op l = match words l with
  | ["in"; c; h; n] -> Op (OpIn (conn_of c, bytes_of_hex h, n_of_int (int_of_string n)))
  | ["out"; c; n] -> Op (OpOut (conn_of c, n_of_int (int_of_string n)))
  | ["sec"; c; e; p] -> Op (OpSec (conn_of c, e <> "0", n_of_int (int_of_string p land 3)))
  | ["disc"; c] -> Op (OpDisc (conn_of c))
  | ["notify"; k] -> Op (OpNotify (false, KNotif, nat_of_int (int_of_string k)))
  | ["indicate"; k] -> Op (OpNotify (false, KInd, nat_of_int (int_of_string k)))
  | ["notify_uuid"; k] -> Op (OpNotify (true, KNotif, nat_of_int (int_of_string k)))
  | ["indicate_uuid"; k] -> Op (OpNotify (true, KInd, nat_of_int (int_of_string k)))
  | ["val"; k] -> Op (OpVal (nat_of_int (int_of_string k)))
  | ["setval"; k; h] -> Op (OpSetVal (nat_of_int (int_of_string k), bytes_of_hex h))
  | ["dump"] -> Dump
  | _ -> failwith ("bad op: " ^ l)
let show_out = function
  | OBytes l -> hex_of_bytes l
  | OFault -> "FAULT"
  | OBits l -> String.concat "" (List.map (fun b -> if b then "1" else "0") l)
  | ONone -> "-"
  | ONa -> "NA"
  | OValue (l, None) -> hex_of_bytes l
  | OValue (l, Some ((r, w), e)) -> Printf.sprintf "%s r%d w%d e%d" (hex_of_bytes l) (int_of_n r) (int_of_n w) (int_of_n e)
(* result line of the implementation -> srv_out (for monitors); unknown lines become OFault *)
let parse_out (o : aop) (l : string) : srv_out =
  let l = String.trim l in
  let is_hex s = s <> "" && String.length s mod 2 = 0 && (let ok = ref true in String.iter (fun ch -> if not ((ch >= '0' && ch <= '9') || (ch >= 'a' && ch <= 'f')) then ok := false) s; !ok) in
  match o, words l with
  | _, ["NA"] -> ONa
  | Op (OpIn _), ["-"] | Op (OpOut _), ["-"] -> OBytes []
  | (Op (OpIn _) | Op (OpOut _)), [h] when is_hex h -> OBytes (bytes_of_hex h)
  | Op (OpNotify _), [b] when b <> "FAULT" && b <> "SKIPPED" -> OBits (List.init (String.length b) (fun i -> b.[i] = '1'))
  | Op (OpVal _), [h] when h = "-" || is_hex h -> OValue (bytes_of_hex h, None)
  | Op (OpVal _), [h; r; w; e] ->
      let num s = n_of_int (int_of_string (String.sub s 1 (String.length s - 1))) in
      OValue (bytes_of_hex h, Some ((num r, num w), num e))
  | _, ["-"] -> ONone
  | _ -> OFault

let csv l = if l = [] then "-" else String.concat "," l
let show_idx i = if i = invalid_index then "x" else string_of_int (int_of_n i)
(* the line of the harness' dump() *)
let dump (c : cfg) : string =
  let n = int_of_n (number_of_attributes c) in
  let hbi = List.init n (fun i -> int_of_n (handle_by_index c (n_of_int i))) in
  let last = List.fold_left max 0 hbi in
  let uu = List.init n (fun i -> match attribute_at c (n_of_int i) with Some a -> Printf.sprintf "%04x" (int_of_n (attr_uuid a)) | None -> "????") in
  let hs = List.init (last + 3) (fun h -> h) in
  let k = int_of_n (number_of_client_configs c) in
  let pair (a, i) = Printf.sprintf "%d:%d" (int_of_n a) (int_of_n i) in
  let nd = List.init k (fun i -> pair (find_notification_data_by_index c (n_of_int i))) in
  let nv = List.mapi (fun i _ ->
      if by_value_available c (nat_of_int i) then
        (match find_notification_data c (nat_of_int i) with Some d -> pair d | None -> "x")
      else "-") (all_chars c) in
  Printf.sprintf "n=%d hbi=%s fibh=%s ibh=%s uuid=%s ncccd=%d cccdidx=%s nd=%s nv=%s sizes=%s mtu=%d"
    n (String.concat "," (List.map string_of_int hbi))
    (String.concat "," (List.map (fun h -> show_idx (first_index_by_handle c (n_of_int h))) hs))
    (String.concat "," (List.map (fun h -> show_idx (index_by_handle c (n_of_int h))) hs))
    (String.concat "," uu) k
    (csv (List.map (fun x -> string_of_int (int_of_n x)) (cccd_indices c)))
    (csv nd) (csv nv)
    (csv (List.map (fun x -> string_of_int (int_of_n x)) (priority_numbers c)))
    (int_of_n c.max_mtu)

(* ---- main: model mode runs srv_step; monitor mode hands (cfg, op, observed result line) to the monitor.
   mon_reset : cfg -> unit      mon_step : cfg -> aop -> string -> string option  (Some tag = violation)
   The extra op  wf  (model only; used by props/att_common.py) prints 1/0 = AttDbModel.wf_b. *)
let att_main ~(mon_reset : cfg -> unit) ~(mon_step : cfg -> aop -> string -> string option) =
  let cur = ref None and st = ref None and dead = ref false in
  let pos = ref 0 and bad = ref None in
  let cfg_cache = Hashtbl.create 16 in
  main_loop
    ~reset:(fun w ->
      let enc = List.nth w 1 in
      let c = (try Hashtbl.find cfg_cache enc with Not_found -> let c = parse_cfg enc in Hashtbl.replace cfg_cache enc c; c) in
      cur := Some c; st := Some (srv_init c); dead := false; pos := 0; bad := None; mon_reset c)
    ~model:(fun l ->
      let c = Option.get !cur in
      if !dead then "SKIPPED"
      else if String.trim l = "wf" then (if wf_b c then "1" else "0")
      else match parse_op l with
        | Dump -> dump c
        | Op o ->
            let (s', r) = srv_step c (Option.get !st) o in
            st := Some s';
            (if r = OFault then dead := true);
            show_out r)
    ~monitor:(fun o r ->
      (if !bad = None then
         match mon_step (Option.get !cur) (parse_op o) r with
         | Some tag -> bad := Some (!pos, tag)
         | None -> ());
      incr pos; None)
    ~finish:(fun () -> match !bad with None -> "OK" | Some (p, t) -> Printf.sprintf "BAD %d %s" p t)
