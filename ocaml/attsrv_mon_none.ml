(* generic AttSrv driver without a property monitor (used for wf / dump queries and model runs) *)
let () = att_main ~mon_reset:(fun _ -> ()) ~mon_step:(fun _ _ _ -> None)
