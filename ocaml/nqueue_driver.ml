(* driver for the NQueue model: ops  qn <i> | qi <i> | deq | conf | clr
   outputs: 0/1 | e | n <i> | i <i> | -      CASE <name> <sizes csv> *)
let st = ref (init [])
let mo = ref (minit [])
let pos = ref 0
let bad = ref None
let parse_op l = match words l with
  | ["qn"; i] -> QueueN (nat_of_int (int_of_string i))
  | ["qi"; i] -> QueueI (nat_of_int (int_of_string i))
  | ["deq"] -> Dequeue | ["conf"] -> Confirm | ["clr"] -> Clear
  | _ -> failwith ("bad op: " ^ l)
let show_out = function
  | OBool b -> if b then "1" else "0"
  | OEntry None -> "e"
  | OEntry (Some (KNotif, i)) -> "n " ^ string_of_int (int_of_nat i)
  | OEntry (Some (KInd, i)) -> "i " ^ string_of_int (int_of_nat i)
  | OUnit -> "-"
let parse_out l = match words l with
  | ["0"] -> OBool false | ["1"] -> OBool true | ["e"] -> OEntry None
  | ["n"; i] -> OEntry (Some (KNotif, nat_of_int (int_of_string i)))
  | ["i"; i] -> OEntry (Some (KInd, nat_of_int (int_of_string i)))
  | ["-"] -> OUnit
  | _ -> OUnit (* FAULT and other junk: shape violation for non-unit ops *)
let tag_name t = match int_of_nat t with
  | 1 -> "newly_queued" | 2 -> "deq_pending" | 3 -> "deq_outst" | 4 -> "deq_priority"
  | 5 -> "deq_empty" | 6 -> "deq_round" | _ -> "shape"
let () = main_loop
  ~reset:(fun cfg -> let sizes = List.map nat_of_int (ints_of_csv (List.hd cfg)) in
           st := init sizes; mo := minit sizes; pos := 0; bad := None)
  ~model:(fun l -> let (s', r) = step !st (parse_op l) in st := s'; show_out r)
  ~monitor:(fun o r ->
     (if !bad = None then
        match mstep !mo (parse_op o) (parse_out r) with
        | (Ok, m') -> mo := m'
        | (Bad t, _) -> bad := Some (!pos, tag_name t));
     incr pos; None)
  ~finish:(fun () -> match !bad with None -> "OK" | Some (p, t) -> Printf.sprintf "BAD %d %s" p t)
