(* driver for the Latency model (C23).
   cfg word:  c:<opts>            peripheral_latency_configuration< opts >      opts = digits 0..5 or '-'
              s:<opts>/<opts>/..  peripheral_latency_configuration_set< ... >
   ops:       reset | plan <lat> <6 flags: unack rx_ne tx_ne md pending error> <iv> <pend 0/1> <instant>
              | tmo <iv> | resched <ok 0/1> <t> <iv> | move <count> <iv> | change <k>
   outputs:   <ret - 0 1> <counter> <channel index> <time us> <recorded skip or ->  | FAULT | SKIPPED *)
let opts_of s = if s = "-" then [] else List.init (String.length s) (fun i -> n_of_int (Char.code s.[i] - 48))
let cfg_of w =
  let body = String.sub w 2 (String.length w - 2) in
  match w.[0] with
  | 'c' -> { is_set = false; confs = [opts_of body] }
  | 's' -> { is_set = true; confs = List.map opts_of (String.split_on_char '/' body) }
  | _ -> failwith ("bad cfg " ^ w)
let cf = ref (cfg_of "c:-")
let st = ref (init !cf)
let mo = ref minit
let pos = ref 0
let bad = ref None
let ni s = n_of_int (int_of_string s)
let bit s i = s.[i] = '1'
let parse_op l = match words l with
  | ["reset"] -> Reset
  | ["plan"; lat; f; iv; p; inst] ->
      Plan (ni lat, { e_unack = bit f 0; e_rx_ne = bit f 1; e_tx_ne = bit f 2; e_md = bit f 3; e_pending = bit f 4; e_error = bit f 5 },
            ni iv, p = "1", ni inst)
  | ["tmo"; iv] -> Tmo (ni iv)
  | ["resched"; ok; t; iv] -> Resched (ok = "1", ni t, ni iv)
  | ["move"; c; iv] -> Move (z_of_int (int_of_string c), ni iv)
  | ["change"; k] -> Change (nat_of_int (int_of_string k))
  | _ -> failwith ("bad op: " ^ l)
let sn n = string_of_int (int_of_n n)
let show_out = function
  | OSt (ret, c, ch, t, l) ->
      String.concat " " [ (match ret with None -> "-" | Some true -> "1" | Some false -> "0"); sn c; sn ch; sn t;
                          (match l with None -> "-" | Some x -> sn x) ]
  | OFault -> "FAULT" | OSkipped -> "SKIPPED"
let parse_out l = match words l with
  | [r; c; ch; t; ll] when (try ignore (int_of_string c); ignore (int_of_string ch); ignore (int_of_string t); true with _ -> false) ->
      OSt ((match r with "-" -> None | "1" -> Some true | _ -> Some false), ni c, ni ch, ni t, (if ll = "-" then None else Some (ni ll)))
  | ["SKIPPED"] -> OSkipped
  | _ -> OFault
let tag_name t = match int_of_nat t with
  | 1 -> "skip_range" | 2 -> "listen_condition" | 3 -> "counter_channel_in_step" | 4 -> "moveback_range"
  | 5 -> "instant_skipped" | 6 -> "time_in_step" | 7 -> "skip_recorded" | 8 -> "fault" | _ -> "shape"
let () = main_loop
  ~reset:(fun c -> cf := cfg_of (List.hd c); st := init !cf; mo := minit; pos := 0; bad := None)
  ~model:(fun l -> let (s', r) = step !cf !st (parse_op l) in st := s'; show_out r)
  ~monitor:(fun o r ->
     (if !bad = None then
        match mstep !cf !mo (parse_op o) (parse_out r) with
        | (Ok, m') -> mo := m'
        | (Bad t, _) -> bad := Some (!pos, tag_name t));
     incr pos; None)
  ~finish:(fun () -> match !bad with None -> "OK" | Some (p, t) -> Printf.sprintf "BAD %d %s" p t)
