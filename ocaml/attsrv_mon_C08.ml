(* C08 monitor glue: AttSrvSpecC08.mstep08 over the observed result lines *)
let c08_tag t = match int_of_nat t with
  | 1 -> "fault" | 2 -> "mtu_value" | 3 -> "mtu_rejected_changed" | 4 -> "pdu_exceeds_mtu" | _ -> "shape"
let c08_mon = ref None
let () = att_main
  ~mon_reset:(fun c -> c08_mon := Some (obs_init c))
  ~mon_step:(fun c o r ->
    match o with
    | Dump -> None
    | Op _ when String.trim r = "SKIPPED" -> None      (* after a FAULT the harness is gone: nothing to judge *)
    | Op op ->
        (match mstep08 c (Option.get !c08_mon) op (parse_out o r) with
         | (Ok, m') -> c08_mon := Some m'; None
         | (Bad t, _) -> Some (c08_tag t)))
