(* driver for the SMSelect model (C36).
   CASE <name> <legacy|lesc|combined> <in_none|in_yesno|in_keyb> <out_none|out_num> <mitm0|mitm1>
   ops:  req <io> <oob> <auth> <loc>               one Pairing Request (hex bytes, loc = 0|1)
         sweep <io|hi> <oob|hi> <loc> <mitm> <sc>  shorthand for the requests with that IO capability
               (hi = 05..ff), OOB flag (hi = 02..ff) and the 64 AuthReq bytes with these MITM / SC bits,
               in the order io, oob, auth ascending
   cell: F.<reason> | L.<alg>.<io><oob><auth> | S.<alg>.<io><oob><auth>; a sweep prints the run-length
   encoded cells "<n>*<cell> ..."; the monitor expands them again and judges every cell. *)
let nb = Array.init 256 n_of_int
let the_cfg = ref { c_variant = VLegacy; c_in = InNone; c_out = OutNone; c_mitm = false }
let st = ref (init !the_cfg)
let mo = ref (minit !the_cfg)
let pos = ref 0
let bad = ref None
let parse_cfg = function
  | [v; i; o; m] ->
      { c_variant = (match v with "legacy" -> VLegacy | "lesc" -> VLesc | "combined" -> VCombined | _ -> failwith ("bad variant " ^ v));
        c_in = (match i with "in_none" -> InNone | "in_yesno" -> InYesNo | "in_keyb" -> InKeyboard | _ -> failwith ("bad input " ^ i));
        c_out = (match o with "out_none" -> OutNone | "out_num" -> OutNumeric | _ -> failwith ("bad output " ^ o));
        c_mitm = (match m with "mitm0" -> false | "mitm1" -> true | _ -> failwith ("bad mitm " ^ m)) }
  | _ -> failwith "bad configuration"
let hex s = int_of_string ("0x" ^ s)
let range first_hi w = if w = "hi" then (first_hi, 255) else let v = hex w in (v, v)
(* the cells of an op line, in order: (io, oob, auth, loc) *)
let cells l = match words l with
  | ["req"; io; oob; auth; loc] -> [ (hex io, hex oob, hex auth, loc = "1") ]
  | ["sweep"; io; oob; loc; mitm; sc] ->
      let (i0, i1) = range 5 io and (o0, o1) = range 2 oob in
      let bits = (if mitm = "1" then 4 else 0) lor (if sc = "1" then 8 else 0) in
      let r = ref [] in
      for i = i1 downto i0 do for o = o1 downto o0 do for a = 255 downto 0 do
        if a land 0x0c = bits then r := (i, o, a, loc = "1") :: !r done done done;
      !r
  | _ -> failwith ("bad op: " ^ l)
let is_sweep l = match words l with "sweep" :: _ -> true | _ -> false
let mk_op (io, oob, auth, loc) = Req (nb.(io land 255), nb.(oob land 255), nb.(auth land 255), loc)
let legacy_name = function LJustWorks -> "jw" | LOob -> "oob" | LPasskeyDisplay -> "disp" | LPasskeyInput -> "inp"
let lesc_name = function SJustWorks -> "jw" | SOob -> "oob" | SPasskeyDisplay -> "disp" | SPasskeyInput -> "inp" | SNumeric -> "num"
let show_out = function
  | OFail r -> Printf.sprintf "F.%02x" (int_of_n r)
  | OLegacy (a, i, o, f) -> Printf.sprintf "L.%s.%02x%02x%02x" (legacy_name a) (int_of_n i) (int_of_n o) (int_of_n f)
  | OLesc (a, i, o, f) -> Printf.sprintf "S.%s.%02x%02x%02x" (lesc_name a) (int_of_n i) (int_of_n o) (int_of_n f)
  | OOther -> "X"
let parse_cell s =
  try match String.split_on_char '.' s with
  | ["F"; r] when String.length r = 2 -> OFail (n_of_int (hex r))
  | [k; a; b] when String.length b = 6 && (k = "L" || k = "S") ->
      let i = n_of_int (hex (String.sub b 0 2)) and o = n_of_int (hex (String.sub b 2 2)) and f = n_of_int (hex (String.sub b 4 2)) in
      if k = "L" then
        (match a with "jw" -> OLegacy (LJustWorks, i, o, f) | "oob" -> OLegacy (LOob, i, o, f)
         | "disp" -> OLegacy (LPasskeyDisplay, i, o, f) | "inp" -> OLegacy (LPasskeyInput, i, o, f) | _ -> OOther)
      else
        (match a with "jw" -> OLesc (SJustWorks, i, o, f) | "oob" -> OLesc (SOob, i, o, f)
         | "disp" -> OLesc (SPasskeyDisplay, i, o, f) | "inp" -> OLesc (SPasskeyInput, i, o, f)
         | "num" -> OLesc (SNumeric, i, o, f) | _ -> OOther)
  | _ -> OOther
  with _ -> OOther
(* "<n>*<cell> ..." -> [(n, out)]; anything else (FAULT, NOBUILD, MISSING ...) -> one junk cell *)
let parse_rle s =
  try List.map (fun w -> match String.index_opt w '*' with
      | Some k -> (int_of_string (String.sub w 0 k), parse_cell (String.sub w (k + 1) (String.length w - k - 1)))
      | None -> raise Exit) (words s)
  with _ -> [ (1, OOther) ]
let tag_name t = match int_of_nat t with
  | 1 -> "invalid_accepted" | 2 -> "rejected" | 3 -> "local_io" | 4 -> "kind" | 5 -> "oob_rule"
  | 6 -> "mitm_rule" | 7 -> "io_table" | _ -> "shape"
let model_line l =
  let buf = Buffer.create 256 in
  let last = ref None and count = ref 0 in
  let flush () = match !last with
    | Some r -> if Buffer.length buf > 0 then Buffer.add_char buf ' ';
                Buffer.add_string buf (string_of_int !count ^ "*" ^ show_out r)
    | None -> () in
  let sweep = is_sweep l in
  let single = ref "" in
  List.iter (fun c ->
      let (s', r) = step !the_cfg !st (mk_op c) in
      st := s';
      if sweep then (if !last = Some r then incr count else (flush (); last := Some r; count := 1))
      else single := show_out r) (cells l);
  if sweep then (flush (); Buffer.contents buf) else !single
let judge_cell c r =
  if !bad = None then
    match mstep !mo (mk_op c) r with
    | (Ok, m') -> mo := m'
    | (Bad t, _) -> bad := Some (!pos, tag_name t)
let monitor_line o r =
  (if !bad = None then begin
     let cs = cells o in
     let outs = if is_sweep o then parse_rle r else [ (1, parse_cell (String.trim r)) ] in
     let rest = ref outs in
     let next () = match !rest with
       | (n, x) :: t when n > 1 -> rest := (n - 1, x) :: t; x
       | (1, x) :: t -> rest := t; x
       | _ -> rest := []; OOther in
     List.iter (fun c -> judge_cell c (next ())) cs;
     (* more results than cells: not the shape of an answer to this op *)
     if !bad = None && !rest <> [] then bad := Some (!pos, "shape")
   end);
  incr pos; None
let () = main_loop
  ~reset:(fun cfg -> the_cfg := parse_cfg cfg; st := init !the_cfg; mo := minit !the_cfg; pos := 0; bad := None)
  ~model:model_line
  ~monitor:monitor_line
  ~finish:(fun () -> match !bad with None -> "OK" | Some (p, t) -> Printf.sprintf "BAD %d %s" p t)
