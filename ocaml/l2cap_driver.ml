(* driver for the L2cap model.  cfg: <channels> <nbuf>, channels = comma separated e<cid>.<min>.<max> (echo) |
   s<cid>.<min>.<max> (silent) | a<cid>.<min>.<max> (async) | g (the real signaling channel)
   ops: in <hex> | req <a> <b> <c> <d> | poll | free <n>
   outputs: in <0|1> <cid:hex;...|-> <hex,...|-> | req <0|1> | poll <hex,...|-> | free <k> | FAULT *)
let chan_of s =
  if s = "g" then sig_chan else
  let k = match s.[0] with 'e' -> KEcho | 's' -> KSilent | 'a' -> KAsync | _ -> failwith ("bad channel " ^ s) in
  match String.split_on_char '.' (String.sub s 1 (String.length s - 1)) with
  | [c; _; mx] -> { kd = k; cid = n_of_int (int_of_string c); cmax = n_of_int (int_of_string mx) }
  | _ -> failwith ("bad channel " ^ s)
let cfg_of = function
  | [chs; n] -> { chans = List.map chan_of (String.split_on_char ',' chs); nbuf = n_of_int (int_of_string n) }
  | _ -> failwith "bad cfg"
let cfg = ref (cfg_of ["g"; "1"])
let st = ref (init !cfg)
let mo = ref (minit !cfg)
let pos = ref 0
let bad = ref None
let num s = n_of_int (int_of_string s)
let parse_op l = match words l with
  | ["in"; h] -> In (bytes_of_hex h)
  | ["req"; a; b; c; d] -> Req (num a, num b, num c, num d)
  | ["poll"] -> Poll
  | ["free"; n] -> Free (num n)
  | _ -> failwith ("bad op: " ^ l)
let show_tx tx = if tx = [] then "-" else String.concat "," (List.map hex_of_bytes tx)
let show_dlv d = if d = [] then "-" else
  String.concat ";" (List.map (fun (c, p) -> string_of_int (int_of_n c) ^ ":" ^ hex_of_bytes p) d)
let show_out = function
  | OFault -> "FAULT"
  | OIn (r, d, tx) -> Printf.sprintf "in %d %s %s" (if r then 1 else 0) (show_dlv d) (show_tx tx)
  | OReq ok -> if ok then "req 1" else "req 0"
  | OPoll tx -> "poll " ^ show_tx tx
  | OFree k -> "free " ^ string_of_int (int_of_n k)
let parse_tx s = if s = "-" then [] else List.map bytes_of_hex (String.split_on_char ',' s)
let parse_dlv s = if s = "-" then [] else
  List.map (fun e -> match String.split_on_char ':' e with
                     | [c; p] -> (num c, bytes_of_hex p) | _ -> failwith "bad delivery") (String.split_on_char ';' s)
let parse_out l = match words l with
  | ["in"; r; d; tx] -> OIn (r = "1", parse_dlv d, parse_tx tx)
  | ["req"; r] -> OReq (r = "1")
  | ["poll"; tx] -> OPoll (parse_tx tx)
  | ["free"; k] -> OFree (num k)
  | _ -> OFault
let tag_name t = match int_of_nat t with
  | 1 -> "deliver_cid" | 2 -> "deliver_len" | 3 -> "consumed" | 4 -> "reply_cid" | 5 -> "reply_fits"
  | 6 -> "unknown_dropped" | 7 -> "sig_once" | 8 -> "sig_match" | 9 -> "sig_id_nonzero"
  | 10 -> "sig_id_advances" | 11 -> "sig_reject" | _ -> "shape"
let () = main_loop
  ~reset:(fun c -> cfg := cfg_of c; st := init !cfg; mo := minit !cfg; pos := 0; bad := None)
  ~model:(fun l -> let (s', r) = step !cfg !st (parse_op l) in st := s'; show_out r)
  ~monitor:(fun o r ->
     (if !bad = None then
        match mstep !cfg !mo (parse_op o) (parse_out r) with
        | (Ok, m') -> mo := m'
        | (Bad t, _) -> bad := Some (!pos, tag_name t));
     incr pos; None)
  ~finish:(fun () -> match !bad with None -> "OK" | Some (p, t) -> Printf.sprintf "BAD %d %s" p t)
