(* driver for the Adv model (advertising.hpp; C24 and the advertising part of C25).
   CASE <name> <prop> <types> <startup> <chmap> <ival> <layout> <addr13> <filter>   (see harness/adv_harness.cpp)
   ops: lstart lstop to rx <hex> start startn <k> stop addch <c> rmch <c> ival <ms> ivalus <us>
        daddr <addr13> chg <k> dchg connreq <hex> scanreq <hex>
   out: - | s <ch> <us> <type> | acc <addr13> | rej - | rej s <ch> <us> <type> | 0 | 1 | FAULT | BADOP *)
let parse_addr s = { abytes = bytes_of_hex (String.sub s 0 12); arandom = (s.[12] = 'r') }
let show_addr a = hex_of_bytes a.abytes ^ (if a.arandom then "r" else "p")
let same_addr a b = a.abytes = b.abytes && a.arandom = b.arandom
let cfg_of w = match w with
  | _prop :: types :: startup :: chmap :: ival :: layout :: own :: filter :: _ ->
    let ty = function "u" -> TUndirected | "d" -> TDirected | "s" -> TScannable | "n" -> TNonConn
                    | x -> failwith ("bad type " ^ x) in
    { c_types = (if types = "-" then [] else List.map ty (String.split_on_char ',' types));
      c_manual = (startup = "manual"); c_varmap = (chmap = "var"); c_varival = (ival = "var");
      c_ival_ms = (if String.length ival > 3 && String.sub ival 0 3 = "fix"
                   then n_of_int (int_of_string (String.sub ival 3 (String.length ival - 3))) else n_of_int 100);
      c_off = nat_of_int (if layout = "nrf" then 3 else 2);
      c_own = parse_addr own;
      c_filter = (if filter = "all" then (fun _ -> true)
                  else if String.length filter > 3 && String.sub filter 0 3 = "wl:" then
                    let l = List.map parse_addr (String.split_on_char ',' (String.sub filter 3 (String.length filter - 3))) in
                    (fun a -> List.exists (same_addr a) l)
                  else (fun _ -> false)) }
  | _ -> failwith "bad CASE configuration"
let num s = n_of_int (int_of_string s)
let parse_op l = match words l with
  | ["lstart"] -> LStart | ["lstop"] -> LStop | ["to"] -> Timeout | ["rx"; h] -> Rx (bytes_of_hex h)
  | ["start"] -> Start | ["startn"; k] -> StartN (num k) | ["stop"] -> Stop
  | ["addch"; c] -> AddCh (num c) | ["rmch"; c] -> RmCh (num c)
  | ["ival"; v] -> IvalMs (num v) | ["ivalus"; v] -> IvalUs (num v)
  | ["daddr"; a] -> DAddr (parse_addr a) | ["chg"; k] -> Chg (nat_of_int (int_of_string k))
  | ["dchg"] -> DataChanged | ["connreq"; h] -> ConnReq (bytes_of_hex h) | ["scanreq"; h] -> ScanReq (bytes_of_hex h)
  | _ -> failwith ("bad op: " ^ l)
let show_sched = function
  | NoSched -> "-"
  | Sched (c, d, t) -> Printf.sprintf "s %d %d %d" (int_of_n c) (int_of_n d) (int_of_n t)
let show_out = function
  | OSched x -> show_sched x | OAcc a -> "acc " ^ show_addr a | ORej x -> "rej " ^ show_sched x
  | OBool b -> if b then "1" else "0" | OFault -> "FAULT" | OBadOp -> "BADOP"
let parse_sched = function
  | ["-"] -> Some NoSched
  | ["s"; c; d; t] -> Some (Sched (num c, num d, num t))
  | _ -> None
let parse_out l = match words l with
  | ["0"] -> OBool false | ["1"] -> OBool true | ["BADOP"] -> OBadOp
  | ["acc"; a] when String.length a = 13 -> OAcc (parse_addr a)
  | "rej" :: r -> (match parse_sched r with Some x -> ORej x | None -> OFault)
  | w -> (match parse_sched w with Some x -> OSched x | None -> OFault)  (* FAULT, SKIPPED, junk *)
let tag_name t = match int_of_nat t with
  | 1 -> "disabled_channel" | 2 -> "order" | 3 -> "once_per_event" | 4 -> "inter_event_delay"
  | 5 -> "count_bound" | 6 -> "stopped" | 8 -> "fault" | 9 -> "accept_iff" | 10 -> "static_iff" | _ -> "shape"
let cf = ref (cfg_of ["C24"; "u"; "auto"; "all"; "dflt"; "def"; "000000000000p"; "all"])
let st = ref (init !cf)
let m24 = ref (minit24 !cf)
let m25 = ref (minit25 !cf)
let prop = ref "C24"
let pos = ref 0
let bad = ref None
let dead = ref false   (* the process under test dies at a failing assert: FAULT, then SKIPPED *)
let () = main_loop
  ~reset:(fun w -> cf := cfg_of w; prop := List.hd w; st := init !cf; m24 := minit24 !cf; m25 := minit25 !cf;
           pos := 0; bad := None; dead := false)
  ~model:(fun l ->
     if !dead then "SKIPPED" else
     let (s', r) = step !cf !st (parse_op l) in st := s'; (if r = OFault then dead := true); show_out r)
  ~monitor:(fun o r ->
     (if !bad = None then begin
        let op = parse_op o and out = parse_out r in
        if !prop = "C25" then
          (match mstep25 !cf !m25 op out with
           | (Ok, m') -> m25 := m' | (Bad t, _) -> bad := Some (!pos, tag_name t))
        else
          (match mstep24 !cf !m24 op out with
           | (Ok, m') -> m24 := m' | (Bad t, _) -> bad := Some (!pos, tag_name t))
      end);
     incr pos; None)
  ~finish:(fun () -> match !bad with None -> "OK" | Some (p, t) -> Printf.sprintf "BAD %d %s" p t)
