(* C07 monitor glue: AttSrvSpecC07.mstep (reference semantics AttSrvSpecVal) over the observed result lines *)
let c07_tag t = match int_of_nat t with
  | 1 -> "prepare_changes_value" | 2 -> "execute_order" | 3 -> "execute_cancel" | 4 -> "queue_released"
  | 5 -> "queue_full_other" | 6 -> "accept_iff_write" | 7 -> "prepare_invokes_handler" | 8 -> "queue_capacity" | _ -> "shape"
let c07_mon = ref None
let () = att_main
  ~mon_reset:(fun c -> c07_mon := Some (minit c))
  ~mon_step:(fun c o r ->
    match o with
    | Dump -> None
    | Op op ->
        (match mstep c (Option.get !c07_mon) op (parse_out o r) with
         | (Ok, m') -> c07_mon := Some m'; None
         | (Bad t, _) -> Some (c07_tag t)))
