(* C02 monitor glue: AttSrvSpecC02.c02_step over the observed result lines *)
let c02_tag t = match int_of_nat t with
  | 1 -> "in_range" | 2 -> "type_match" | 3 -> "ascending" | 4 -> "not_found_iff_empty" | 5 -> "prefix_of_matching"
  | 6 -> "enumerate_exact" | 7 -> "invalid_range" | _ -> "shape"
let c02_mon = ref c02_init
let () = att_main
  ~mon_reset:(fun _ -> c02_mon := c02_init)
  ~mon_step:(fun c o r ->
    match o with
    | Dump -> None
    | Op op ->
        (match c02_step c !c02_mon op (parse_out o r) with
         | (Ok, m') -> c02_mon := m'; None
         | (Bad t, m') -> c02_mon := m'; Some (c02_tag t)))
