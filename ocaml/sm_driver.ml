(* driver for the SM model (toy instance).
   cfg: <property C32|C33|C34|C35> <legacy|lesc|both|none> <none|yesno|keyboard> <none|display> <oob0|oob1> <bond0|bond1> <sy|sn|as>
   ops: in <hex> | out | yes | no | passkey <n> | enc <0|1> | key <ediv> <rand> | status | reset <a>
        | bond <a> <ediv> <rand> <kb>   (pre-load the bond data base: peer a, key kb x 16)
   outputs: <hex|-> [disp=<n>] [yn] [bond=<hex>:<rand>:<ediv>] | <hex>|none | <local> <link> | - | nopending | FAULT | SKIPPED *)
let dummy_cfg = { c_var = MNone; c_inp = InNone; c_outp = OutNone; c_oob = false; c_bond = false; c_yn = Async; c_legacy_oob = legacy_oob_switch }
let cfg = ref dummy_cfg
let prop = ref "C32"
let st = ref toy_init
let mo = ref toy_minit
let pos = ref 0
let bad = ref None
let cfg_of = function
  | [p; v; i; o; b; d; y] ->
      prop := p;
      { c_var = (match v with "legacy" -> MLegacy | "lesc" -> MLesc | "both" -> MBoth | "none" -> MNone | s -> failwith ("bad variant " ^ s));
        c_inp = (match i with "none" -> InNone | "yesno" -> InYesNo | "keyboard" -> InKeyboard | s -> failwith ("bad input " ^ s));
        c_outp = (match o with "none" -> OutNone | "display" -> OutNumeric | s -> failwith ("bad output " ^ s));
        c_oob = (b = "oob1"); c_bond = (d = "bond1");
        c_yn = (match y with "sy" -> SyncYes | "sn" -> SyncNo | "as" -> Async | s -> failwith ("bad yn " ^ s));
        c_legacy_oob = legacy_oob_switch }
  | _ -> failwith "bad cfg"
let num s = n_of_int (int_of_string s)
let parse_op l = match words l with
  | ["in"; h] -> In (bytes_of_hex h)
  | ["out"] -> Out | ["yes"] -> Yes | ["no"] -> No
  | ["passkey"; n] -> Passkey (num n)
  | ["enc"; b] -> Enc (b = "1")
  | ["key"; e; r] -> Key (num e, num r)
  | ["status"] -> Status
  | ["reset"; a] -> Reset (num a)
  | ["bond"; a; e; r; k] -> Bond (num a, num e, num r, num k)
  | _ -> failwith ("bad op: " ^ l)
let status_name n = match int_of_n n with 0 -> "none" | 1 -> "unauth" | 2 -> "auth" | 3 -> "authsc" | _ -> "?"
let status_of = function "none" -> Some 0 | "unauth" -> Some 1 | "auth" -> Some 2 | "authsc" -> Some 3 | _ -> None
let show_event = function
  | EDisplay n -> "disp=" ^ string_of_int (int_of_n n)
  | EYesNo -> "yn"
  | EStore (k, r, d) -> "bond=" ^ hex_of_bytes k ^ ":" ^ string_of_int (int_of_n r) ^ ":" ^ string_of_int (int_of_n d)
let show_out = function
  | OResp (b, ev) -> String.concat " " (hex_of_bytes b :: List.map show_event ev)
  | OKey None -> "none" | OKey (Some k) -> hex_of_bytes k
  | OStatus (a, b) -> status_name a ^ " " ^ status_name b
  | ODone -> "-" | ONoPending -> "nopending" | OFault -> "FAULT" | OSkipped -> "SKIPPED"
let is_hex s = s = "-" || (String.length s mod 2 = 0 && String.length s > 0 &&
  (let ok = ref true in String.iter (fun ch -> if not ((ch >= '0' && ch <= '9') || (ch >= 'a' && ch <= 'f')) then ok := false) s; !ok))
let parse_event w =
  let pre p = String.length w > String.length p && String.sub w 0 (String.length p) = p in
  let rest p = String.sub w (String.length p) (String.length w - String.length p) in
  if w = "yn" then Some EYesNo
  else if pre "disp=" then (try Some (EDisplay (num (rest "disp="))) with _ -> None)
  else if pre "bond=" then
    (match String.split_on_char ':' (rest "bond=") with
     | [k; r; d] when is_hex k -> (try Some (EStore (bytes_of_hex k, num r, num d)) with _ -> None)
     | _ -> None)
  else None
(* anything that is not a well-formed output of the operation becomes OSkipped (a shape violation) *)
let parse_out o l =
  let w = words l in
  if w = ["FAULT"] then OFault else if w = ["SKIPPED"] then OSkipped else
  match o, w with
  | (In _ | Out), h :: evs when is_hex h ->
      let es = List.map parse_event evs in
      if List.mem None es then OSkipped
      else OResp (bytes_of_hex h, List.map (function Some e -> e | None -> EYesNo) es)
  | Key _, ["none"] -> OKey None
  | Key _, [h] when is_hex h && h <> "-" -> OKey (Some (bytes_of_hex h))
  | Status, [a; b] -> (match status_of a, status_of b with Some x, Some y -> OStatus (n_of_int x, n_of_int y) | _ -> OSkipped)
  | _, ["-"] -> ODone
  | _, ["nopending"] -> ONoPending
  | _ -> OSkipped
let tag_name t = match int_of_nat t with
  | 1 -> "shape" | 2 -> "order" | 3 -> "rejected_valid" | 4 -> "no_answer" | 5 -> "srand_commitment"
  | 6 -> "nonce_commitment" | 7 -> "eb_before_ea" | 8 -> "eb_bad_ea" | 9 -> "eb_without_user_confirm"
  | 10 -> "eb_value" | 11 -> "order_out" | 12 -> "confirm_missing" | 13 -> "user_no_not_failed" | 14 -> "fault"
  | 20 -> "key_without_pairing" | 21 -> "key_wrong" | 22 -> "key_missing"
  | 30 -> "dist_unencrypted" | 31 -> "dist_without_pairing" | 32 -> "dist_twice" | 33 -> "dist_stale" | 34 -> "dist_content"
  | 40 -> "auth_not_performed" | 41 -> "auth_not_reported" | 42 -> "status_wrong"
  | 43 -> "link_auth_not_performed" | 44 -> "link_auth_not_reported" | 45 -> "link_status_wrong"
  | n -> "tag" ^ string_of_int n
let mstep () = match !prop with
  | "C33" -> toy_mstep33 | "C34" -> toy_mstep34 | "C35" -> toy_mstep35 | _ -> toy_mstep32
let () = main_loop
  ~reset:(fun c -> cfg := cfg_of c; st := toy_init; mo := toy_minit; pos := 0; bad := None)
  ~model:(fun l -> let (s', r) = toy_step !cfg !st (parse_op l) in st := s'; show_out r)
  ~monitor:(fun o r ->
     (if !bad = None then
        let op = parse_op o in
        match (mstep ()) !cfg !mo op (parse_out op r) with
        | (Ok, m') -> mo := m'
        | (Bad t, _) -> bad := Some (!pos, tag_name t));
     incr pos; None)
  ~finish:(fun () -> match !bad with None -> "OK" | Some (p, t) -> Printf.sprintf "BAD %d %s" p t)
