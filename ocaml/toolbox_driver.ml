(* driver for the ToolBox model (C37, C38). No cfg words. All hex arguments least significant octet first.
   ops: passkey <rng stream> | aes k d | shl x | k1 k | k2 k | c1 k r p1 p2 | s1 k srand mrand | sk ltk skdm skds
        | f4 u v k z | g2 u v x y | f5 dh n1 n2 t1 a1 t2 a2 | f6 key n1 n2 r io t1 a1 t2 a2 | valid pk
   outputs: <tk> <bytes drawn> | <hex> | <hex> <hex> | true | false | badarg | FAULT *)
let st = ref init
let mo = ref minit
let pos = ref 0
let bad = ref None
let parse_op l =
  match words l with
  | op :: args ->
    (match op, List.map bytes_of_hex args with
     | "passkey", [s] -> Passkey s
     | "aes", [k; d] -> Aes (k, d) | "shl", [x] -> Shl x | "k1", [k] -> K1 k | "k2", [k] -> K2 k
     | "c1", [k; r; p1; p2] -> C1 (k, r, p1, p2) | "s1", [k; a; b] -> S1 (k, a, b) | "sk", [k; m; s] -> Sk (k, m, s)
     | "f4", [u; v; k; z] -> F4 (u, v, k, z) | "g2", [u; v; x; y] -> G2 (u, v, x, y)
     | "f5", [dh; n1; n2; t1; a1; t2; a2] -> F5 (dh, n1, n2, t1, a1, t2, a2)
     | "f6", [key; n1; n2; r; io; t1; a1; t2; a2] -> F6 (key, n1, n2, r, io, t1, a1, t2, a2)
     | "valid", [pk] -> Valid pk
     | _ -> Malformed)
  | [] -> Malformed
let show_out = function
  | OPasskey (tk, n) -> hex_of_bytes tk ^ " " ^ string_of_int (int_of_n n)
  | OBytes b -> hex_of_bytes b | OPair (a, b) -> hex_of_bytes a ^ " " ^ hex_of_bytes b
  | OBool true -> "true" | OBool false -> "false" | OBadArg -> "badarg" | OFault -> "FAULT"
let is_hex s = s = "-" || (String.length s mod 2 = 0 && s <> "" &&
  (try String.iter (fun c -> match c with '0'..'9' | 'a'..'f' -> () | _ -> raise Exit) s; true with Exit -> false))
let parse_out o l =
  match o, words l with
  | _, ["true"] -> OBool true | _, ["false"] -> OBool false | _, ["badarg"] -> OBadArg
  | Passkey _, [tk; n] when is_hex tk && (try ignore (int_of_string n); true with _ -> false) ->
      OPasskey (bytes_of_hex tk, n_of_int (int_of_string n))
  | _, [a; b] when is_hex a && is_hex b -> OPair (bytes_of_hex a, bytes_of_hex b)
  | _, [a] when is_hex a -> OBytes (bytes_of_hex a)
  | _ -> OFault
let tag_name t = match int_of_nat t with
  | 1 -> "shape" | 2 -> "fault" | 3 -> "passkey_range" | 4 -> "aes" | 5 -> "subkey" | 6 -> "c1" | 7 -> "s1"
  | 8 -> "session_key" | 9 -> "f4" | 10 -> "g2" | 11 -> "f5" | 12 -> "f6" | 13 -> "public_key" | _ -> "shape"
let () = main_loop
  ~reset:(fun _ -> st := init; mo := minit; pos := 0; bad := None)
  ~model:(fun l -> let (s', r) = step !st (parse_op l) in st := s'; show_out r)
  ~monitor:(fun o r ->
     (if !bad = None then
        let op = parse_op o in
        match mstep !mo op (parse_out op r) with
        | (Ok, m') -> mo := m'
        | (Bad t, _) -> bad := Some (!pos, tag_name t));
     incr pos; None)
  ~finish:(fun () -> match !bad with None -> "OK" | Some (p, t) -> Printf.sprintf "BAD %d %s" p t)
