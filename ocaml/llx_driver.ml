(* driver for the LL model with the monitors of C28 / C29 (component LLX; a copy of ocaml/ll_driver.ml with another
   monitor table); same line protocol as harness/ll_harness.cpp
   CASE <name> <property> <variant>
     property selects the monitor (table [monitors] at the end of this file): C28 | C29 | none
     variant  selects the configuration record (function cfg_of): base | nophy | desired | async | enc | nocb
   ops and result items: see harness/ll_harness.cpp and harness/scripted_radio.hpp. *)
let num s = n_of_int (int_of_string s)
let hexnum s = n_of_int (int_of_string ("0x" ^ s))
(* numbers that may exceed 62 bits are converted digit by digit *)
let n_of_hex s =
  let r = ref N0 in
  String.iter (fun ch -> r := N.add (N.mul !r (n_of_int 16)) (n_of_int (int_of_string ("0x" ^ String.make 1 ch)))) s; !r
let rec bits_of_pos = function XH -> [1] | XO p -> 0 :: bits_of_pos p | XI p -> 1 :: bits_of_pos p
let hex_of_n digits n =
  let bits = match n with N0 -> [] | Npos p -> bits_of_pos p in
  let a = Array.make (digits * 4) 0 in
  List.iteri (fun i b -> if i < digits * 4 then a.(i) <- b) bits;
  String.init digits (fun k -> let i = (digits - 1 - k) * 4 in
    "0123456789abcdef".[a.(i) + 2 * a.(i+1) + 4 * a.(i+2) + 8 * a.(i+3)])
let dec n = string_of_int (int_of_n n)
let own_address = List.map n_of_int [0x47; 0x11; 0x08; 0x15; 0x0f; 0xc0]
let mkcfg phy enc sca cpr cb lat = { c_phy = phy; c_enc = enc; c_sca = n_of_int sca; c_cpr = cpr; c_cb = cb; c_lat = n_of_int lat; c_own = own_address }
let cfg_of = function
  | "base" -> mkcfg true false 100 CprNone true 31
  | "nophy" -> mkcfg false false 500 CprNone true 31
  | "desired" -> mkcfg false false 500 (CprDesired (n_of_int 10, n_of_int 40, n_of_int 1, n_of_int 5, n_of_int 100, n_of_int 300)) true 31
  | "async" -> mkcfg false false 500 CprAsync true 31
  | "enc" -> mkcfg true true 500 CprNone true 31
  | "nocb" -> mkcfg true false 500 CprNone false 32
  | s -> failwith ("bad variant " ^ s)

let parse_pdu w = match String.index_opt w ':' with
  | Some k -> (num (String.sub w 0 k), bytes_of_hex (String.sub w (k+1) (String.length w - k - 1)))
  | None -> failwith ("bad pdu " ^ w)
let flag s = s <> "0"
(* None = an operation the harness answers with BADOP *)
let parse_op l = match words l with
  | ["run"] -> Some Run | ["adv_timeout"] -> Some AdvTimeout
  | ["adv"; h; b] -> Some (Adv (hexnum h, bytes_of_hex b))
  | "ev" :: e :: pdus -> (try Some (Ev (num e, List.map parse_pdu pdus)) with _ -> None)
  | ["timeout"] -> Some Timeout
  | ["disconnect"] -> Some (Disconnect None) | ["disconnect"; r] -> Some (Disconnect (Some (hexnum r)))
  | ["cpu"; a; b; c; d] -> Some (Cpu (num a, num b, num c, num d))
  | ["cpr"; a; b; c; d] -> Some (Cpr (num a, num b, num c, num d))
  | ["phyreq"; t; r] -> Some (PhyReq (num t, num r)) | ["verreq"] -> Some VerReq
  | ["txavail"; b] -> Some (TxAvail (flag b)) | ["cancel"; b; us] -> Some (Cancel (flag b, num us))
  | ["cprreply"; a; b; c; d] -> Some (CprReply (num a, num b, num c, num d))
  | ["cprneg"; r] -> Some (CprNeg (hexnum r)) | ["key"; b] -> Some (Key (flag b)) | ["st"] -> Some St
  | _ -> None

let state_name = function
  | Initial -> "initial" | Advertising -> "advertising" | Connecting -> "connecting" | Connected -> "connected"
  | Disconnecting -> "disconnecting" | ConnChanged -> "connection_changed"
let state_of = function
  | "initial" -> Initial | "advertising" -> Advertising | "connecting" -> Connecting | "connected" -> Connected
  | "disconnecting" -> Disconnecting | "connection_changed" -> ConnChanged | s -> failwith s
let details_text d = String.concat "," [dec d.d_interval; dec d.d_latency; dec d.d_timeout; dec d.d_sca]
let show_cb = function
  | EvRequested d -> "requested:" ^ details_text d | EvAttemptTimeout -> "attempt_timeout"
  | EvEstablished d -> "established:" ^ details_text d | EvChanged d -> "changed:" ^ details_text d
  | EvClosed r -> "closed:" ^ hex_of_n 2 r
  | EvVersion (v, c, s) -> "version:" ^ hex_of_n 2 v ^ "," ^ hex_of_n 4 c ^ "," ^ hex_of_n 4 s
  | EvRejected e -> "rejected:" ^ hex_of_n 2 e | EvUnknown o -> "unknown:" ^ hex_of_n 2 o
  | EvFeatures f -> "features:" ^ hex_of_bytes f
  | EvPhy (a, b) -> "phy:" ^ dec a ^ "," ^ dec b
  | EvCpr (a, b, c, d) -> "cpr:" ^ String.concat "," [dec a; dec b; dec c; dec d]
let show_item = function
  | ITx (l, b) -> "tx:" ^ dec l ^ ":" ^ hex_of_bytes b
  | IAdv ch -> "adv:" ^ dec ch
  | IAa (a, c) -> "aa:" ^ hex_of_n 8 a ^ ":" ^ hex_of_n 6 c
  | ICe (ch, s, e, i) -> "ce:" ^ String.concat ":" [dec ch; dec s; dec e; dec i]
  | IPhy (a, b) -> "phy:" ^ dec a ^ ":" ^ dec b
  | IEncRx on -> if on then "enc:r+" else "enc:r-"
  | IEncTx on -> if on then "enc:t+" else "enc:t-"
  | ICb e -> "cb:" ^ show_cb e
  | IRet b -> if b then "ret:1" else "ret:0"
  | IDisarm -> "disarm"
  | IFindKey (e, r) -> "findkey:" ^ hex_of_n 4 e ^ ":" ^ hex_of_n 16 r
  | ISetup (k, s, i) -> "setup:" ^ hex_of_bytes k ^ ":" ^ hex_of_n 16 s ^ ":" ^ hex_of_n 8 i
  | ISt (s, evc, ch, t, p, u, d, inst, fl) ->
      "st:" ^ String.concat ":" [state_name s; dec evc; dec ch; dec t; dec p; hex_of_n 4 u;
        (match d with Some o -> hex_of_n 2 o | None -> "-"); dec inst;
        String.concat "" (List.map (fun b -> if b then "1" else "0") fl)]
let show_out = function
  | OItems [] -> "-" | OItems l -> String.concat " " (List.map show_item l)
  | OPre -> "pre" | OBadOp -> "BADOP" | OCrash -> "FAULT"

let split c s = String.split_on_char c s
let parse_details s = match split ',' s with
  | [a; b; c; d] -> { d_interval = num a; d_latency = num b; d_timeout = num c; d_sca = num d } | _ -> failwith "details"
let parse_cb = function
  | ["requested"; d] -> EvRequested (parse_details d) | ["attempt_timeout"] -> EvAttemptTimeout
  | ["established"; d] -> EvEstablished (parse_details d) | ["changed"; d] -> EvChanged (parse_details d)
  | ["closed"; r] -> EvClosed (hexnum r)
  | ["version"; x] -> (match split ',' x with [v; c; s] -> EvVersion (hexnum v, hexnum c, hexnum s) | _ -> failwith "version")
  | ["rejected"; e] -> EvRejected (hexnum e) | ["unknown"; o] -> EvUnknown (hexnum o)
  | ["features"; f] -> EvFeatures (bytes_of_hex f)
  | ["phy"; x] -> (match split ',' x with [a; b] -> EvPhy (num a, num b) | _ -> failwith "phy")
  | ["cpr"; x] -> (match split ',' x with [a; b; c; d] -> EvCpr (num a, num b, num c, num d) | _ -> failwith "cpr")
  | _ -> failwith "cb"
let parse_item w = match split ':' w with
  | ["tx"; l; b] -> ITx (num l, bytes_of_hex b)
  | ["adv"; ch] -> IAdv (num ch)
  | ["aa"; a; c] -> IAa (n_of_hex a, n_of_hex c)
  | ["ce"; ch; s; e; i] -> ICe (num ch, num s, num e, num i)
  | ["phy"; a; b] -> IPhy (num a, num b)
  | ["enc"; "r+"] -> IEncRx true | ["enc"; "r-"] -> IEncRx false
  | ["enc"; "t+"] -> IEncTx true | ["enc"; "t-"] -> IEncTx false
  | "cb" :: rest -> ICb (parse_cb rest)
  | ["ret"; b] -> IRet (b = "1")
  | ["disarm"] -> IDisarm
  | ["findkey"; e; r] -> IFindKey (n_of_hex e, n_of_hex r)
  | ["setup"; k; s; i] -> ISetup (bytes_of_hex k, n_of_hex s, n_of_hex i)
  | ["st"; s; evc; ch; t; p; u; d; inst; fl] ->
      ISt (state_of s, num evc, num ch, num t, num p, n_of_hex u, (if d = "-" then None else Some (hexnum d)), num inst,
           List.init (String.length fl) (fun i -> fl.[i] = '1'))
  | _ -> failwith ("item " ^ w)
(* anything that is not a well formed result line (FAULT, SKIPPED, NOBUILD, rxfull, ...) is judged as a fault *)
let parse_out l = match words l with
  | ["-"] -> OItems [] | ["pre"] -> OPre | ["BADOP"] -> OBadOp
  | ws -> (try OItems (List.map parse_item ws) with _ -> OCrash)

(* ---- monitors: one entry per property; [feed] returns Some tag on the first violated clause.
   *)
type monitor = { mreset : cfg -> unit; mfeed : lop -> lout -> string option }
let mon_none = { mreset = (fun _ -> ()); mfeed = (fun _ _ -> None) }
let mk_monitor minit mstep tag_name =
  let m = ref None and cf = ref (cfg_of "base") in
  { mreset = (fun c -> cf := c; m := Some (minit c));
    mfeed = (fun o r -> match !m with
      | None -> None
      | Some mo -> (match mstep !cf mo o r with
          | (Ok, mo') -> m := Some mo'; None
          | (Bad t, _) -> Some (tag_name (int_of_nat t)))) }
let monitors = [
  "C28", mk_monitor minit28 mstep28 (fun t -> match t with
      | 1 -> "encrypted_without_key" | 2 -> "encrypted_without_start_enc_req" | 3 -> "unknown_key_not_rejected"
      | 4 -> "pause_keeps_encrypted" | 5 -> "protected_readable_unencrypted" | 6 -> "fault"
      | 8 -> "start_enc_req_unrequested" | _ -> "shape");
  "C29", mk_monitor minit29 mstep29 (fun t -> match t with
      | 1 -> "order" | 2 -> "duplicate" | 3 -> "closed_missing" | 4 -> "unrequested" | 5 -> "established_and_timeout"
      | 6 -> "requested_missing" | 7 -> "established_missing" | 8 -> "fault" | 9 -> "closed_reason" | _ -> "shape");
  "none", mon_none ]

let cfg = ref (cfg_of "base")
let st = ref (linit !cfg)
let mon = ref mon_none
let pos = ref 0
let bad = ref None
let () = main_loop
  ~reset:(fun c -> (match c with
            | p :: v :: _ -> cfg := cfg_of v; mon := (try List.assoc p monitors with Not_found -> mon_none)
            | _ -> failwith "CASE <name> <property> <variant>");
            st := linit !cfg; !mon.mreset !cfg; pos := 0; bad := None)
  ~model:(fun l -> match parse_op l with
            | None -> "BADOP"
            | Some o -> let (s', r) = lstep !cfg !st o in st := s'; show_out r)
  ~monitor:(fun o r ->
     (if !bad = None then
        match parse_op o with
        | None -> ()
        | Some op -> (match !mon.mfeed op (parse_out r) with Some t -> bad := Some (!pos, t) | None -> ()));
     incr pos; None)
  ~finish:(fun () -> match !bad with None -> "OK" | Some (p, t) -> Printf.sprintf "BAD %d %s" p t)
