(* driver for the NQueueSched micro-step model (C13).
   ops:     P qn <i> | P qi <i> | C deq | C conf | p | c | fin          CASE <name> <sizes csv>
   outputs: -                                   (P / C: operation appended to the thread's program)
            idle | <access> <ret>               (p / c: one micro-step of the producer / consumer)
              access = L <level> <byte> <hex> | S <level> <byte> <hex> | X
              ret    = . | r0 | r1 | re | rn <i> | ri <i> | r-
            q <hex>/<hex>/.. n <next>,.. o <i>|-   (fin: bytes per level, next_ per level, outstanding) *)
let st = ref (sinit [])
let mo = ref (sminit [])
let pos = ref 0
let bad = ref None
let nat s = nat_of_int (int_of_string s)
let parse_op l = match words l with
  | ["P"; "qn"; i] -> PushP (KNotif, nat i)
  | ["P"; "qi"; i] -> PushP (KInd, nat i)
  | ["C"; "deq"] -> PushC CDeq | ["C"; "conf"] -> PushC CConf
  | ["p"] -> StepP | ["c"] -> StepC | ["fin"] -> Fin
  | _ -> failwith ("bad op: " ^ l)
let show_acc = function
  | ANone -> "X"
  | ALoad ((l, b), v) -> Printf.sprintf "L %d %d %02x" (int_of_nat l) (int_of_nat b) (int_of_n v)
  | AStore ((l, b), v) -> Printf.sprintf "S %d %d %02x" (int_of_nat l) (int_of_nat b) (int_of_n v)
let show_ret = function
  | RNone -> "." | RBool b -> if b then "r1" else "r0" | REntry None -> "re"
  | REntry (Some (KNotif, i)) -> "rn " ^ string_of_int (int_of_nat i)
  | REntry (Some (KInd, i)) -> "ri " ^ string_of_int (int_of_nat i)
  | RUnit -> "r-"
let show_out = function
  | OAck -> "-" | OIdle -> "idle"
  | OStep (a, r) -> show_acc a ^ " " ^ show_ret r
  | OFinal (bytes, nexts, ou) ->
      Printf.sprintf "q %s n %s o %s" (String.concat "/" (List.map hex_of_bytes bytes))
        (String.concat "," (List.map (fun n -> string_of_int (int_of_nat n)) nexts))
        (match ou with None -> "-" | Some i -> string_of_int (int_of_nat i))
exception Junk
let parse_ret = function
  | ["."] -> RNone | ["r0"] -> RBool false | ["r1"] -> RBool true | ["re"] -> REntry None
  | ["rn"; i] -> REntry (Some (KNotif, nat i)) | ["ri"; i] -> REntry (Some (KInd, nat i))
  | ["r-"] -> RUnit | _ -> raise Junk
let byte s = n_of_int (int_of_string ("0x" ^ s))
let parse_out l = match words l with
  | ["-"] -> OAck | ["idle"] -> OIdle
  | "X" :: r -> OStep (ANone, parse_ret r)
  | "L" :: lv :: b :: v :: r -> OStep (ALoad ((nat lv, nat b), byte v), parse_ret r)
  | "S" :: lv :: b :: v :: r -> OStep (AStore ((nat lv, nat b), byte v), parse_ret r)
  | ["q"; q; "n"; n; "o"; o] ->
      OFinal (List.map bytes_of_hex (String.split_on_char '/' q),
              List.map nat_of_int (ints_of_csv n),
              (if o = "-" then None else Some (nat o)))
  | _ -> raise Junk
let tag_name t = match int_of_nat t with
  | 1 -> "lost" | 2 -> "dup" | 3 -> "ret" | 4 -> "deq" | 5 -> "final"
  | 11 -> "lost_overlap" | 12 -> "dup_overlap" | 13 -> "ret_overlap" | 14 -> "deq_overlap"
  | _ -> "shape"
let () = main_loop
  ~reset:(fun cfg -> let sizes = List.map nat_of_int (ints_of_csv (List.hd cfg)) in
           st := sinit sizes; mo := sminit sizes; pos := 0; bad := None)
  ~model:(fun l -> let (s', r) = sstep !st (parse_op l) in st := s'; show_out r)
  ~monitor:(fun o r ->
     (if !bad = None then
        match (try Some (parse_out r) with _ -> None) with
        | None -> bad := Some (!pos, "shape")   (* FAULT, SKIPPED, NOBUILD, junk *)
        | Some out ->
          match smstep !mo (parse_op o) out with
          | (SOk, m') -> mo := m'
          | (SBad t, _) -> bad := Some (!pos, tag_name t));
     incr pos; None)
  ~finish:(fun () -> match !bad with None -> "OK" | Some (p, t) -> Printf.sprintf "BAD %d %s" p t)
