(* driver for the Csc model. cfg: A | B | C.  ops: cccd <v> | w <hex> | wc <hex> | rd | confirm | out <n> | hvc | hvcbad | disc | wheel
   outputs: ok | err <c> | - | ind <hex> | <n> | resp <hex> | FAULT *)
(* the one-field record cfg is extracted as its field type *)
let cfg = ref None
let st = ref (init !cfg)
let mo = ref minit
let pos = ref 0
let bad = ref None
let cfg_of = function
  | "A" -> Some (List.map n_of_int [1; 2; 3])
  | "B" -> None
  | "C" -> Some (List.map n_of_int [1; 5])
  | s -> failwith ("bad cfg " ^ s)
let parse_op l = match words l with
  | ["cccd"; v] -> Cccd (n_of_int (int_of_string v))
  | ["w"; h] -> Write (bytes_of_hex h)
  | ["wc"; h] -> WriteCmd (bytes_of_hex h)
  | ["rd"] -> Read | ["confirm"] -> Confirm
  | ["out"; n] -> Out (n_of_int (int_of_string n))
  | ["hvc"] -> Hvc | ["hvcbad"] -> HvcBad | ["disc"] -> Disc | ["wheel"] -> Wheel
  | _ -> failwith ("bad op: " ^ l)
let show_out = function
  | OOk -> "ok" | OErr c -> "err " ^ string_of_int (int_of_n c) | ONone -> "-"
  | OInd b -> "ind " ^ hex_of_bytes b | ONum n -> string_of_int (int_of_n n)
  | OResp b -> "resp " ^ hex_of_bytes b | OFault -> "FAULT"
let parse_out l = match words l with
  | ["ok"] -> OOk | ["err"; c] -> OErr (n_of_int (int_of_string c)) | ["-"] -> ONone
  | ["ind"; h] -> OInd (bytes_of_hex h) | ["resp"; h] -> OResp (bytes_of_hex h)
  | [n] when (try ignore (int_of_string n); true with _ -> false) -> ONum (n_of_int (int_of_string n))
  | _ -> OFault
let tag_name t = match int_of_nat t with
  | 1 -> "busy_idle" | 2 -> "accepted_busy" | 3 -> "rejected_idle" | 4 -> "response_opcode"
  | 5 -> "response_unsolicited" | 6 -> "response_missing" | _ -> "shape"
let () = main_loop
  ~reset:(fun c -> cfg := cfg_of (List.hd c); st := init !cfg; mo := minit; pos := 0; bad := None)
  ~model:(fun l -> let (s', r) = step !cfg !st (parse_op l) in st := s'; show_out r)
  ~monitor:(fun o r ->
     (if !bad = None then
        match mstep !mo (parse_op o) (parse_out r) with
        | (Ok, m') -> mo := m'
        | (Bad t, _) -> bad := Some (!pos, tag_name t));
     incr pos; None)
  ~finish:(fun () -> match !bad with None -> "OK" | Some (p, t) -> Printf.sprintf "BAD %d %s" p t)
