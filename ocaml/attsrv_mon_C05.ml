(* C05 monitor glue: AttSrvSpecC05.mstep (reference semantics AttSrvSpecVal) over the observed result lines *)
let c05_tag t = match int_of_nat t with
  | 1 -> "leak_read" | 2 -> "leak_notify" | 3 -> "modified_unencrypted" | 4 -> "error_code" | _ -> "shape"
let c05_mon = ref None
let () = att_main
  ~mon_reset:(fun c -> c05_mon := Some (minit c))
  ~mon_step:(fun c o r ->
    match o with
    | Dump -> None
    | Op op ->
        (match mstep c (Option.get !c05_mon) op (parse_out o r) with
         | (Ok, m') -> c05_mon := Some m'; None
         | (Bad t, _) -> Some (c05_tag t)))
