(* driver for the Boot model.  cfg: <page size> <regions hexstart-hexend,... | none>   address size 8 bytes
   ops: cp <hex> | cpc <hex> | data <hex> | datac <hex> | endflash | run | out | hvc | err <0|1> | rd cp|data|prog
   outputs: <status> <call>*   (see harness/boot_harness.cpp) *)
let asz = 8
let cfg = ref { page = n_of_int 16; asz = nat_of_int asz; regions = [] }
let orc = toy_oracle (nat_of_int asz)
let st = ref init
let mo = ref minit
let pos = ref 0
let bad = ref None
(* 64 bit values do not fit OCaml's int: hex <-> N directly *)
let n_of_hex s =
  let r = ref N0 in
  String.iter (fun ch -> r := N.add (N.mul !r (n_of_int 16)) (n_of_int (int_of_string ("0x" ^ String.make 1 ch)))) s; !r
let hex_of_n n =
  let rec go n acc = if n = N0 then acc else
    let d = int_of_n (N.modulo n (n_of_int 16)) in go (N.div n (n_of_int 16)) (Printf.sprintf "%x" d ^ acc) in
  if n = N0 then "0" else go n ""
let cfg_of = function
  | [p; rs] ->
      let regs = if rs = "none" then [] else
        List.map (fun r -> match String.split_on_char '-' r with
                           | [a; b] -> (n_of_hex a, n_of_hex b) | _ -> failwith ("bad region " ^ r))
                 (String.split_on_char ',' rs) in
      { page = n_of_int (int_of_string p); asz = nat_of_int asz; regions = regs }
  | _ -> failwith "bad cfg"
let chr_of = function "cp" -> ChCp | "data" -> ChData | "prog" -> ChProg | s -> failwith ("bad chr " ^ s)
let chr_name = function ChCp -> "cp" | ChData -> "data" | ChProg -> "prog"
let parse_op l = match words l with
  | ["cp"; h] -> WCp (bytes_of_hex h) | ["cpc"; h] -> WCpCmd (bytes_of_hex h)
  | ["data"; h] -> WData (bytes_of_hex h) | ["datac"; h] -> WDataCmd (bytes_of_hex h)
  | ["endflash"] -> EndFlash | ["run"] -> Run | ["out"] -> Out | ["hvc"] -> Hvc
  | ["err"; e] -> SetErr (e <> "0") | ["rd"; c] -> Rd (chr_of c)
  | _ -> failwith ("bad op: " ^ l)
let show_call = function
  | CCs (a, r) -> "cs:" ^ hex_of_n a ^ "=" ^ hex_of_n r
  | CCk (b, o, r) -> "ck:" ^ hex_of_bytes b ^ ":" ^ hex_of_n o ^ "=" ^ hex_of_n r
  | CRm (a, b) -> "rm:" ^ hex_of_n a ^ ":" ^ hex_of_bytes b
  | CSf (a, b) -> "sf:" ^ hex_of_n a ^ ":" ^ hex_of_bytes b
  | CPr (a, n, e) -> "pr:" ^ hex_of_n a ^ ":" ^ hex_of_n n ^ ":" ^ (if e then "1" else "0")
  | CPc (a, n, r) -> "pc:" ^ hex_of_n a ^ ":" ^ hex_of_n n ^ "=" ^ hex_of_n r
  | CGo a -> "go:" ^ hex_of_n a
  | CReset -> "reset" | CVer -> "ver" | CCpcb -> "cpcb" | CDicb -> "dicb"
let show_out r = match r.ost with
  | SFault -> "FAULT"
  | s ->
    let st = match s with
      | SOk -> "ok" | SErr c -> "err " ^ string_of_int (int_of_n c) | SNone -> "-"
      | SNtf (c, b) -> "ntf " ^ chr_name c ^ " " ^ hex_of_bytes b
      | SInd (c, b) -> "ind " ^ chr_name c ^ " " ^ hex_of_bytes b
      | SVal b -> "val " ^ hex_of_bytes b | SFault -> "FAULT" in
    String.concat " " (st :: List.map show_call r.ocalls)
let split2 s ch = match String.index_opt s ch with
  | Some k -> (String.sub s 0 k, String.sub s (k + 1) (String.length s - k - 1)) | None -> (s, "")
let parse_call w =
  if w = "reset" then CReset else if w = "ver" then CVer else if w = "cpcb" then CCpcb else if w = "dicb" then CDicb else
  let (kind, rest) = split2 w ':' in
  match kind with
  | "cs" -> let (a, r) = split2 rest '=' in CCs (n_of_hex a, n_of_hex r)
  | "ck" -> let (b, t) = split2 rest ':' in let (o, r) = split2 t '=' in CCk (bytes_of_hex b, n_of_hex o, n_of_hex r)
  | "rm" -> let (a, b) = split2 rest ':' in CRm (n_of_hex a, bytes_of_hex b)
  | "sf" -> let (a, b) = split2 rest ':' in CSf (n_of_hex a, bytes_of_hex b)
  | "pr" -> let (a, t) = split2 rest ':' in let (n, e) = split2 t ':' in CPr (n_of_hex a, n_of_hex n, e <> "0")
  | "pc" -> let (a, t) = split2 rest ':' in let (n, r) = split2 t '=' in CPc (n_of_hex a, n_of_hex n, n_of_hex r)
  | "go" -> CGo (n_of_hex rest)
  | _ -> failwith ("bad call " ^ w)
let parse_out l =
  try match words l with
  | "ok" :: cl -> { ost = SOk; ocalls = List.map parse_call cl }
  | "err" :: c :: cl -> { ost = SErr (n_of_int (int_of_string c)); ocalls = List.map parse_call cl }
  | "-" :: cl -> { ost = SNone; ocalls = List.map parse_call cl }
  | "ntf" :: c :: b :: cl -> { ost = SNtf (chr_of c, bytes_of_hex b); ocalls = List.map parse_call cl }
  | "ind" :: c :: b :: cl -> { ost = SInd (chr_of c, bytes_of_hex b); ocalls = List.map parse_call cl }
  | "val" :: b :: cl -> { ost = SVal (bytes_of_hex b); ocalls = List.map parse_call cl }
  | _ -> { ost = SFault; ocalls = [] }
  with _ -> { ost = SFault; ocalls = [] }
let tag_name t = match int_of_nat t with
  | 1 -> "overread" | 2 -> "range_outside_whitelist" | 3 -> "flashed_bytes" | 4 -> "crc_chain"
  | 5 -> "data_outside_session" | 6 -> "progress_report" | _ -> "shape"
let () = main_loop
  ~reset:(fun c -> cfg := cfg_of c; st := init; mo := minit; pos := 0; bad := None)
  ~model:(fun l -> let (s', r) = step !cfg orc !st (parse_op l) in st := s'; show_out r)
  ~monitor:(fun o r ->
     (if !bad = None then
        match mstep !cfg !mo (parse_op o) (parse_out r) with
        | (Ok, m') -> mo := m'
        | (Bad t, _) -> bad := Some (!pos, tag_name t));
     incr pos; None)
  ~finish:(fun () -> match !bad with None -> "OK" | Some (p, t) -> Printf.sprintf "BAD %d %s" p t)
