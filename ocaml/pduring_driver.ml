(* driver for the PduRing model.   CASE <name> <Size> <default|nrf>
   ops:  alloc <n> | w <rel> <hex> | wabs <off> <hex> | push | pushn <n> | pushabs <off> <n>
         | peek | pop | more | reset | dump | st
   `w`, `push`, `pushn` refer to the region of the latest successful alloc seen in the outputs
   (model mode: the model's, monitor mode: the implementation's), as a client of the ring does;
   while no allocation is outstanding (last alloc failed, or already committed, or reset) they are
   not executed and answered with `skip`.
   outputs: a <off> <n> | none | - | c <hex> | p <off> <len> <hex> | 0/1 | d <hex> | s <front> <end>
            | FAULT | SKIPPED *)
let cf = ref { size = O; ovh = O; lmod = O }
let st = ref (init !cf)
let mo = ref (minit O)   (* strict monitor: with the empty-ring guarantee *)
let mo2 = ref (minit O)  (* the same without that clause, so that the known finding never hides another violation *)
let bad2 = ref None
let last = ref (0, 0)
let have = ref false
let faulted = ref false
let pos = ref 0
let bad = ref None
let i = int_of_string
let parse_op l = match words l with
  | ["alloc"; n] -> Alloc (nat_of_int (i n))
  | ["w"; r; h] -> Write (nat_of_int (fst !last + i r), bytes_of_hex h)
  | ["wabs"; o; h] -> Write (nat_of_int (i o), bytes_of_hex h)
  | ["push"] -> Push (nat_of_int (fst !last), nat_of_int (snd !last))
  | ["pushn"; n] -> Push (nat_of_int (fst !last), nat_of_int (i n))
  | ["pushabs"; o; n] -> Push (nat_of_int (i o), nat_of_int (i n))
  | ["peek"] -> Peek | ["pop"] -> Pop | ["more"] -> More | ["reset"] -> Reset
  | ["dump"] -> Dump | ["st"] -> St
  | _ -> failwith ("bad op: " ^ l)
let sn n = string_of_int (int_of_nat n)
let show_out = function
  | OAlloc (o, n) -> "a " ^ sn o ^ " " ^ sn n
  | ONone -> "none" | OUnit -> "-"
  | OCommit b -> "c " ^ hex_of_bytes b
  | OPeek (o, n, b) -> "p " ^ sn o ^ " " ^ sn n ^ " " ^ hex_of_bytes b
  | OBool b -> if b then "1" else "0"
  | ODump b -> "d " ^ hex_of_bytes b
  | OSt (f, e) -> "s " ^ sn f ^ " " ^ sn e
  | OFault -> "FAULT" | OSkipped -> "SKIPPED"
let parse_out l = match words l with
  | ["a"; o; n] -> OAlloc (nat_of_int (i o), nat_of_int (i n))
  | ["none"] -> ONone | ["-"] -> OUnit
  | ["c"; h] -> OCommit (bytes_of_hex h)
  | ["p"; o; n; h] -> OPeek (nat_of_int (i o), nat_of_int (i n), bytes_of_hex h)
  | ["0"] -> OBool false | ["1"] -> OBool true
  | ["d"; h] -> ODump (bytes_of_hex h)
  | ["s"; f; e] -> OSt (nat_of_int (i f), nat_of_int (i e))
  | ["FAULT"] -> OFault
  | _ -> OSkipped (* SKIPPED, NOBUILD, MISSING, junk: shape violation unless outside the discipline *)
let note op r = match op, r with
  | Alloc _, OAlloc (o, n) -> last := (int_of_nat o, int_of_nat n); have := true
  | Alloc _, _ -> have := false
  | Reset, _ -> have := false
  | _ -> ()
let skipped l = (match words l with ("w" | "push" | "pushn") :: _ -> true | _ -> false) && not !have
let consumes l = (match words l with ("push" | "pushn") :: _ -> true | _ -> false)
let tag_name t = match int_of_nat t with
  | 1 -> "oob_write" | 2 -> "overlap" | 3 -> "alloc_complete" | 4 -> "alloc_empty"
  | 5 -> "region_clobbered" | 6 -> "fifo_order" | 7 -> "bytes_intact" | 8 -> "more_than_one"
  | _ -> "shape"
let () = main_loop
  ~reset:(fun cfg ->
     let size = nat_of_int (i (List.nth cfg 0)) in
     let o = if List.length cfg > 1 && List.nth cfg 1 = "nrf" then nrf_overhead else default_overhead in
     cf := { size = size; ovh = o; lmod = push_len_mod };
     st := init !cf; mo := minit size; mo2 := minit size; last := (0, 0); have := false; faulted := false; pos := 0; bad := None; bad2 := None)
  ~model:(fun l ->
     if !faulted then "SKIPPED" else if skipped l then "skip" else begin
       let op = parse_op l in
       let (s', r) = step !cf !st op in
       st := s'; note op r; if consumes l then have := false; if is_fault r then faulted := true; show_out r
     end)
  ~monitor:(fun o r ->
     (if not (skipped o) then begin
        let op = parse_op o and out = parse_out r in
        note op out; if consumes o then have := false;
        (if !bad = None then
           match mstep true O (!cf).size (!cf).ovh !mo op out with
           | (Ok, m') -> mo := m'
           | (Bad t, _) -> bad := Some (!pos, tag_name t));
        (if !bad2 = None then
           match mstep false O (!cf).size (!cf).ovh !mo2 op out with
           | (Ok, m') -> mo2 := m'
           | (Bad t, _) -> bad2 := Some (!pos, tag_name t))
      end else if String.trim r <> "skip" && String.trim r <> "SKIPPED" && !bad2 = None then bad2 := Some (!pos, "shape"));
     incr pos; None)
  ~finish:(fun () -> match !bad2, !bad with
     | Some (p, t), _ | None, Some (p, t) -> Printf.sprintf "BAD %d %s" p t
     | None, None -> "OK")
