(* driver for the SduBuf model (C19). CASE <name> <mtu> <oh>
   ops:     rx <llid> <hex> | next <g> | free | l2tx <g> <hex> | lltx <g> <a> <hex> | radio | maxtx <n> | maxrx <n>
   outputs: ok | drop | toolong | none | pdu <llid> <hex> | sdu <hex> | nop | busy | full | pre | FAULT | SKIPPED
            followed by " ; tx <llid>:<hex> ..." when PDUs were committed to the radio *)
let cf = ref { mtu = n_of_int 23; oh = N0 }
let st = ref (init !cf)
let mo = ref minit
let pos = ref 0
let bad = ref None
let ioS = int_of_string
let parse_op l = match words l with
  | ["rx"; llid; h] -> Rx (n_of_int (ioS llid), bytes_of_hex h)
  | ["next"; g] -> Next (nat_of_int (ioS g))
  | ["free"] -> Free
  | ["l2tx"; g; h] -> L2Tx (nat_of_int (ioS g), bytes_of_hex h)
  | ["lltx"; g; a; h] -> LlTx (nat_of_int (ioS g), ioS a <> 0, bytes_of_hex h)
  | ["radio"] -> Radio
  | ["maxtx"; n] -> MaxTx (n_of_int (ioS n))
  | ["maxrx"; n] -> MaxRx (n_of_int (ioS n))
  | _ -> failwith ("bad op: " ^ l)
let show_pdu (llid, b) = string_of_int (int_of_n llid) ^ ":" ^ hex_of_bytes b
let show_res = function
  | ROk -> "ok" | RDrop -> "drop" | RTooLong -> "toolong" | RNone -> "none"
  | RPdu (llid, b) -> "pdu " ^ string_of_int (int_of_n llid) ^ " " ^ hex_of_bytes b
  | RSdu b -> "sdu " ^ hex_of_bytes b
  | RNop -> "nop" | RBusy -> "busy" | RFull -> "full" | RPre -> "pre" | RFault -> "FAULT" | RSkipped -> "SKIPPED"
let show_out (r, txs) =
  show_res r ^ (if txs = [] then "" else " ; tx " ^ String.concat " " (List.map show_pdu txs))
let parse_pdu w = match String.split_on_char ':' w with
  | [llid; h] -> (n_of_int (ioS llid), bytes_of_hex h)
  | _ -> failwith "pdu"
(* anything that is not a well formed result (FAULT, SKIPPED, RINGFULL, MISSING, ...) is a fault of that operation *)
let parse_out l =
  try
    let ws = words l in
    let rec split acc = function
      | ";" :: "tx" :: rest -> (List.rev acc, List.map parse_pdu rest)
      | w :: rest -> split (w :: acc) rest
      | [] -> (List.rev acc, []) in
    let (rw, txs) = split [] ws in
    let r = match rw with
      | ["ok"] -> ROk | ["drop"] -> RDrop | ["toolong"] -> RTooLong | ["none"] -> RNone
      | ["pdu"; llid; h] -> RPdu (n_of_int (ioS llid), bytes_of_hex h)
      | ["sdu"; h] -> RSdu (bytes_of_hex h)
      | ["nop"] -> RNop | ["busy"] -> RBusy | ["full"] -> RFull | ["pre"] -> RPre
      | ["SKIPPED"] -> RSkipped
      | _ -> RFault in
    (r, txs)
  with _ -> (RFault, [])
let tag_name t = match int_of_nat t with
  | 1 -> "oob_write" | 2 -> "delivered_exact" | 3 -> "delivered_len" | 4 -> "order"
  | 5 -> "frag_shape" | 6 -> "frag_concat" | 7 -> "frag_size" | _ -> "shape"
let () = main_loop
  ~reset:(fun cfg ->
     (match cfg with
      | m :: o :: _ -> cf := { mtu = n_of_int (ioS m); oh = n_of_int (ioS o) }
      | _ -> failwith "CASE <name> <mtu> <oh>");
     st := init !cf; mo := minit; pos := 0; bad := None)
  ~model:(fun l -> let (s', r) = step !cf !st (parse_op l) in st := s'; show_out r)
  ~monitor:(fun o r ->
     (if !bad = None then
        match mstep !cf !mo (parse_op o) (parse_out r) with
        | (Ok, m') -> mo := m'
        | (Bad t, _) -> bad := Some (!pos, tag_name t));
     incr pos; None)
  ~finish:(fun () -> match !bad with None -> "OK" | Some (p, t) -> Printf.sprintf "BAD %d %s" p t)
