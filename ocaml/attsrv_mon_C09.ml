(* C09 monitor glue. The C09 harness (harness/attsrv_cb_harness.cpp) has one more operation than the shared
   one: `cbs` = invocations of the server wide subscription callback since the last `cbs`. The model side is
   AttSrvCbModel.srv9_step (srv_step + the callback count), so this file has its own main loop (a copy of
   att_main of attsrv_lib.ml with the extra operation). *)
let c09_tag t = match int_of_nat t with
  | 1 -> "fault" | 2 -> "readback" | 3 -> "other_cccd_changed" | 4 -> "other_connection_changed"
  | 5 -> "callback_iff_changed" | 6 -> "cccd_write" | _ -> "shape"
let is_cbs l = (String.trim l = "cbs")
let () =
  let cur = ref None and st = ref None and dead = ref false in
  let pos = ref 0 and bad = ref None and mon = ref None in
  let cfg_cache = Hashtbl.create 16 in
  main_loop
    ~reset:(fun w ->
      let enc = List.nth w 1 in
      let c = (try Hashtbl.find cfg_cache enc with Not_found -> let c = parse_cfg enc in Hashtbl.replace cfg_cache enc c; c) in
      cur := Some c; st := Some (srv9_init c); dead := false; pos := 0; bad := None; mon := Some (obs_init c))
    ~model:(fun l ->
      let c = Option.get !cur in
      if !dead then "SKIPPED"
      else if String.trim l = "wf" then (if wf_b c then "1" else "0")
      else if is_cbs l then
        (match srv9_step c (Option.get !st) Cbs with
         | (s', Count n) -> st := Some s'; string_of_int (int_of_n n)
         | (s', Out9 r) -> st := Some s'; show_out r)
      else match parse_op l with
        | Dump -> dump c
        | Op o ->
            (match srv9_step c (Option.get !st) (Op9 o) with
             | (s', Out9 r) -> st := Some s'; (if r = OFault then dead := true); show_out r
             | (s', Count n) -> st := Some s'; string_of_int (int_of_n n)))
    ~monitor:(fun o r ->
      (if !bad = None then begin
         let c = Option.get !cur in
         let step op out =
           match mstep09 c (Option.get !mon) op out with
           | (Ok, m') -> mon := Some m'
           | (Bad t, _) -> bad := Some (!pos, c09_tag t) in
         if String.trim r = "SKIPPED" then ()                  (* after a FAULT the harness is gone: nothing to judge *)
         else if is_cbs o then
           (match int_of_string_opt (String.trim r) with
            | Some n -> step Cbs (Count (n_of_int n))
            | None -> ())                                     (* SKIPPED after a fault *)
         else match parse_op o with
           | Dump -> ()
           | Op op -> step (Op9 op) (Out9 (parse_out (Op op) r))
       end);
      incr pos; None)
    ~finish:(fun () -> match !bad with None -> "OK" | Some (p, t) -> Printf.sprintf "BAD %d %s" p t)
