(* driver for the ChanMap model: ops  reset <10 hex digits> <hop> | remap <10 hex digits> | chan <index> | dump
   outputs: 0/1 | <channel, decimal> | <37 bytes hex> | FAULT | SKIPPED        CASE <name> [ignored words] *)
let st = ref init
let mo = ref minit
let pos = ref 0
let bad = ref None
let parse_op l = match words l with
  | ["reset"; m; h] -> Reset (bytes_of_hex m, n_of_int (int_of_string h))
  | ["remap"; m] -> Remap (bytes_of_hex m)
  | ["chan"; i] -> Chan (nat_of_int (int_of_string i))
  | ["dump"] -> Dump
  | _ -> failwith ("bad op: " ^ l)
let show_out = function
  | OBool b -> if b then "1" else "0"
  | OChan c -> string_of_int (int_of_n c)
  | OTable t -> hex_of_bytes t
  | OFault -> "FAULT"
  | OSkipped -> "SKIPPED"
(* the output is read according to the operation it answers; anything unreadable is a fault *)
let parse_out o l = match o, words l with
  | _, ["FAULT"] -> OFault
  | _, ["SKIPPED"] -> OSkipped
  | (Reset _ | Remap _), ["0"] -> OBool false
  | (Reset _ | Remap _), ["1"] -> OBool true
  | Chan _, [c] -> (match int_of_string_opt c with Some v when v >= 0 -> OChan (n_of_int v) | _ -> OFault)
  | Dump, [t] -> (try OTable (bytes_of_hex t) with _ -> OFault)
  | _ -> OFault
let tag_name t = match int_of_nat t with
  | 1 -> "reset_result" | 2 -> "csa1" | 3 -> "not_applied" | 4 -> "fault" | _ -> "shape"
let () = main_loop
  ~reset:(fun _ -> st := init; mo := minit; pos := 0; bad := None)
  ~model:(fun l -> let (s', r) = step !st (parse_op l) in st := s'; show_out r)
  ~monitor:(fun o r ->
     (if !bad = None then
        let op = parse_op o in
        match mstep !mo op (parse_out op r) with
        | (Ok, m') -> mo := m'
        | (Bad t, _) -> bad := Some (!pos, tag_name t));
     incr pos; None)
  ~finish:(fun () -> match !bad with None -> "OK" | Some (p, t) -> Printf.sprintf "BAD %d %s" p t)
