(* C03 monitor glue: AttSrvSpecC03.c03_step over the observed result lines *)
let c03_tag t = match int_of_nat t with
  | 1 -> "primary_only" | 2 -> "group_range" | 3 -> "group_uuid" | 4 -> "services_exact" | 5 -> "services_enumerated"
  | 7 -> "invalid_range" | _ -> "shape"
let c03_mon = ref c03_init
let () = att_main
  ~mon_reset:(fun _ -> c03_mon := c03_init)
  ~mon_step:(fun c o r ->
    match o with
    | Dump -> None
    | Op op ->
        (match c03_step c !c03_mon op (parse_out o r) with
         | (Ok, m') -> c03_mon := m'; None
         | (Bad t, m') -> c03_mon := m'; Some (c03_tag t)))
