(* C10 monitor glue: AttSrvSpecC10.mstep10 over the observed result lines *)
let c10_tag t = match int_of_nat t with
  | 1 -> "fault" | 2 -> "wrong_characteristic" | 3 -> "wrong_value" | 4 -> "not_subscribed" | 5 -> "duplicate_pdu" | _ -> "shape"
let c10_mon = ref None
let () = att_main
  ~mon_reset:(fun c -> c10_mon := Some (obs_init c))
  ~mon_step:(fun c o r ->
    match o with
    | Dump -> None
    | Op _ when String.trim r = "SKIPPED" -> None      (* after a FAULT the harness is gone: nothing to judge *)
    | Op op ->
        (match mstep10 c (Option.get !c10_mon) op (parse_out o r) with
         | (Ok, m') -> c10_mon := Some m'; None
         | (Bad t, _) -> Some (c10_tag t)))
