(* C01 monitor glue: AttSrvSpecC01.mstep over the observed result lines *)
let c01_tag t = match int_of_nat t with
  | 1 -> "fault" | 2 -> "length" | 3 -> "frame" | 4 -> "frame_list" | _ -> "shape"
let c01_mon = ref minit
let () = att_main
  ~mon_reset:(fun _ -> c01_mon := minit)
  ~mon_step:(fun c o r ->
    match o with
    | Dump -> None
    | Op op ->
        (match mstep c !c01_mon op (parse_out o r) with
         | (Ok, m') -> c01_mon := m'; None
         | (Bad t, _) -> Some (c01_tag t)))
