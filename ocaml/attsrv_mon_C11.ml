(* C11 monitor glue: AttSrvSpecC11.mstep11 over the observed result lines *)
let c11_tag t = match int_of_nat t with
  | 1 -> "fault" | 2 -> "two_outstanding" | 3 -> "indication_lost" | 4 -> "bad_confirmation_accepted" | 5 -> "notification_blocked" | _ -> "shape"
let c11_mon = ref None
let () = att_main
  ~mon_reset:(fun c -> c11_mon := Some (obs_init c))
  ~mon_step:(fun c o r ->
    match o with
    | Dump -> None
    | Op _ when String.trim r = "SKIPPED" -> None      (* after a FAULT the harness is gone: nothing to judge *)
    | Op op ->
        (match mstep11 c (Option.get !c11_mon) op (parse_out o r) with
         | (Ok, m') -> c11_mon := Some m'; None
         | (Bad t, _) -> Some (c11_tag t)))
