(* driver for the PduBuf model (ll_data_pdu_buffer.hpp), properties C15 C16 C17
   CASE <name> <C15|C16|C17> <overhead> <TransmitSize> <ReceiveSize>
   ops: maxrx n | maxtx n | reset | stop | tx n hl body | pend | nr | fr | rx hl body | mic hl body | nt
        ctr low high n   (counter::increment tie; not an operation of the buffer, skipped by the monitor)
   outputs: - | pre | 0/1 | ok/full | E | D size hdr body | R/A/N size hdr body rc tc *)
let cf = ref ({ c_o = N0; c_T = N0; c_R = N0 })
let st = ref (init !cf)
let mo = ref (minit !cf)
let prop = ref P15
let pos = ref 0
let bad = ref None
let stop = ref false
let hexbyte s = n_of_int (int_of_string ("0x" ^ s))
let num s = n_of_int (int_of_string s)
let parse_op l = match words l with
  | ["maxrx"; n] -> MaxRx (num n) | ["maxtx"; n] -> MaxTx (num n)
  | ["reset"] -> Reset | ["stop"] -> Stop | ["pend"] -> Pend | ["nr"] -> NextRecv | ["fr"] -> FreeRecv
  | ["tx"; n; hl; b] -> Tx (num n, hexbyte hl, bytes_of_hex b)
  | ["rx"; hl; b] -> Rx (hexbyte hl, bytes_of_hex b)
  | ["mic"; hl; b] -> Mic (hexbyte hl, bytes_of_hex b)
  | ["nt"] -> NextTx
  | _ -> failwith ("bad op: " ^ l)
let hdr_text h = let h = int_of_n h in Printf.sprintf "%02x%02x" (h land 255) (h lsr 8)
let pdu_text sz h b = Printf.sprintf "%d %s %s" (int_of_n sz) (hdr_text h) (hex_of_bytes b)
let show_out = function
  | OUnit -> "-" | OPre -> "pre" | OBool b -> if b then "1" else "0"
  | OTx b -> if b then "ok" else "full" | ONone -> "E"
  | OPdu (sz, h, b) -> "D " ^ pdu_text sz h b
  | OResp (k, sz, h, b, rc, tc) ->
      (match k with KR -> "R " | KA -> "A " | KN -> "N ") ^ pdu_text sz h b ^ Printf.sprintf " %d %d" (int_of_n rc) (int_of_n tc)
  | OJunk -> "JUNK"
let hdr_of s = match bytes_of_hex s with [lo; hi] -> n_of_int (int_of_n lo + 256 * int_of_n hi) | _ -> failwith "hdr"
let parse_out l = try (match words l with
  | ["-"] -> OUnit | ["pre"] -> OPre | ["0"] -> OBool false | ["1"] -> OBool true
  | ["ok"] -> OTx true | ["full"] -> OTx false | ["E"] -> ONone
  | ["D"; sz; h; b] -> OPdu (num sz, hdr_of h, bytes_of_hex b)
  | [k; sz; h; b; rc; tc] when k = "R" || k = "A" || k = "N" ->
      OResp ((if k = "R" then KR else if k = "A" then KA else KN), num sz, hdr_of h, bytes_of_hex b, num rc, num tc)
  | _ -> OJunk) with _ -> OJunk
let tag_name t = match int_of_nat t with
  | 1 -> "shape" | 2 -> "nesn_rx" | 3 -> "nesn_nobuf" | 4 -> "nesn_mic" | 5 -> "nesn_nt" | 6 -> "deliver"
  | 7 -> "retransmit" | 8 -> "tx_new" | 9 -> "pend" | 10 -> "rx_counter" | 11 -> "tx_counter"
  | 12 -> "mic_counter" | _ -> "shape"
let is_ctr l = match words l with "ctr" :: _ -> true | _ -> false
let ctr l = match words l with
  | ["ctr"; lo; hi; n] ->
      let k = ref (n_of_int (int_of_string lo), n_of_int (int_of_string hi)) in
      for _ = 1 to int_of_string n do k := counter_increment !k done;
      hex_of_bytes (counter_bytes !k)
  | _ -> failwith "ctr"
let () = main_loop
  ~reset:(fun cfg -> (match cfg with
           | p :: o :: t :: r :: _ ->
               prop := (match p with "C16" -> P16 | "C17" -> P17 | _ -> P15);
               cf := { c_o = num o; c_T = num t; c_R = num r }
           | _ -> failwith "CASE <name> <property> <overhead> <TransmitSize> <ReceiveSize>");
           st := init !cf; mo := minit !cf; pos := 0; bad := None; stop := false)
  ~model:(fun l -> if is_ctr l then ctr l else
           let (s', r) = step !cf !st (parse_op l) in st := s'; show_out r)
  ~monitor:(fun o r ->
     (if !bad = None && not !stop && not (is_ctr o) then
        match judge !prop !mo (parse_op o) (parse_out r) with
        | JOk m' -> mo := m'
        | JBad t -> bad := Some (!pos, tag_name t)
        | JStop -> stop := true);
     incr pos; None)
  ~finish:(fun () -> match !bad with None -> "OK" | Some (p, t) -> Printf.sprintf "BAD %d %s" p t)
